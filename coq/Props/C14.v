(* C14 - Binomial deduction is well-formed, total-probability consistent, label-symmetric.
   Only statements, each closed by [exact]; proofs are in Facts/BiDeduce.v.

   Operands: antecedent x = (bx, dx, ux; ax) with 0 < ax < 1 and 0 < P(x) = bx + ax ux < 1,
   conditionals y|x = (b0, d0, u0) and y|~x = (b1, d1, u1), consequent base rate 0 < ay < 1,
   guard tolerance 0 <= eps <= 1/8.  The result is given by the explicit real functions
   [bdedB], [bdedD], [bdedU] (intermediate masses corrected by [bdeduceK], which has literally
   the nine-way case split of the code). *)
From Coq Require Import Reals List Lra.
Import ListNotations.
From SL Require Import Model.Num Model.Vec Model.Mul Model.Bi Model.InstR Facts.RBase Facts.Discount
  Facts.BiDeduce.
Open Scope R_scope.

(* Definedness (no division by zero in any of the nine branches, the constructor's
   self-validation passes) and well-formedness of the result, in every case
   I, II.A.1, II.A.2, II.B.1, II.B.2, III.A.1, III.A.2, III.B.1, III.B.2. *)
Theorem bdeduce_wf : forall eps bx dx ux ax b0 d0 u0 b1 d1 u1 ay,
  0 <= eps <= 1/8 -> wf_bop bx dx ux ax -> 0 < ax < 1 -> 0 < bx + ax * ux < 1 ->
  wf_cond b0 d0 u0 -> wf_cond b1 d1 u1 -> 0 < ay < 1 ->
  bdeduce (B:=FldR) eps (bopR bx dx ux ax) (Some b0, Some d0, Some u0)
          (Some b1, Some d1, Some u1) (Some ay) =
  Some (bopR (bdedB bx dx ux ax b0 d0 u0 b1 d1 u1 ay) (bdedD bx dx ux ax b0 d0 u0 b1 d1 u1 ay)
             (bdedU bx dx ux ax b0 d0 u0 b1 d1 u1 ay) ay) /\
  wf_bop (bdedB bx dx ux ax b0 d0 u0 b1 d1 u1 ay) (bdedD bx dx ux ax b0 d0 u0 b1 d1 u1 ay)
         (bdedU bx dx ux ax b0 d0 u0 b1 d1 u1 ay) ay.
Proof. exact bdeduce_wf_full. Qed.
Print Assumptions bdeduce_wf.

(* The nine branches collapse: K = ux min(ax (b0-b1)/ay, (1-ax)(d1-d0)/(1-ay)) in Case II,
   K = ux min((1-ax)(b1-b0)/ay, ax (d0-d1)/(1-ay)) in Case III, K = 0 in Case I ([kR]);
   A/B selects the argument of the min, 1/2 only the way it is written. *)
Theorem bdeduce_K_closed_form : forall bx dx ux ax b0 d0 u0 b1 d1 u1 ay,
  wf_bop bx dx ux ax -> 0 < ax < 1 -> 0 < bx + ax * ux < 1 ->
  wf_cond b0 d0 u0 -> wf_cond b1 d1 u1 -> 0 < ay < 1 ->
  bdeduceK bx dx ux ax b0 d0 u0 b1 d1 u1 ay = kR ux ax b0 d0 b1 d1 ay.
Proof. exact bdeduceK_closed. Qed.
Print Assumptions bdeduce_K_closed_form.

(* the four non-trivial branches in the usual notation (threshold on P(y||x^)) *)
Theorem bdeduce_K_caseII_A : forall bx dx ux ax b0 d0 u0 b1 d1 u1 ay,
  wf_bop bx dx ux ax -> 0 < ax < 1 -> 0 < bx + ax * ux < 1 ->
  wf_cond b0 d0 u0 -> wf_cond b1 d1 u1 -> 0 < ay < 1 ->
  b1 < b0 -> d0 <= d1 ->
  b0 * ax + b1 * (1 - ax) + ay * (u0 * ax + u1 * (1 - ax)) <= b1 + ay * (1 - b1 - d0) ->
  bdeduceK bx dx ux ax b0 d0 u0 b1 d1 u1 ay = ux * (ax * (b0 - b1) / ay).
Proof. exact K_caseII_A. Qed.
Print Assumptions bdeduce_K_caseII_A.

Theorem bdeduce_K_caseII_B : forall bx dx ux ax b0 d0 u0 b1 d1 u1 ay,
  wf_bop bx dx ux ax -> 0 < ax < 1 -> 0 < bx + ax * ux < 1 ->
  wf_cond b0 d0 u0 -> wf_cond b1 d1 u1 -> 0 < ay < 1 ->
  b1 < b0 -> d0 <= d1 ->
  b1 + ay * (1 - b1 - d0) < b0 * ax + b1 * (1 - ax) + ay * (u0 * ax + u1 * (1 - ax)) ->
  bdeduceK bx dx ux ax b0 d0 u0 b1 d1 u1 ay = ux * ((1 - ax) * (d1 - d0) / (1 - ay)).
Proof. exact K_caseII_B. Qed.
Print Assumptions bdeduce_K_caseII_B.

Theorem bdeduce_K_caseIII_A : forall bx dx ux ax b0 d0 u0 b1 d1 u1 ay,
  wf_bop bx dx ux ax -> 0 < ax < 1 -> 0 < bx + ax * ux < 1 ->
  wf_cond b0 d0 u0 -> wf_cond b1 d1 u1 -> 0 < ay < 1 ->
  b0 <= b1 -> d1 < d0 ->
  b0 * ax + b1 * (1 - ax) + ay * (u0 * ax + u1 * (1 - ax)) <= b0 + ay * (1 - b0 - d1) ->
  bdeduceK bx dx ux ax b0 d0 u0 b1 d1 u1 ay = ux * ((1 - ax) * (b1 - b0) / ay).
Proof. exact K_caseIII_A. Qed.
Print Assumptions bdeduce_K_caseIII_A.

Theorem bdeduce_K_caseIII_B : forall bx dx ux ax b0 d0 u0 b1 d1 u1 ay,
  wf_bop bx dx ux ax -> 0 < ax < 1 -> 0 < bx + ax * ux < 1 ->
  wf_cond b0 d0 u0 -> wf_cond b1 d1 u1 -> 0 < ay < 1 ->
  b0 <= b1 -> d1 < d0 ->
  b0 + ay * (1 - b0 - d1) < b0 * ax + b1 * (1 - ax) + ay * (u0 * ax + u1 * (1 - ax)) ->
  bdeduceK bx dx ux ax b0 d0 u0 b1 d1 u1 ay = ux * (ax * (d0 - d1) / (1 - ay)).
Proof. exact K_caseIII_B. Qed.
Print Assumptions bdeduce_K_caseIII_B.

(* The returned opinion carries the base rate ay and its projected probability is
   P(x) P(y|x) + P(~x) P(y|~x). *)
Theorem bdeduce_base_rate_total_probability : forall eps bx dx ux ax b0 d0 u0 b1 d1 u1 ay,
  0 <= eps <= 1/8 -> wf_bop bx dx ux ax -> 0 < ax < 1 -> 0 < bx + ax * ux < 1 ->
  wf_cond b0 d0 u0 -> wf_cond b1 d1 u1 -> 0 < ay < 1 ->
  exists w,
    bdeduce (B:=FldR) eps (bopR bx dx ux ax) (Some b0, Some d0, Some u0)
            (Some b1, Some d1, Some u1) (Some ay) = Some w /\
    ba w = Some ay /\
    bprojection w =
      Some ((bx + ax * ux) * (b0 + ay * u0) + (1 - (bx + ax * ux)) * (b1 + ay * u1)).
Proof. exact bdeduce_total_probability_model. Qed.
Print Assumptions bdeduce_base_rate_total_probability.

(* the same on the real functions: the correction K cancels in b + ay u *)
Theorem bdeduce_total_probability : forall bx dx ux ax b0 d0 u0 b1 d1 u1 ay,
  bx + dx + ux = 1 ->
  bdedB bx dx ux ax b0 d0 u0 b1 d1 u1 ay + ay * bdedU bx dx ux ax b0 d0 u0 b1 d1 u1 ay =
  (bx + ax * ux) * (b0 + ay * u0) + (1 - (bx + ax * ux)) * (b1 + ay * u1).
Proof. exact bdeduce_total_probability_R. Qed.
Print Assumptions bdeduce_total_probability.

(* dogmatic antecedent (ux = 0): K = 0 and the result is the belief-weighted mixture *)
Theorem bdeduce_dogmatic_mixture : forall eps bx dx ax b0 d0 u0 b1 d1 u1 ay,
  0 <= eps <= 1/8 -> wf_bop bx dx 0 ax -> 0 < ax < 1 -> 0 < bx < 1 ->
  wf_cond b0 d0 u0 -> wf_cond b1 d1 u1 -> 0 < ay < 1 ->
  bdeduce (B:=FldR) eps (bopR bx dx 0 ax) (Some b0, Some d0, Some u0)
          (Some b1, Some d1, Some u1) (Some ay) =
  Some (bopR (bx * b0 + dx * b1) (bx * d0 + dx * d1) (bx * u0 + dx * u1) ay).
Proof. exact bdeduce_dogmatic. Qed.
Print Assumptions bdeduce_dogmatic_mixture.

(* exchanging x and not-x (antecedent negated: b <-> d, a -> 1 - a; conditionals swapped)
   leaves the result unchanged - full statement, ties b0 = b1, d0 = d1 and attained
   thresholds included *)
Theorem bdeduce_swap_x : forall eps bx dx ux ax b0 d0 u0 b1 d1 u1 ay,
  0 <= eps <= 1/8 -> wf_bop bx dx ux ax -> 0 < ax < 1 -> 0 < bx + ax * ux < 1 ->
  wf_cond b0 d0 u0 -> wf_cond b1 d1 u1 -> 0 < ay < 1 ->
  bdeduce (B:=FldR) eps (bopR dx bx ux (1 - ax)) (Some b1, Some d1, Some u1)
          (Some b0, Some d0, Some u0) (Some ay) =
  bdeduce (B:=FldR) eps (bopR bx dx ux ax) (Some b0, Some d0, Some u0)
          (Some b1, Some d1, Some u1) (Some ay).
Proof. exact bdeduce_swap_x_model. Qed.
Print Assumptions bdeduce_swap_x.

(* exchanging y and not-y (b <-> d in both conditionals, ay -> 1 - ay) negates the result:
   (b, d, u; ay) becomes (d, b, u; 1 - ay) - full statement, ties included *)
Theorem bdeduce_negate_y : forall eps bx dx ux ax b0 d0 u0 b1 d1 u1 ay,
  0 <= eps <= 1/8 -> wf_bop bx dx ux ax -> 0 < ax < 1 -> 0 < bx + ax * ux < 1 ->
  wf_cond b0 d0 u0 -> wf_cond b1 d1 u1 -> 0 < ay < 1 ->
  bdeduce (B:=FldR) eps (bopR bx dx ux ax) (Some d0, Some b0, Some u0)
          (Some d1, Some b1, Some u1) (Some (1 - ay)) =
  Some (bopR (bdedD bx dx ux ax b0 d0 u0 b1 d1 u1 ay) (bdedB bx dx ux ax b0 d0 u0 b1 d1 u1 ay)
             (bdedU bx dx ux ax b0 d0 u0 b1 d1 u1 ay) (1 - ay)).
Proof. exact bdeduce_negate_y_model. Qed.
Print Assumptions bdeduce_negate_y.

(* The pre-fix code (Case III splits A/B at the Case II threshold b1 + ay (1 - b1 - d0)):
   on an operand inside the domain of the property the belief mass is -135/1024, and the
   constructor rejects the result (the panic) for every admissible tolerance. *)
Theorem bdeduce_pinned_refuted :
  let bx := 1/16 in let dx := 6/16 in let ux := 9/16 in let ax := 1/4 in
  let b0 := 0 in let d0 := 10/16 in let u0 := 6/16 in
  let b1 := 0 in let d1 := 5/16 in let u1 := 11/16 in let ay := 3/4 in
  let K := bdeduceK_pinned bx dx ux ax b0 d0 u0 b1 d1 u1 ay in
  let b := mixR bx dx ux ax b0 b1 - ay * K in
  let d := mixR bx dx ux ax d0 d1 - (1 - ay) * K in
  let u := mixR bx dx ux ax u0 u1 + K in
  wf_bop bx dx ux ax /\ 0 < ax < 1 /\ 0 < bx + ax * ux < 1 /\
  wf_cond b0 d0 u0 /\ wf_cond b1 d1 u1 /\ 0 < ay < 1 /\
  b = - (135/1024) /\ b < 0 /\
  (forall eps, 0 <= eps <= 1/8 ->
     btry_new (B:=FldR) eps (Some b) (Some d) (Some u) (Some ay) = None).
Proof. exact bdeduce_pinned_negative. Qed.
Print Assumptions bdeduce_pinned_refuted.

(* the same through a copy of the model function that differs only in that threshold *)
Theorem bdeduce_pinned_refuted_model : forall eps, 0 <= eps <= 1/8 ->
  bdeduce_pinned (B:=FldR) eps (bopR (1/16) (6/16) (9/16) (1/4))
    (Some 0, Some (10/16), Some (6/16)) (Some 0, Some (5/16), Some (11/16)) (Some (3/4)) = None.
Proof. exact bdeduce_pinned_model_none. Qed.
Print Assumptions bdeduce_pinned_refuted_model.

(* non-vacuity: a Case II.B.1 operand inside the domain, with a non-zero correction K *)
Example c14_nonvacuous :
  wf_bop (1/4) (1/4) (1/2) (1/2) /\ 0 < 1/2 < 1 /\ 0 < 1/4 + 1/2 * (1/2) < 1 /\
  wf_cond (1/2) (1/4) (1/4) /\ wf_cond (1/4) (1/2) (1/4) /\ 0 < 1/4 < 1 /\
  bdeduceK (1/4) (1/4) (1/2) (1/2) (1/2) (1/4) (1/4) (1/4) (1/2) (1/4) (1/4) = 1/12.
Proof.
  assert (H1 : wf_bop (1/4) (1/4) (1/2) (1/2)) by (unfold wf_bop; lra).
  assert (H2 : wf_cond (1/2) (1/4) (1/4)) by (unfold wf_cond; lra).
  assert (H3 : wf_cond (1/4) (1/2) (1/4)) by (unfold wf_cond; lra).
  repeat split; try assumption; try lra.
  rewrite K_caseII_B; try assumption; try lra.
Qed.
