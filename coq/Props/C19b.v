(* C19, continued - the two rounding-level defects found by the thorough tier and repaired in /repo, exhibited in
   IEEE-754 binary64 arithmetic (Flocq's operations with round-to-nearest-even, evaluated by the kernel on the
   polymorphic model instantiated at Model/InstF.v), together with the repaired operators accepting the same operands.
   Statements only; definitions and proofs in Facts/FloatWitness.v.  The instance is used for these witnesses only
   (its caveats are listed in Model/InstF.v); every intermediate value of the accepting runs is checked finite. *)
From Coq Require Import ZArith List Bool.
Import ListNotations.
From SL Require Import Model.Num Model.Vec Model.Mul Model.Bi Model.Chk Model.InstF Facts.FloatWitness.

(* [bdeduce_untied] is the model function without the two tie guards and nothing else *)
Theorem bdeduce_untied_differs_only_at_ties : forall (B : Fld) (eps : F B) x b0 d0 u0 b1 d1 u1 ay,
  eqb d0 d1 = false -> eqb b0 b1 = false ->
  bdeduce_untied eps x (b0, d0, u0) (b1, d1, u1) ay = bdeduce eps x (b0, d0, u0) (b1, d1, u1) ay.
Proof. exact @bdeduce_untied_same. Qed.
Print Assumptions bdeduce_untied_differs_only_at_ties.

(* x = (1/4, 1/4, 1/2; a_x = 2^-20), y|x = (1/2, 0, 1/2), y|~x = (1/4, 0, 3/4), a_y = 1 - 2^-32: exactly representable,
   exactly well-formed, inside the open domain; Case II with tied disbelief, K = 0.  Without the guard the rounded
   threshold comparison selects branch II.A.2, whose quotient is 0/0: the operator rejects its own result.  With
   the guard the result is a finite opinion with the supplied base rate. *)
Theorem deduce_tie_defect_binary64 :
  wx = mkbop (z64 0x3fd0000000000000) (z64 0x3fd0000000000000) (z64 0x3fe0000000000000) (z64 0x3eb0000000000000) /\
  wc0 = (z64 0x3fe0000000000000, z64 0, z64 0x3fe0000000000000) /\
  wc1 = (z64 0x3fd0000000000000, z64 0, z64 0x3fe8000000000000) /\ way = z64 0x3fefffffffe00000 /\
  fails (bdeduce_untied (B:=FldB64) eps64 wx wc0 wc1 way) = true /\
  accepted64 (bdeduce (B:=FldB64) eps64 wx wc0 wc1 way) way = true.
Proof.
  split; [reflexivity|]. split; [reflexivity|]. split; [reflexivity|]. split; [reflexivity|].
  split; [exact deduce_tie_binary64_untied_fails | exact deduce_tie_binary64_accepts].
Qed.
Print Assumptions deduce_tie_defect_binary64.

(* two dogmatic float opinions on three states accepted by the constructors: without the clamp the smallest quotient
   (P - b0 b1)/a is a negative rounding residue beyond the tolerance and Product2 rejects its own result; with the
   clamp the product is a finite opinion with non-negative uncertainty *)
Theorem product_residue_defect_binary64 :
  (let '(b, u, a) := pw0 in Mul.check_simplex (B:=FldB64) eps64 b u && Mul.check_base_rate (B:=FldB64) eps64 a) = true /\
  (let '(b, u, a) := pw1 in Mul.check_simplex (B:=FldB64) eps64 b u && Mul.check_base_rate (B:=FldB64) eps64 a) = true /\
  fails (product2_unclamped (B:=FldB64) eps64 pw0 pw1) = true /\
  opinion_ok64 (product2 (B:=FldB64) eps64 pw0 pw1) = true.
Proof.
  destruct product2_binary64_operands_wf as [H0 H1].
  split; [exact H0|]. split; [exact H1|].
  split; [exact product2_binary64_unclamped_fails | exact product2_binary64_accepts].
Qed.
Print Assumptions product_residue_defect_binary64.

(* The two earlier repairs of cancelling denominators (F7: mul, F3: wfuse), exhibited the same way.  The copies
   [bmul_cancelling] / [bwfuse_cancelling] are the model functions with the pre-repair denominators and nothing else
   changed (Facts/FloatWitness.v). *)
Theorem mul_cancellation_defect_binary64 :
  mx = mkbop (z64 0x3fc0000000000000) (z64 0) (z64 0x3fec000000000000) (z64 0x3feffffffc000000) /\
  my = mkbop (z64 0x3fc0000000000000) (z64 0) (z64 0x3fec000000000000) (z64 0x3feffffffe000000) /\
  fails (bmul_cancelling (B:=FldB64) eps64 mx my) = true /\
  accepted64 (bmul (B:=FldB64) eps64 mx my) (mul (B:=FldB64) (ba mx) (ba my)) = true.
Proof.
  split; [reflexivity|]. split; [reflexivity|].
  split; [exact mul_binary64_cancelling_fails | exact mul_binary64_accepts].
Qed.
Print Assumptions mul_cancellation_defect_binary64.

Theorem wfuse_cancellation_defect_binary64 :
  accepted64 (btry_new (B:=FldB64) eps64 (bb fx) (bd fx) (bu fx) (ba fx)) (ba fx) = true /\
  accepted64 (btry_new (B:=FldB64) eps64 (bb fy) (bd fy) (bu fy) (ba fy)) (ba fy) = true /\
  fails (bwfuse_cancelling (B:=FldB64) eps64 fx fy fg) = true /\
  match bwfuse (B:=FldB64) eps64 fx fy fg with
  | Some r => fin64 (bb r) && fin64 (bd r) && fin64 (bu r) && fin64 (ba r)
  | None => false
  end = true.
Proof.
  destruct wfuse_binary64_operands_wf as [H0 H1].
  split; [exact H0|]. split; [exact H1|].
  split; [exact wfuse_binary64_cancelling_fails | exact wfuse_binary64_accepts].
Qed.
Print Assumptions wfuse_cancellation_defect_binary64.

(* F3, cumulative fusion: the pre-repair base rate quotient cancels for nearly vacuous operands *)
Theorem cfuse_cancellation_defect_binary64 :
  accepted64 (btry_new (B:=FldB64) eps64 (bb kx) (bd kx) (bu kx) (ba kx)) (ba kx) = true /\
  accepted64 (btry_new (B:=FldB64) eps64 (bb ky) (bd ky) (bu ky) (ba ky)) (ba ky) = true /\
  Num.is_one (B:=FldB64) eps64 (bu kx) || Num.is_one (B:=FldB64) eps64 (bu ky) = false /\
  fails (bcfuse_cancelling (B:=FldB64) eps64 kx ky) = true /\
  match bcfuse (B:=FldB64) eps64 kx ky with
  | Some r => fin64 (bb r) && fin64 (bd r) && fin64 (bu r) && fin64 (ba r)
  | None => false
  end = true.
Proof.
  destruct cfuse_binary64_operands_wf as (H0 & H1 & H2).
  split; [exact H0|]. split; [exact H1|]. split; [exact H2|].
  split; [exact cfuse_binary64_cancelling_fails | exact cfuse_binary64_accepts].
Qed.
Print Assumptions cfuse_cancellation_defect_binary64.
