(* C03 - Fusion operators compute the evidence combination they are defined as.
   Only statements, each closed by [exact]; proofs are in Facts/FusionLaws.v.

   The independent specification is the Dirichlet evidence reading of subjective logic: for a
   prior weight W > 0 (arbitrary) a non-dogmatic simplex (b, u) carries the evidence vector
       evR W b u = W b / u,            and back            opR W r = (r / (W + sum r), W / (W + sum r)).
   The model's fused simplex [compute_simplexR] (Facts/Fusion.v; the model returns exactly it,
   [compute_simplex_defined] / [fusion_defined] in Props/C02.v) is proved equal to the back-map of
   the sum / mean / confidence-weighted mean of the operands' evidence, for every domain size.

   Guards: the evidence theorems are stated with exact guards (eps = 0), where they cover every
   pair of non-dogmatic operands, vacuous ones included (evidence 0); the [_general_rung]
   versions hold for every tolerance 0 <= eps <= 1/8 when both uncertainties are strictly
   between the guards (the rungs that return an operand unchanged differ from the evidence
   formula by at most the guard width).  Limits and base-rate rules: as stated per theorem. *)
From Coq Require Import Reals List Lra.
Import ListNotations.
From SL Require Import Model.Num Model.Vec Model.Mul Model.InstR Facts.RBase Facts.Proj Facts.Fusion
  Facts.FusionLaws.
Open Scope R_scope.

(* ------------------------------------------------------------ the evidence map *)

(* evidence and back-map are mutually inverse between non-dogmatic simplexes and non-negative
   evidence vectors; the back-map always lands on a well-formed non-dogmatic simplex *)
Theorem evidence_roundtrip_simplex : forall W b u, 0 < W -> wf_simplex b u -> 0 < u ->
  opR W (evR W b u) = (b, u).
Proof. exact opR_evR. Qed.
Print Assumptions evidence_roundtrip_simplex.

Theorem evidence_roundtrip_evidence : forall W r, 0 < W -> nonneg r ->
  evR W (fst (opR W r)) (snd (opR W r)) = r.
Proof. exact evR_opR. Qed.
Print Assumptions evidence_roundtrip_evidence.

Theorem evidence_backmap_wf : forall W r, 0 < W -> nonneg r ->
  wf_simplex (fst (opR W r)) (snd (opR W r)) /\ 0 < snd (opR W r).
Proof. exact opR_wf. Qed.
Print Assumptions evidence_backmap_wf.

Theorem evidence_nonneg : forall W b u, 0 < W -> 0 < u -> nonneg b -> nonneg (evR W b u).
Proof. exact evR_nonneg. Qed.
Print Assumptions evidence_nonneg.

(* a vacuous opinion carries no evidence *)
Theorem evidence_of_vacuous : forall W b, wf_simplex b 1 -> evR W b 1 = map (fun _ => 0) b.
Proof. exact evR_vacuous. Qed.
Print Assumptions evidence_of_vacuous.

(* -------------------------------------------- the operators in evidence space *)

(* cumulative fusion (ACm, and the simplex ECm then maximises) adds the evidence *)
Theorem acm_is_evidence_sum : forall lb rb lu ru,
  wf_simplex lb lu -> wf_simplex rb ru -> length lb = length rb -> 0 < lu -> 0 < ru ->
  forall W, 0 < W -> forall op, cum_like op = true ->
  compute_simplex (B:=FldR) 0 op (map Some lb, Some lu) (map Some rb, Some ru)
  = (map Some (fst (opR W (map2 Rplus (evR W lb lu) (evR W rb ru)))),
     Some (snd (opR W (map2 Rplus (evR W lb lu) (evR W rb ru))))).
Proof. exact compute_simplex_acm_evidence. Qed.
Print Assumptions acm_is_evidence_sum.

(* averaging fusion takes the arithmetic mean of the evidence *)
Theorem avg_is_evidence_mean : forall lb rb lu ru,
  wf_simplex lb lu -> wf_simplex rb ru -> length lb = length rb -> 0 < lu -> 0 < ru ->
  forall W, 0 < W ->
  compute_simplex (B:=FldR) 0 Avg (map Some lb, Some lu) (map Some rb, Some ru)
  = (map Some (fst (opR W (map (fun z => z / 2) (map2 Rplus (evR W lb lu) (evR W rb ru))))),
     Some (snd (opR W (map (fun z => z / 2) (map2 Rplus (evR W lb lu) (evR W rb ru)))))).
Proof. exact compute_simplex_avg_evidence. Qed.
Print Assumptions avg_is_evidence_mean.

(* weighted fusion takes the mean of the evidence weighted by confidence 1 - u (operands not
   both vacuous: otherwise both weights are 0) *)
Theorem wgh_is_confidence_weighted_mean : forall lb rb lu ru,
  wf_simplex lb lu -> wf_simplex rb ru -> length lb = length rb -> 0 < lu -> 0 < ru ->
  forall W, 0 < W -> ~ (lu = 1 /\ ru = 1) ->
  compute_simplex (B:=FldR) 0 Wgh (map Some lb, Some lu) (map Some rb, Some ru)
  = (map Some (fst (opR W (map2 (fun r1 r2 => ((1 - lu) * r1 + (1 - ru) * r2) / ((1 - lu) + (1 - ru)))
                                (evR W lb lu) (evR W rb ru)))),
     Some (snd (opR W (map2 (fun r1 r2 => ((1 - lu) * r1 + (1 - ru) * r2) / ((1 - lu) + (1 - ru)))
                            (evR W lb lu) (evR W rb ru))))).
Proof. exact compute_simplex_wgh_evidence. Qed.
Print Assumptions wgh_is_confidence_weighted_mean.

(* the same three readings for every tolerance, in the general rung of each ladder *)
Theorem acm_is_evidence_sum_general_rung : forall eps W op lb lu rb ru,
  0 <= eps <= 1/8 -> 0 < W -> cum_like op = true ->
  wf_simplex lb lu -> wf_simplex rb ru -> length lb = length rb ->
  eps < lu < 1 - 2 * eps -> eps < ru < 1 - 2 * eps ->
  compute_simplexR eps op (lb, lu) (rb, ru) = opR W (map2 Rplus (evR W lb lu) (evR W rb ru)).
Proof. exact acm_is_evidence_sum_eps. Qed.
Print Assumptions acm_is_evidence_sum_general_rung.

Theorem avg_is_evidence_mean_general_rung : forall eps W lb lu rb ru,
  0 <= eps <= 1/8 -> 0 < W ->
  wf_simplex lb lu -> wf_simplex rb ru -> length lb = length rb -> eps < lu -> eps < ru ->
  compute_simplexR eps Avg (lb, lu) (rb, ru)
  = opR W (map (fun z => z / 2) (map2 Rplus (evR W lb lu) (evR W rb ru))).
Proof. exact avg_is_evidence_mean_eps. Qed.
Print Assumptions avg_is_evidence_mean_general_rung.

Theorem wgh_is_confidence_weighted_mean_general_rung : forall eps W lb lu rb ru,
  0 <= eps <= 1/8 -> 0 < W ->
  wf_simplex lb lu -> wf_simplex rb ru -> length lb = length rb ->
  eps < lu < 1 - 2 * eps -> eps < ru < 1 - 2 * eps ->
  compute_simplexR eps Wgh (lb, lu) (rb, ru)
  = opR W (map2 (fun r1 r2 => ((1 - lu) * r1 + (1 - ru) * r2) / ((1 - lu) + (1 - ru)))
                (evR W lb lu) (evR W rb ru)).
Proof. exact wgh_is_confidence_weighted_mean_eps. Qed.
Print Assumptions wgh_is_confidence_weighted_mean_general_rung.

(* ------------------------------------------------------------------------ ECm *)

(* in the model, for every number structure and all entries: epistemic fusion runs aleatory
   fusion and maximises the uncertainty of its simplex under the fused base rate *)
Theorem ecm_runs_acm_then_maximises : forall (B : Fld) (eps : F B) same lb lu la rb ru ra,
  let w := fuse eps ACm same (lb, lu, la) (rb, ru, ra) in
  let s := uncertainty_maximized eps (fst (fst w)) (snd (fst w)) (snd w) in
  fuse eps ECm same (lb, lu, la) (rb, ru, ra) = (bel s, unc s, snd w).
Proof. exact @fuse_ecm_is_maxu_of_acm. Qed.
Print Assumptions ecm_runs_acm_then_maximises.

(* on well-formed real operands, whenever the fused base rate has total mass exactly 1: the ECm
   simplex is [umaxR] (Facts/Proj.v, C09) of the ACm simplex; it has the same projected
   probabilities b + a u as the ACm result, at least its uncertainty, and the largest
   uncertainty the masses allow (u' a_i <= P_i for every a_i above the guard, with a zero mass
   somewhere unless u' = 1) *)
Theorem ecm_is_maxu_of_acm : forall eps, 0 <= eps <= 1/8 ->
  forall lb rb la ra lu ru,
  wf_opinion lb lu la -> wf_opinion rb ru ra -> length lb = length rb ->
  forall same, Rsum (fused_a eps ECm same (lb, lu, la) (rb, ru, ra)) = 1 ->
  let b := fused_b eps ACm same (lb, lu, la) (rb, ru, ra) in
  let u := fused_u eps ACm same (lb, lu, la) (rb, ru, ra) in
  let a := fused_a eps ACm same (lb, lu, la) (rb, ru, ra) in
  let b' := fused_b eps ECm same (lb, lu, la) (rb, ru, ra) in
  let u' := fused_u eps ECm same (lb, lu, la) (rb, ru, ra) in
  fused_a eps ECm same (lb, lu, la) (rb, ru, ra) = a /\
  (b', u') = umaxR eps b u a /\
  projR b' u' a = projR b u a /\
  (forall i, nth i b' 0 + nth i a 0 * u' = nth i b 0 + nth i a 0 * u) /\
  u <= u' <= 1 /\
  (forall i, eps < nth i a 0 -> u' * nth i a 0 <= nth i b 0 + nth i a 0 * u) /\
  (u' = 1 \/ exists i, eps < nth i a 0 /\ nth i b' 0 = 0).
Proof. exact FusionLaws.ecm_is_maxu_of_acm. Qed.
Print Assumptions ecm_is_maxu_of_acm.

(* the hypothesis on the fused base rate is automatic with exact guards and for operands that
   share their base rate (it is the first half of [ecm_side], Props/C02.v) *)
Theorem ecm_base_rate_mass_exact_guards : forall same lb lu la rb ru ra,
  wf_opinion lb lu la -> wf_opinion rb ru ra -> length lb = length rb ->
  Rsum (fused_a 0 ECm same (lb, lu, la) (rb, ru, ra)) = 1.
Proof. exact ecm_base_sum_exact. Qed.
Print Assumptions ecm_base_rate_mass_exact_guards.

Theorem ecm_base_rate_mass_shared : forall eps same lb lu la rb ru ra, 0 <= eps <= 1/8 ->
  wf_opinion lb lu la -> wf_opinion rb ru ra -> length lb = length rb -> la = ra ->
  Rsum (fused_a eps ECm same (lb, lu, la) (rb, ru, ra)) = 1.
Proof. exact ecm_base_sum_shared. Qed.
Print Assumptions ecm_base_rate_mass_shared.

(* --------------------------------------------------------------------- limits *)

(* ACm, Avg, Wgh: exactly one operand dogmatic (u <= eps; u = 0 at eps = 0): its belief masses
   and uncertainty are the result *)
Theorem one_dogmatic_wins : forall eps op same lb lu la rb ru ra,
  0 <= eps <= 1/8 -> 0 <= lu <= 1 -> 0 <= ru <= 1 -> op <> ECm ->
  (lu <= eps -> eps < ru ->
   fused_b eps op same (lb, lu, la) (rb, ru, ra) = lb /\ fused_u eps op same (lb, lu, la) (rb, ru, ra) = lu) /\
  (eps < lu -> ru <= eps ->
   fused_b eps op same (lb, lu, la) (rb, ru, ra) = rb /\ fused_u eps op same (lb, lu, la) (rb, ru, ra) = ru).
Proof. exact FusionLaws.one_dogmatic_wins. Qed.
Print Assumptions one_dogmatic_wins.

(* all four ladders: two dogmatic operands give the mean of the belief masses (renormalised by
   1 - (lu + ru)/2, i.e. not at all for exactly dogmatic operands) and u = 0 *)
Theorem two_dogmatic_mean : forall eps op lb lu rb ru,
  0 <= eps <= 1/8 -> wf_simplex lb lu -> wf_simplex rb ru -> length lb = length rb ->
  lu <= eps -> ru <= eps ->
  compute_simplexR eps op (lb, lu) (rb, ru) = normalizedR (map2 (fun x y => (x + y) / 2) lb rb) 0 /\
  snd (compute_simplexR eps op (lb, lu) (rb, ru)) = 0 /\
  (lu = 0 -> ru = 0 ->
   compute_simplexR eps op (lb, lu) (rb, ru) = (map2 (fun x y => (x + y) / 2) lb rb, 0)).
Proof. exact FusionLaws.two_dogmatic_mean. Qed.
Print Assumptions two_dogmatic_mean.

(* two vacuous operands give the vacuous simplex: ACm, ECm, Wgh for operands vacuous up to the
   guard, all four for exactly vacuous operands *)
Theorem two_vacuous_vacuous : forall eps op lb lu rb ru,
  0 <= eps <= 1/8 -> wf_simplex lb lu -> wf_simplex rb ru -> length lb = length rb ->
  (op <> Avg -> 1 - 2 * eps <= lu -> 1 - 2 * eps <= ru ->
   compute_simplexR eps op (lb, lu) (rb, ru) = (map (fun _ => 0) lb, 1)) /\
  (lu = 1 -> ru = 1 -> compute_simplexR eps op (lb, lu) (rb, ru) = (map (fun _ => 0) lb, 1)).
Proof. exact FusionLaws.two_vacuous_vacuous. Qed.
Print Assumptions two_vacuous_vacuous.

(* ------------------------------------------------------------ base-rate rules *)
(* exact guards; for a positive tolerance every rule holds up to the [aeq] shortcut, see
   [fusion_base_rate_is_convex_mix] in Props/C02.v and the weights [base_w_*] of Fusion.v *)

(* cumulative fusion: entry-wise mean with weights ru (1 - lu) : lu (1 - ru), whenever they
   are not both zero (i.e. unless both operands are dogmatic or both vacuous) *)
Theorem acm_base_rate_confidence_weighted : forall op lu la ru ra, cum_like op = true ->
  0 <= lu <= 1 -> 0 <= ru <= 1 -> length la = length ra ->
  ru * (1 - lu) + lu * (1 - ru) <> 0 ->
  compute_base_rateR 0 op false lu la ru ra =
  map2 (fun x y => (x * (ru * (1 - lu)) + y * (lu * (1 - ru))) / (ru * (1 - lu) + lu * (1 - ru))) la ra.
Proof. exact FusionLaws.acm_base_rate_confidence_weighted. Qed.
Print Assumptions acm_base_rate_confidence_weighted.

(* weighted fusion: weights (1 - lu) : (1 - ru), unless both operands are vacuous *)
Theorem wgh_base_rate_confidence_weighted : forall lu la ru ra,
  0 <= lu <= 1 -> 0 <= ru <= 1 -> length la = length ra -> ~ (lu = 1 /\ ru = 1) ->
  compute_base_rateR 0 Wgh false lu la ru ra =
  map2 (fun x y => (x * (1 - lu) + y * (1 - ru)) / ((1 - lu) + (1 - ru))) la ra.
Proof. exact FusionLaws.wgh_base_rate_confidence_weighted. Qed.
Print Assumptions wgh_base_rate_confidence_weighted.

(* averaging fusion: the arithmetic mean, always *)
Theorem avg_base_rate_mean : forall lu la ru ra,
  0 <= lu <= 1 -> 0 <= ru <= 1 -> length la = length ra ->
  compute_base_rateR 0 Avg false lu la ru ra = map2 (fun x y => (x + y) / 2) la ra.
Proof. exact FusionLaws.avg_base_rate_mean. Qed.
Print Assumptions avg_base_rate_mean.

(* two dogmatic operands (every tolerance) and two vacuous operands: the arithmetic mean, for
   all four operators *)
Theorem two_dogmatic_base_rate_mean : forall eps op lu la ru ra,
  0 <= eps <= 1/8 -> 0 <= lu <= 1 -> 0 <= ru <= 1 -> lu <= eps -> ru <= eps ->
  compute_base_rateR eps op false lu la ru ra = map2 (fun x y => (x + y) / 2) la ra.
Proof. exact FusionLaws.two_dogmatic_base_rate_mean. Qed.
Print Assumptions two_dogmatic_base_rate_mean.

Theorem two_vacuous_base_rate_mean : forall op la ra,
  compute_base_rateR 0 op false 1 la 1 ra = map2 (fun x y => (x + y) / 2) la ra.
Proof. exact FusionLaws.two_vacuous_base_rate_mean. Qed.
Print Assumptions two_vacuous_base_rate_mean.

(* ---------------------------------------------------------------- non-vacuity *)
(* two non-dogmatic opinions over three states: evidence (W = 2) of the first is (4, 2, 0), and
   their cumulative fusion is ((6/13, 7/26, 1/26), 3/13) *)
Example c03_nonvacuous :
  wf_opinion [1/2; 1/4; 0] (1/4) [1/2; 1/4; 1/4] /\
  wf_opinion [0; 1/8; 1/8] (3/4) [1/2; 1/4; 1/4] /\
  0 < 1/4 /\ 0 < 3/4 /\ ~ (1/4 = 1 /\ 3/4 = 1) /\
  evR 2 [1/2; 1/4; 0] (1/4) = [4; 2; 0] /\
  compute_simplexR 0 ACm ([1/2; 1/4; 0], 1/4) ([0; 1/8; 1/8], 3/4) = ([6/13; 7/26; 1/26], 3/13).
Proof.
  destruct laws_example as (H1 & H2 & _ & _ & _ & H6 & H7).
  split; [exact H1|]. split; [exact H2|]. split; [lra|]. split; [lra|].
  split; [intros (E & _); lra|]. split; [exact H6|exact H7].
Qed.
