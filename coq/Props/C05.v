(* C05 - Inverted conditionals obey Bayes' theorem and abduction deduces through them.
   Only statements, each closed by [exact]; proofs are in Facts/Inverse.v.

   Operands: [cs] = the |X| >= 1 conditionals X -> Y as real simplexes (b_x, u_x), each over
   |Y| = length ay values ([wf_conds]); [ax] a strictly positive distribution on X ([pos_dist]);
   [ay] a distribution on Y ([wf_dist]).  They enter the model as [map embS cs], [map Some ax],
   [map Some ay].  P(y|x) = [PyxR cs ay x y] = b_x[y] + ay[y] u_x ([likelihood_entry]).
   The model's result is the explicit real table [inverseR eps cs ax ay]; its y-th simplex is
   ([inv_b .. y], [inv_u .. y]).

   Side condition [guard_clear eps ay]: every ay[y] is exactly 0 or > eps.  It is void at eps = 0
   and is needed for well-formedness when eps > 0 ([inverse_wf_refuted_small_ay]): the code tests
   ay[y] for zero tolerantly in max_uncertainty but divides by it unguarded in max_u_yx. *)
From Coq Require Import QArith Reals List Lra.
Import ListNotations.
From SL Require Import Model.Num Model.Vec Model.Mul Model.InstR Model.InstQ Facts.RBase Facts.Inverse.
Open Scope R_scope.

(* Definedness and well-formedness: no NaN / division by zero anywhere; the result is the table
   [inverseR], which has |Y| rows, each a well-formed simplex over X. *)
Theorem inverse_defined_wf : forall eps cs ax ay, 0 <= eps <= 1/8 ->
  wf_conds cs (length ay) -> pos_dist ax -> length ax = length cs -> wf_dist ay -> guard_clear eps ay ->
  inverse (B:=FldR) eps (map embS cs) (map Some ax) (map Some ay) = map embS (inverseR eps cs ax ay) /\
  length (inverseR eps cs ax ay) = length ay /\
  Forall (fun s => wf_simplex (fst s) (snd s) /\ length (fst s) = length ax) (inverseR eps cs ax ay).
Proof. exact c05_inverse_defined_wf. Qed.
Print Assumptions inverse_defined_wf.

(* Without the side condition on ay: still defined, every row sums to one. *)
Theorem inverse_defined : forall eps cs ax ay, 0 <= eps <= 1/8 ->
  wf_conds cs (length ay) -> pos_dist ax -> length ax = length cs -> wf_dist ay ->
  inverse (B:=FldR) eps (map embS cs) (map Some ax) (map Some ay) = map embS (inverseR eps cs ax ay) /\
  length (inverseR eps cs ax ay) = length ay /\
  Forall (fun s => Rsum (fst s) + snd s = 1 /\ length (fst s) = length ax) (inverseR eps cs ax ay).
Proof. exact c05_inverse_defined. Qed.
Print Assumptions inverse_defined.

(* With exact guards (eps = 0) well-formedness needs no side condition. *)
Theorem inverse_defined_wf_exact_guards : forall cs ax ay,
  wf_conds cs (length ay) -> pos_dist ax -> length ax = length cs -> wf_dist ay ->
  inverse (B:=FldR) 0 (map embS cs) (map Some ax) (map Some ay) = map embS (inverseR 0 cs ax ay) /\
  length (inverseR 0 cs ax ay) = length ay /\
  Forall (fun s => wf_simplex (fst s) (snd s) /\ length (fst s) = length ax) (inverseR 0 cs ax ay).
Proof. exact inverse_defined_wf_exact. Qed.
Print Assumptions inverse_defined_wf_exact_guards.

(* the likelihoods and the normaliser, written out *)
Theorem likelihood_entry : forall cs ay x y,
  wf_conds cs (length ay) -> (x < length cs)%nat -> (y < length ay)%nat ->
  PyxR cs ay x y = nth y (fst (nth x cs ([], 0))) 0 + nth y ay 0 * snd (nth x cs ([], 0)).
Proof. exact lik_entry. Qed.
Print Assumptions likelihood_entry.

Theorem normaliser_is_sum : forall cs ax ay y, length ax = length cs ->
  qy cs ax ay y = Rsum (map (fun x => nth x ax 0 * PyxR cs ay x y) (seq 0 (length ax))).
Proof. exact qy_sum. Qed.
Print Assumptions normaliser_is_sum.

(* Bayes' theorem: for every y whose likelihood column is not all zero (up to the crate's
   tolerance), the projection of the inverted conditional under ax is
   ax_x P(y|x) / sum_x' ax_x' P(y|x'), and the denominator is positive. *)
Theorem inverse_bayes : forall eps cs ax ay, 0 <= eps <= 1/8 ->
  wf_conds cs (length ay) -> pos_dist ax -> length ax = length cs -> wf_dist ay ->
  forall x y, (x < length ax)%nat -> (y < length ay)%nat ->
  col_negligible eps cs ay y = false ->
  0 < qy cs ax ay y /\
  nth x (inv_b eps cs ax ay y) 0 + nth x ax 0 * inv_u eps cs ax ay y
  = nth x ax 0 * PyxR cs ay x y / qy cs ax ay y.
Proof. exact c05_inverse_bayes. Qed.
Print Assumptions inverse_bayes.

(* a sufficient reading of "column not all zero" *)
Theorem column_not_negligible : forall eps cs ay y,
  (exists x, (x < length cs)%nat /\ eps < PyxR cs ay x y) -> col_negligible eps cs ay y = false.
Proof. exact col_negligible_false. Qed.
Print Assumptions column_not_negligible.

(* Uncertainty: u_y = uhat_y (w + Psi_y - w Psi_y) with relative uncertainty 0 <= w <= 1 and
   irrelevance 0 <= Psi_y <= 1, hence 0 <= u_y <= uhat_y, where uhat_y = min_x P(y|x)/q_y
   (= min_x P(x|y)/ax_x) is the largest uncertainty compatible with the Bayes projection. *)
Theorem inverse_u_bound : forall eps cs ax ay, 0 <= eps <= 1/8 ->
  wf_conds cs (length ay) -> pos_dist ax -> length ax = length cs -> wf_dist ay ->
  forall y, guard_clear eps ay -> (y < length ay)%nat ->
  0 <= relw eps cs ay <= 1 /\ 0 <= Psi cs ay y <= 1 /\
  (col_negligible eps cs ay y = false ->
     inv_u eps cs ax ay y
       = uhat cs ax ay y * (relw eps cs ay + Psi cs ay y - relw eps cs ay * Psi cs ay y) /\
     0 <= inv_u eps cs ax ay y <= uhat cs ax ay y /\
     forall x, (x < length ax)%nat -> uhat cs ax ay y <= PyxR cs ay x y / qy cs ax ay y).
Proof. exact c05_inverse_u_bound. Qed.
Print Assumptions inverse_u_bound.

(* An outcome equally likely (and not negligible) under every x inverts to the vacuous opinion:
   Psi_y = 1, all beliefs 0, uncertainty 1. *)
Theorem inverse_irrelevant_vacuous : forall eps cs ax ay, 0 <= eps <= 1/8 ->
  wf_conds cs (length ay) -> pos_dist ax -> length ax = length cs -> wf_dist ay ->
  forall y c, (y < length ay)%nat -> eps < c ->
  (forall x, (x < length cs)%nat -> PyxR cs ay x y = c) ->
  inv_b eps cs ax ay y = map (fun _ => 0) ax /\ inv_u eps cs ax ay y = 1 /\ Psi cs ay y = 1.
Proof. exact c05_inverse_irrelevant_vacuous. Qed.
Print Assumptions inverse_irrelevant_vacuous.

(* An outcome impossible under every x (all-zero column) inverts to the vacuous opinion. *)
Theorem inverse_zero_column_vacuous : forall eps cs ax ay, 0 <= eps <= 1/8 ->
  wf_conds cs (length ay) -> pos_dist ax -> length ax = length cs -> wf_dist ay ->
  forall y, (y < length ay)%nat ->
  (forall x, (x < length cs)%nat -> PyxR cs ay x y = 0) ->
  inv_b eps cs ax ay y = map (fun _ => 0) ax /\ inv_u eps cs ax ay y = 1.
Proof. exact c05_inverse_zero_column_vacuous. Qed.
Print Assumptions inverse_zero_column_vacuous.

(* Without guard slack (each P(y|x) is 0 or > eps) the tolerant all-zero test fires only on
   genuinely zero columns, so every column is covered by [inverse_bayes] or by the vacuous case. *)
Theorem inverse_negligible_column_vacuous : forall eps cs ax ay, 0 <= eps <= 1/8 ->
  wf_conds cs (length ay) -> pos_dist ax -> length ax = length cs -> wf_dist ay ->
  forall y, (y < length ay)%nat ->
  (forall x, (x < length cs)%nat -> PyxR cs ay x y = 0 \/ eps < PyxR cs ay x y) ->
  col_negligible eps cs ay y = true ->
  inv_b eps cs ax ay y = map (fun _ => 0) ax /\ inv_u eps cs ax ay y = 1.
Proof. exact c05_inverse_negligible_column_vacuous. Qed.
Print Assumptions inverse_negligible_column_vacuous.

(* In general a column that is zero only up to the tolerance gives b = (1 - u) ax with
   1 - eps <= u <= 1: within eps of vacuous. *)
Theorem inverse_tolerant_column_close : forall eps cs ax ay, 0 <= eps <= 1/8 ->
  wf_conds cs (length ay) -> pos_dist ax -> length ax = length cs -> wf_dist ay ->
  forall y, guard_clear eps ay -> (y < length ay)%nat ->
  col_negligible eps cs ay y = true ->
  inv_b eps cs ax ay y = map (fun a => a * (1 - inv_u eps cs ax ay y)) ax /\
  1 - eps <= inv_u eps cs ax ay y <= 1.
Proof. exact c05_inverse_tolerant_column_close. Qed.
Print Assumptions inverse_tolerant_column_close.

(* The side condition [guard_clear] cannot be dropped when eps > 0: on the rational instance of
   the model, eps = 1/16 and ay = (1/32, 31/32) give negative beliefs and uncertainty > 1. *)
Theorem inverse_wf_refuted_small_ay :
  exists (eps : Q) (conds : list (@simplex FldQ)) (ax ay : list (@V FldQ)) (b0 b1 u : Q) rest,
    (0 <= eps)%Q /\ (eps <= 1#8)%Q /\
    conds = [([Some (1#64)%Q; Some (63#64)%Q], Some 0%Q); ([Some (1#128)%Q; Some (127#128)%Q], Some 0%Q)] /\
    ax = [Some (1#2)%Q; Some (1#2)%Q] /\ ay = [Some (1#32)%Q; Some (31#32)%Q] /\
    @inverse FldQ eps conds ax ay = ([Some b0; Some b1], Some u) :: rest /\
    (b0 < 0)%Q /\ (1 < u)%Q.
Proof. exact inverse_wf_refuted_small_ay_Q. Qed.
Print Assumptions inverse_wf_refuted_small_ay.

(* Abduction returns nothing exactly when the marginal base rate is undefined ... *)
Theorem abduce_none_iff : forall eps (wy : simplex (B:=FldR)) conds ax ny,
  abduce (B:=FldR) eps wy conds ax ny = None <-> mbr (B:=FldR) eps ny ax conds = None.
Proof. exact abduce_none_iff_mbr. Qed.
Print Assumptions abduce_none_iff.

(* ... and otherwise is abduce_with under the marginal base rate. *)
Theorem abduce_some : forall eps (wy : simplex (B:=FldR)) conds ax ny ay,
  mbr (B:=FldR) eps ny ax conds = Some ay ->
  abduce (B:=FldR) eps wy conds ax ny = Some (abduce_with eps wy conds ax ay).
Proof. exact abduce_some_mbr. Qed.
Print Assumptions abduce_some.

(* abduce_with is the deduction of (wy, ay) through the inverted conditionals with base rate ax *)
Theorem abduce_is_deduce_through_inverse : forall eps (wy : simplex (B:=FldR)) conds ax ay,
  abduce_with (B:=FldR) eps wy conds ax ay
  = deduce_of (B:=FldR) (bel wy, unc wy, ay) (inverse eps conds ax ay) ax.
Proof. exact abduce_with_is_deduce. Qed.
Print Assumptions abduce_is_deduce_through_inverse.

(* the result carries the supplied base rate *)
Theorem abduce_carries_base_rate : forall eps (wy : simplex (B:=FldR)) conds ax ay,
  snd (abduce_with (B:=FldR) eps wy conds ax ay) = ax.
Proof. exact abduce_with_base_rate. Qed.
Print Assumptions abduce_carries_base_rate.

(* Full statement of the abduction part of C05:
     abduce_with on a wf opinion on Y returns a wf opinion on X whose projection is
     sum_y P(y) P(x|y), with P(x|y) the Bayes projection above.
   Proved here (partial): abduce_with equals deduce_of through the table [inverseR], all of whose
   rows are well-formed simplexes over X ([inverse_defined_wf]) with the Bayes projections
   ([inverse_bayes]).  Missing: the application of the deduction theorem of C04
   (Facts/Deduce.v: deduce_of over well-formed conditionals is well-formed and projects to
   sum_y P(y) P(x|y)) to these conditionals; it is developed independently of this file. *)
Theorem abduce_spec_partial : forall eps cs ax ay by_ uy, 0 <= eps ->
  wf_conds cs (length ay) -> pos_dist ax -> length ax = length cs -> wf_dist ay ->
  abduce_with (B:=FldR) eps (map Some by_, Some uy) (map embS cs) (map Some ax) (map Some ay)
  = deduce_of (B:=FldR) (map Some by_, Some uy, map Some ay) (map embS (inverseR eps cs ax ay)) (map Some ax).
Proof. exact abduce_with_through_inverseR. Qed.
Print Assumptions abduce_spec_partial.

(* non-vacuity: the hypotheses are met by a concrete, non-trivial operand (|X| = |Y| = 2,
   uncertain conditionals, a non-negligible column) *)
Example c05_nonvacuous :
  let cs := [([1/4; 1/4], 1/2); ([1/2; 0], 1/2)] in
  let ax := [1/4; 3/4] in let ay := [1/2; 1/2] in
  0 <= 1/1024 <= 1/8 /\ wf_conds cs (length ay) /\ pos_dist ax /\ length ax = length cs /\
  wf_dist ay /\ guard_clear (1/1024) ay /\
  (exists x, (x < length cs)%nat /\ 1/1024 < PyxR cs ay x 0).
Proof.
  cbv zeta. split; [lra|]. split.
  { unfold wf_conds, wf_simplex, nonneg. repeat constructor; cbn [fst snd Rsum]; lra. }
  split. { unfold pos_dist. split; [repeat constructor; lra|cbn; lra]. }
  split. { reflexivity. }
  split. { unfold wf_dist, nonneg. split; [repeat constructor; lra|cbn; lra]. }
  split. { unfold guard_clear. constructor; [right; lra|constructor; [right; lra|constructor]]. }
  exists 0%nat. split; [cbn; repeat constructor|]. unfold PyxR, likR, projR. cbn. lra.
Qed.
