(* C16 (model-level part) - Results do not depend on how operands are stored or passed.
   Only statements, each closed by [exact]; proofs are in Facts/FusionLaws.v.

   The hand model has no trait dispatch, containers or borrows, so what can be proved here is
   how the overloads of Fuse / FuseAssign that the model does contain forward to each other:
   [fuse_simplex_rhs] (OpinionRef x &Simplex), [fuse_simplexes] (&Simplex x &Simplex, ECm panics)
   and the in-place form.  The first four theorems hold in EVERY instance [B] of the number
   structure and for arbitrary entries (also undefined ones): they are facts about forwarding,
   not about arithmetic.  The remaining ones give the defined results on well-formed real
   operands.  Everything else in C16 (container families, index types, owned/borrowed
   conditionals, f32 vs f64) is decided by the differential correspondence check. *)
From Coq Require Import Reals List Lra.
Import ListNotations.
From SL Require Import Model.Num Model.Vec Model.Mul Model.InstR Facts.RBase Facts.Fusion Facts.FusionLaws.
Open Scope R_scope.

(* fusing an opinion with a bare simplex is fusing it with the opinion that carries the
   right simplex and the LEFT base rate (with the pointer-equality shortcut on: the base rate
   object is literally the left one); all four operators *)
Theorem fuse_simplex_rhs_spec : forall (B : Fld) (eps : F B) op lb lu la (r : simplex (B:=B)),
  fuse_simplex_rhs eps op (lb, lu, la) r = fuse eps op true (lb, lu, la) (bel r, unc r, la).
Proof. exact @fuse_simplex_rhs_eq. Qed.
Print Assumptions fuse_simplex_rhs_spec.

(* ... and the result carries the left base rate unchanged *)
Theorem fuse_simplex_rhs_keeps_base_rate : forall (B : Fld) (eps : F B) op lb lu la (r : simplex (B:=B)),
  snd (fuse_simplex_rhs eps op (lb, lu, la) r) = la.
Proof. exact @fuse_simplex_rhs_base. Qed.
Print Assumptions fuse_simplex_rhs_keeps_base_rate.

(* simplex-with-simplex fusion is the belief part (b, u) of opinion fusion, whatever base
   rates the opinions carry and whatever the [same] flag is; ACm, Avg, Wgh *)
Theorem simplex_fusion_is_belief_part : forall (B : Fld) (eps : F B) op same lb lu la rb ru ra,
  op <> ECm ->
  fuse_simplexes eps op (lb, lu) (rb, ru) =
  Some (fst (fst (fuse eps op same (lb, lu, la) (rb, ru, ra))),
        snd (fst (fuse eps op same (lb, lu, la) (rb, ru, ra)))).
Proof. exact @fuse_simplexes_belief_part. Qed.
Print Assumptions simplex_fusion_is_belief_part.

(* epistemic fusion of two bare simplexes is refused (the Rust code panics: error value) *)
Theorem ecm_on_simplexes_refused : forall (B : Fld) (eps : F B) (l r : simplex (B:=B)),
  fuse_simplexes eps ECm l r = None.
Proof. exact @fuse_simplexes_ecm. Qed.
Print Assumptions ecm_on_simplexes_refused.

(* FuseAssign is "*lhs = self.fuse(lhs.as_ref(), rhs)": [fuse_assign] (Facts/FusionLaws.v) is
   that line, so the in-place form and every in-place fold are the value form by definition *)
Theorem fuse_assign_is_fuse : forall (B : Fld) (eps : F B) op same ws (w0 : opinion (B:=B)),
  fuse_assign eps op same = fuse eps op same /\
  fold_left (fuse_assign eps op same) ws w0 = fold_left (fuse eps op same) ws w0.
Proof. intros B eps op same ws w0. exact (conj eq_refl eq_refl). Qed.
Print Assumptions fuse_assign_is_fuse.

(* on well-formed real operands of any size the two simplex overloads are defined, with the
   explicit results [fused_b], [fused_u] of Facts/Fusion.v *)
Theorem fuse_simplex_rhs_defined : forall eps, 0 <= eps <= 1/8 ->
  forall lb rb la lu ru, wf_opinion lb lu la -> wf_simplex rb ru -> length lb = length rb ->
  forall op,
  fuse_simplex_rhs (B:=FldR) eps op (map Some lb, Some lu, map Some la) (map Some rb, Some ru)
  = (map Some (fused_b eps op true (lb, lu, la) (rb, ru, la)),
     Some (fused_u eps op true (lb, lu, la) (rb, ru, la)),
     map Some la).
Proof. exact FusionLaws.fuse_simplex_rhs_defined. Qed.
Print Assumptions fuse_simplex_rhs_defined.

Theorem fuse_simplexes_defined : forall eps, 0 <= eps <= 1/8 ->
  forall lb rb la ra lu ru, wf_opinion lb lu la -> wf_simplex rb ru -> length lb = length rb ->
  forall op, op <> ECm ->
  fuse_simplexes (B:=FldR) eps op (map Some lb, Some lu) (map Some rb, Some ru)
  = Some (map Some (fused_b eps op false (lb, lu, la) (rb, ru, ra)),
          Some (fused_u eps op false (lb, lu, la) (rb, ru, ra))).
Proof. exact FusionLaws.fuse_simplexes_defined. Qed.
Print Assumptions fuse_simplexes_defined.

(* the pointer-equality shortcut cannot change a result: when the two base rates are equal as
   values, both values of [same] give the same opinion; all four operators, every tolerance *)
Theorem same_flag_irrelevant : forall eps op same same' lb lu la rb ru ra,
  0 <= eps <= 1/8 -> 0 <= lu <= 1 -> 0 <= ru <= 1 -> la = ra ->
  fuseR eps op same (lb, lu, la) (rb, ru, ra) = fuseR eps op same' (lb, lu, la) (rb, ru, ra).
Proof. exact fuseR_same_irrelevant. Qed.
Print Assumptions same_flag_irrelevant.

(* non-vacuity: a concrete opinion and simplex over three states meeting the hypotheses *)
Example c16_nonvacuous :
  wf_opinion [1/2; 1/4; 0] (1/4) [1/2; 1/4; 1/4] /\ wf_simplex [0; 1/8; 1/8] (3/4) /\
  length [1/2; 1/4; 0] = length [0; 1/8; 1/8] /\ ACm <> ECm.
Proof.
  destruct laws_example as (H1 & (H2 & _) & _).
  split; [exact H1|]. split; [exact H2|]. split; [reflexivity|discriminate].
Qed.
