(* C19 - Self-validating operators never reject a correctly rounded result.
   Model-level content: on well-formed operands inside the documented domain the EXACT result of
   every self-validating operator is itself well-formed, so the operator's own validation accepts it
   for every guard tolerance 0 <= eps <= 1/8: every failure of the implementation there is
   illegitimate, with one exception, cumulative fusion of two dogmatic opinions, which is undefined.
   Statements only; proofs in Facts/SelfCheck.v (corollaries of the C06/C10/C12/C13/C14 theorems). *)
From Coq Require Import Reals List Lra.
Import ListNotations.
From Coq Require Import QArith Qreduction.
From SL Require Import Model.InstQ.
From SL Require Import Model.Num Model.Vec Model.Mul Model.Bi Model.InstR Facts.RBase Facts.Discount
     Facts.BiDeduce Facts.SelfCheck.
Open Scope R_scope.

Theorem mul_never_fails : forall eps, 0 <= eps <= 1/8 -> forall bx dx ux ax by_ dy uy ay,
  wf_bop bx dx ux ax -> wf_bop by_ dy uy ay -> ax * ay <> 1 ->
  exists b d u a, bmul (B:=FldR) eps (bopR bx dx ux ax) (bopR by_ dy uy ay) = Some (bopR b d u a)
                  /\ wf_bop b d u a.
Proof. exact SelfCheck.mul_never_fails. Qed.
Print Assumptions mul_never_fails.

Theorem comul_never_fails : forall eps, 0 <= eps <= 1/8 -> forall bx dx ux ax by_ dy uy ay,
  wf_bop bx dx ux ax -> wf_bop by_ dy uy ay -> ax + ay - ax * ay <> 0 ->
  exists b d u a, bcomul (B:=FldR) eps (bopR bx dx ux ax) (bopR by_ dy uy ay) = Some (bopR b d u a)
                  /\ wf_bop b d u a.
Proof. exact SelfCheck.comul_never_fails. Qed.
Print Assumptions comul_never_fails.

(* the one legitimate failure: the exact result is undefined *)
Theorem cfuse_fails_only_when_undefined : forall eps, 0 <= eps <= 1/8 -> forall b1 d1 u1 a1 b2 d2 u2 a2,
  wf_bop b1 d1 u1 a1 -> wf_bop b2 d2 u2 a2 ->
  (bcfuse (B:=FldR) eps (bopR b1 d1 u1 a1) (bopR b2 d2 u2 a2) = None <-> u1 = 0 /\ u2 = 0).
Proof. exact SelfCheck.cfuse_fails_only_when_undefined. Qed.
Print Assumptions cfuse_fails_only_when_undefined.

Theorem cfuse_result_wf : forall eps, 0 <= eps <= 1/8 -> forall b1 d1 u1 a1 b2 d2 u2 a2,
  wf_bop b1 d1 u1 a1 -> wf_bop b2 d2 u2 a2 -> ~ (u1 = 0 /\ u2 = 0) ->
  exists b d u a, bcfuse (B:=FldR) eps (bopR b1 d1 u1 a1) (bopR b2 d2 u2 a2) = Some (bopR b d u a)
                  /\ wf_bop b d u a.
Proof. exact SelfCheck.cfuse_result_wf. Qed.
Print Assumptions cfuse_result_wf.

Theorem afuse_never_fails : forall eps, 0 <= eps <= 1/8 -> forall b1 d1 u1 a1 b2 d2 u2 a2 g,
  wf_bop b1 d1 u1 a1 -> wf_bop b2 d2 u2 a2 -> 0 <= g <= 1 ->
  bafuse (B:=FldR) eps (bopR b1 d1 u1 a1) (bopR b2 d2 u2 a2) (Some g) <> None.
Proof. exact SelfCheck.afuse_never_fails. Qed.
Print Assumptions afuse_never_fails.

Theorem wfuse_never_fails : forall eps, 0 <= eps <= 1/8 -> forall b1 d1 u1 a1 b2 d2 u2 a2 g,
  wf_bop b1 d1 u1 a1 -> wf_bop b2 d2 u2 a2 -> 0 <= g <= 1 ->
  bwfuse (B:=FldR) eps (bopR b1 d1 u1 a1) (bopR b2 d2 u2 a2) (Some g) <> None.
Proof. exact SelfCheck.wfuse_never_fails. Qed.
Print Assumptions wfuse_never_fails.

Theorem deduce_never_fails : forall eps, 0 <= eps <= 1/8 -> forall bx dx ux ax b0 d0 u0 b1 d1 u1 ay,
  wf_bop bx dx ux ax -> 0 < ax < 1 -> 0 < bx + ax * ux < 1 ->
  wf_cond b0 d0 u0 -> wf_cond b1 d1 u1 -> 0 < ay < 1 ->
  exists b d u, bdeduce (B:=FldR) eps (bopR bx dx ux ax) (Some b0, Some d0, Some u0)
                        (Some b1, Some d1, Some u1) (Some ay) = Some (bopR b d u ay)
                /\ wf_bop b d u ay.
Proof. exact SelfCheck.deduce_never_fails. Qed.
Print Assumptions deduce_never_fails.

(* Ties (repair "deduce takes K = 0 when the conditionals tie in the bounding component"): in Case I, and in Cases
   II / III when d(y|x) = d(y|~x) resp. b(y|x) = b(y|~x), the operator evaluates neither the A/B threshold nor any
   quotient.  Stated for EVERY arithmetic B (no law of its comparisons is used), so it covers floating point, where
   the rounded threshold comparison used to select the branch whose quotient is 0/0 and the result was rejected. *)
Theorem deduce_ties_take_no_quotient : forall (B : Fld) (eps : F B) x b0 d0 u0 b1 d1 u1 ay,
  gtb b0 b1 = gtb d0 d1 \/ (gtb b0 b1 = true /\ eqb d0 d1 = true) \/ (gtb d0 d1 = true /\ eqb b0 b1 = true) ->
  bdeduce eps x (b0, d0, u0) (b1, d1, u1) ay = bdeduce_k0 eps x (b0, d0, u0) (b1, d1, u1) ay.
Proof. exact @bdeduce_tie. Qed.
Print Assumptions deduce_ties_take_no_quotient.

Theorem discounts_never_fail : forall eps, 0 <= eps <= 1/8 -> forall b d u a t s,
  wf_bop b d u a -> 0 <= t -> 0 <= s -> t + s <= 1 ->
  btrans_unc (B:=FldR) eps (bopR b d u a) (Some t) <> None /\
  btrans_bsr (B:=FldR) eps (bopR b d u a) (Some t) <> None /\
  btrans_opp (B:=FldR) eps (bopR b d u a) (Some t) (Some s) <> None.
Proof. exact SelfCheck.trans_never_fail. Qed.
Print Assumptions discounts_never_fail.

(* unlabelled products of any size (so also 4x4 and 3x3x3): the exact result passes Opinion::new *)
Theorem product2_never_fails : forall eps, 0 <= eps <= 1/8 -> forall b0 u0 a0 b1 u1 a1,
  wf_opinion b0 u0 a0 -> wf_opinion b1 u1 a1 ->
  exists b u a, product2 (B:=FldR) eps (map Some b0, Some u0, map Some a0) (map Some b1, Some u1, map Some a1)
                = Some (map Some b, Some u, map Some a) /\ wf_opinion b u a.
Proof. exact SelfCheck.product2_never_fails. Qed.
Print Assumptions product2_never_fails.

Theorem product3_never_fails : forall eps, 0 <= eps <= 1/8 -> forall b0 u0 a0 b1 u1 a1 b2 u2 a2,
  wf_opinion b0 u0 a0 -> wf_opinion b1 u1 a1 -> wf_opinion b2 u2 a2 ->
  exists b u a, product3 (B:=FldR) eps (map Some b0, Some u0, map Some a0) (map Some b1, Some u1, map Some a1)
                         (map Some b2, Some u2, map Some a2)
                = Some (map Some b, Some u, map Some a) /\ wf_opinion b u a.
Proof. exact SelfCheck.product3_never_fails. Qed.
Print Assumptions product3_never_fails.

(* Operands accepted by the checked constructors need not be exactly well-formed: masses summing to 1 + 4 eps are
   accepted, and for dogmatic factors the smallest quotient (P - b0 b1)/a is then -(b/a)(delta_0 + delta_1) < -eps.
   Before repair 9f.. ("products clamp a negative rounding residue of the uncertainty") the product's own validation
   rejected such a result; the clamped operator accepts it.  Witness on the executable rational instance with
   eps = 2^-52: both factors pass check_simplex / check_base_rate, and their product is defined, dogmatic and
   passes the validation. *)
Theorem product2_of_tolerated_operands :
  let eps : Q := (1 # 4503599627370496)%Q in
  let d : Q := Qred (2 * eps)%Q in
  let b0 := [Some (Qred ((1 # 2) + d)%Q); Some (Qred ((1 # 2) + d)%Q)] in
  let a0 := [Some (1 # 8)%Q; Some (7 # 8)%Q] in
  (check_simplex (B:=FldQ) eps b0 (Some 0%Q) = true) /\
  (check_base_rate (B:=FldQ) eps a0 = true) /\
  (exists b a, product2 (B:=FldQ) eps (b0, Some 0%Q, a0) (b0, Some 0%Q, a0) = Some (b, Some 0%Q, a)).
Proof. vm_compute. split; [reflexivity|]. split; [reflexivity|]. eexists _, _. reflexivity. Qed.
Print Assumptions product2_of_tolerated_operands.

Example c19_nonvacuous :
  wf_bop (1/1000) (2/1000) (997/1000) (1/4) /\ wf_bop (3/1000) (1/1000) (996/1000) (5/8) /\
  wf_opinion [1/4; 1/4] (1/2) [1/2; 1/2].
Proof.
  unfold wf_bop, wf_opinion, wf_simplex, wf_dist, nonneg; cbn.
  repeat split; try lra; repeat constructor; lra.
Qed.
