(* C07 - Fusion obeys its algebraic laws, so evidence can be folded in any order.
   Only statements, each closed by [exact]; proofs are in Facts/FusionLaws.v.

   Operands are real opinions (b, u, a) over one domain of any size; they enter the model as
   (map Some b, Some u, map Some a).  [fuseR] / [fused_b] / [fused_u] / [fused_a] are the explicit
   results of Facts/Fusion.v ([fusion_defined] in Props/C02.v: the model returns exactly them).
   [same] is the pointer-equality shortcut of compute_base_rate.

   What holds, precisely:
   * commutativity: exact for all four operators at eps = 0, and for every tolerance when the
     operands share their base rate.  For eps > 0 and different base rates the fused SIMPLEX of
     ACm / Avg / Wgh is still exactly symmetric, but the fused base rates of the two orders agree
     only within eps per entry: the [aeq] shortcut returns the LEFT entry
     ([fuse_comm_base_rate_asymmetric] is a witness).  For ECm this difference is fed into
     uncertainty maximisation, so ECm is stated at eps = 0 or for a shared base rate only.
   * idempotence, neutrality, uncertainty bounds: exact at eps = 0; for eps > 0 with the stated
     guard conditions / slack (the doubly-dogmatic rung returns u = 0 for operands with
     0 < u <= eps, the doubly-vacuous rung returns u = 1 for operands with 1 - 2 eps <= u < 1).
   * associativity and order independence of ACm: eps = 0, one shared base rate, u > 0
     (class [nd_shared a]); the fold is the back-map of the sum of the operands' evidence. *)
From Coq Require Import Reals List Lra Permutation.
Import ListNotations.
From SL Require Import Model.Num Model.Vec Model.Mul Model.InstR Facts.RBase Facts.Fusion Facts.FusionLaws.
Open Scope R_scope.

(* ------------------------------------------------------------- commutativity *)

(* all four operators, exact guards: the model returns the same opinion for both orders *)
Theorem fuse_comm : forall lb rb la ra lu ru,
  wf_opinion lb lu la -> wf_opinion rb ru ra -> length lb = length rb ->
  forall op,
  fuse (B:=FldR) 0 op false (map Some lb, Some lu, map Some la) (map Some rb, Some ru, map Some ra)
  = fuse (B:=FldR) 0 op false (map Some rb, Some ru, map Some ra) (map Some lb, Some lu, map Some la).
Proof. exact fuse_comm_exact. Qed.
Print Assumptions fuse_comm.

(* all four operators, every tolerance, both values of [same]: operands with one base rate *)
Theorem fuse_comm_shared_base_rate : forall lb rb la ra lu ru,
  wf_opinion lb lu la -> wf_opinion rb ru ra -> length lb = length rb ->
  forall eps op same, 0 <= eps <= 1/8 -> la = ra ->
  fuse (B:=FldR) eps op same (map Some lb, Some lu, map Some la) (map Some rb, Some ru, map Some ra)
  = fuse (B:=FldR) eps op same (map Some rb, Some ru, map Some ra) (map Some lb, Some lu, map Some la).
Proof. exact fuse_comm_shared. Qed.
Print Assumptions fuse_comm_shared_base_rate.

(* ACm, Avg, Wgh, every tolerance, any base rates: the same simplex, base rates within eps *)
Theorem fuse_comm_up_to_tolerance : forall lb rb la ra lu ru,
  wf_opinion lb lu la -> wf_opinion rb ru ra -> length lb = length rb ->
  forall eps op, 0 <= eps <= 1/8 -> op <> ECm ->
  fused_b eps op false (lb, lu, la) (rb, ru, ra) = fused_b eps op false (rb, ru, ra) (lb, lu, la) /\
  fused_u eps op false (lb, lu, la) (rb, ru, ra) = fused_u eps op false (rb, ru, ra) (lb, lu, la) /\
  Forall2 (fun p q => Rabs (p - q) <= eps)
          (fused_a eps op false (lb, lu, la) (rb, ru, ra)) (fused_a eps op false (rb, ru, ra) (lb, lu, la)).
Proof. exact fuseR_comm_close. Qed.
Print Assumptions fuse_comm_up_to_tolerance.

(* the simplex ladder alone (what ECm then maximises) is symmetric for every tolerance *)
Theorem compute_simplex_comm : forall eps op lb lu rb ru,
  0 <= eps <= 1/8 -> 0 <= lu <= 1 -> 0 <= ru <= 1 -> length lb = length rb ->
  compute_simplexR eps op (lb, lu) (rb, ru) = compute_simplexR eps op (rb, ru) (lb, lu).
Proof. exact compute_simplexR_comm. Qed.
Print Assumptions compute_simplex_comm.

(* the base-rate slack is real: eps = 1/8, averaging fusion, base rates (1/2,1/2) and
   (9/16,7/16): each order returns its own left base rate *)
Theorem fuse_comm_base_rate_asymmetric :
  let eps := 1/8 in
  let l := ([1/4; 1/4], 1/2, [1/2; 1/2]) in
  let r := ([1/2; 0], 1/2, [9/16; 7/16]) in
  fused_a eps Avg false l r = [1/2; 1/2] /\ fused_a eps Avg false r l = [9/16; 7/16].
Proof. exact FusionLaws.fuse_comm_base_rate_asymmetric. Qed.
Print Assumptions fuse_comm_base_rate_asymmetric.

(* --------------------------------------------------------------- idempotence *)

(* Avg and Wgh of an opinion with itself return it, exact guards, both values of [same] *)
Theorem avg_wgh_idem : forall op same b u a, wf_opinion b u a -> op = Avg \/ op = Wgh ->
  fuse (B:=FldR) 0 op same (map Some b, Some u, map Some a) (map Some b, Some u, map Some a)
  = (map Some b, Some u, map Some a).
Proof. exact fuse_idem_exact. Qed.
Print Assumptions avg_wgh_idem.

(* every tolerance, provided the guards classify u exactly *)
Theorem avg_wgh_idem_tolerance : forall eps op same b u a, 0 <= eps <= 1/8 -> wf_opinion b u a ->
  op = Avg \/ op = Wgh -> (u = 0 \/ eps < u) -> (op = Wgh -> u = 1 \/ u < 1 - 2 * eps) ->
  fuse (B:=FldR) eps op same (map Some b, Some u, map Some a) (map Some b, Some u, map Some a)
  = (map Some b, Some u, map Some a).
Proof. exact fuse_idem. Qed.
Print Assumptions avg_wgh_idem_tolerance.

(* without the condition the law fails: b = (7/8), u = 1/8 = eps is sent to (1, 0) *)
Theorem avg_idem_needs_exact_guard : exists eps b u,
  0 <= eps <= 1/8 /\ wf_simplex b u /\ compute_simplexR eps Avg (b, u) (b, u) <> (b, u).
Proof. exact avg_idem_needs_guard. Qed.
Print Assumptions avg_idem_needs_exact_guard.

(* ------------------------------------------------------ vacuous neutral element *)

(* ACm and Wgh: a non-vacuous opinion fused with a vacuous one (u >= 1 - 2 eps; u = 1 at
   eps = 0) comes back unchanged, simplex and base rate; vacuous operand on the right (both
   values of [same]) or on the left *)
Theorem acm_wgh_vacuous_neutral : forall eps, 0 <= eps <= 1/8 ->
  forall lb rb la ra lu ru,
  wf_opinion lb lu la -> wf_opinion rb ru ra -> length lb = length rb ->
  forall op same, op = ACm \/ op = Wgh -> lu < 1 - 2 * eps -> 1 - 2 * eps <= ru ->
  fuse (B:=FldR) eps op same (map Some lb, Some lu, map Some la) (map Some rb, Some ru, map Some ra)
  = (map Some lb, Some lu, map Some la).
Proof. exact fuse_vacuous_right. Qed.
Print Assumptions acm_wgh_vacuous_neutral.

Theorem acm_wgh_vacuous_neutral_left : forall eps, 0 <= eps <= 1/8 ->
  forall lb rb la ra lu ru,
  wf_opinion lb lu la -> wf_opinion rb ru ra -> length lb = length rb ->
  forall op, op = ACm \/ op = Wgh -> 1 - 2 * eps <= lu -> ru < 1 - 2 * eps ->
  fuse (B:=FldR) eps op false (map Some lb, Some lu, map Some la) (map Some rb, Some ru, map Some ra)
  = (map Some rb, Some ru, map Some ra).
Proof. exact fuse_vacuous_left. Qed.
Print Assumptions acm_wgh_vacuous_neutral_left.

(* --------------------------------------------------------- uncertainty bounds *)

(* ACm never leaves more uncertainty than the less uncertain operand: exact guards ... *)
Theorem acm_u_le_min : forall same lb lu la rb ru ra,
  wf_opinion lb lu la -> wf_opinion rb ru ra -> length lb = length rb ->
  fused_u 0 ACm same (lb, lu, la) (rb, ru, ra) <= Rmin lu ru.
Proof. exact acm_u_le_min_exact'. Qed.
Print Assumptions acm_u_le_min.

(* ... every tolerance: slack 2 eps, and none unless both operands pass the vacuous guard *)
Theorem acm_u_le_min_tolerance : forall eps, 0 <= eps <= 1/8 ->
  forall lb rb la ra lu ru, wf_opinion lb lu la -> wf_opinion rb ru ra ->
  forall same,
  fused_u eps ACm same (lb, lu, la) (rb, ru, ra) <= Rmin lu ru + 2 * eps /\
  (lu < 1 - 2 * eps \/ ru < 1 - 2 * eps -> fused_u eps ACm same (lb, lu, la) (rb, ru, ra) <= Rmin lu ru).
Proof. exact FusionLaws.acm_u_le_min. Qed.
Print Assumptions acm_u_le_min_tolerance.

(* Avg and Wgh keep the uncertainty between the operands' uncertainties: exact guards ... *)
Theorem avg_wgh_u_between : forall op same lb lu la rb ru ra,
  wf_opinion lb lu la -> wf_opinion rb ru ra -> length lb = length rb -> op = Avg \/ op = Wgh ->
  Rmin lu ru <= fused_u 0 op same (lb, lu, la) (rb, ru, ra) <= Rmax lu ru.
Proof. exact avg_wgh_u_between_exact'. Qed.
Print Assumptions avg_wgh_u_between.

(* ... every tolerance: slack eps below, 2 eps above *)
Theorem avg_wgh_u_between_tolerance : forall eps, 0 <= eps <= 1/8 ->
  forall lb rb la ra lu ru, wf_opinion lb lu la -> wf_opinion rb ru ra ->
  forall op same, op = Avg \/ op = Wgh ->
  Rmin lu ru - eps <= fused_u eps op same (lb, lu, la) (rb, ru, ra) <= Rmax lu ru + 2 * eps.
Proof. exact FusionLaws.avg_wgh_u_between. Qed.
Print Assumptions avg_wgh_u_between_tolerance.

(* ----------------------------------- associativity and folds (ACm, eps = 0) *)
(* [nd_shared a w]: w is a well-formed opinion with u > 0 and base rate a (hence over a's
   domain).  [injO w] is w as a model opinion.  [evO W w] is w's evidence W b / u. *)

(* the class is closed under ACm, so folds stay inside it *)
Theorem acm_closed_on_class : forall same a w1 w2,
  nd_shared a w1 -> nd_shared a w2 -> nd_shared a (fuseR 0 ACm same w1 w2).
Proof. exact acm_closed. Qed.
Print Assumptions acm_closed_on_class.

Theorem acm_assoc : forall same a w1 w2 w3, nd_shared a w1 -> nd_shared a w2 -> nd_shared a w3 ->
  fuse (B:=FldR) 0 ACm same (fuse (B:=FldR) 0 ACm same (injO w1) (injO w2)) (injO w3)
  = fuse (B:=FldR) 0 ACm same (injO w1) (fuse (B:=FldR) 0 ACm same (injO w2) (injO w3)).
Proof. exact acm_assoc_model. Qed.
Print Assumptions acm_assoc.

(* evidence is additive under ACm (any prior weight): the reason for both laws *)
Theorem acm_evidence_additive : forall same a W w1 w2, 0 < W -> nd_shared a w1 -> nd_shared a w2 ->
  evO W (fuseR 0 ACm same w1 w2) = map2 Rplus (evO W w1) (evO W w2).
Proof. exact acm_evidence_sum. Qed.
Print Assumptions acm_evidence_additive.

(* the history theorem: folding a list of any length in any order gives the same opinion *)
Theorem fold_fuse_perm : forall same a ws ws' w0,
  Permutation ws ws' -> nd_shared a w0 -> Forall (nd_shared a) ws ->
  fold_left (fuse (B:=FldR) 0 ACm same) (map injO ws') (injO w0)
  = fold_left (fuse (B:=FldR) 0 ACm same) (map injO ws) (injO w0).
Proof. exact acm_fold_perm_model. Qed.
Print Assumptions fold_fuse_perm.

(* ... also when the initial operand takes part in the reordering *)
Theorem fold_fuse_perm_full : forall same a ws ws' w0 w0',
  Permutation (w0 :: ws) (w0' :: ws') -> nd_shared a w0 -> Forall (nd_shared a) ws ->
  fold_left (fuse (B:=FldR) 0 ACm same) (map injO ws') (injO w0')
  = fold_left (fuse (B:=FldR) 0 ACm same) (map injO ws) (injO w0).
Proof. exact acm_fold_perm_full_model. Qed.
Print Assumptions fold_fuse_perm_full.

(* ... and in any grouping: fusing two partial folds is the fold of the joined history *)
Theorem fold_fuse_group : forall same a ws1 w1 ws2 w2,
  nd_shared a w1 -> Forall (nd_shared a) ws1 -> nd_shared a w2 -> Forall (nd_shared a) ws2 ->
  fuse (B:=FldR) 0 ACm same
       (fold_left (fuse (B:=FldR) 0 ACm same) (map injO ws1) (injO w1))
       (fold_left (fuse (B:=FldR) 0 ACm same) (map injO ws2) (injO w2))
  = fold_left (fuse (B:=FldR) 0 ACm same) (map injO (ws1 ++ w2 :: ws2)) (injO w1).
Proof. exact acm_fold_group_model. Qed.
Print Assumptions fold_fuse_group.

(* the single answer: the back-map of the total evidence, over the shared base rate *)
Theorem fold_fuse_is_total_evidence : forall same a W ws w0,
  0 < W -> nd_shared a w0 -> Forall (nd_shared a) ws ->
  fold_left (fuse (B:=FldR) 0 ACm same) (map injO ws) (injO w0)
  = injO (fst (opR W (fold_left (map2 Rplus) (map (evO W) ws) (evO W w0))),
          snd (opR W (fold_left (map2 Rplus) (map (evO W) ws) (evO W w0))), a).
Proof. exact acm_fold_evidence_model. Qed.
Print Assumptions fold_fuse_is_total_evidence.

(* in place or by value: FuseAssign is "*lhs = fuse(lhs, rhs)" ([fuse_assign] is that line) *)
Theorem fuse_assign_is_fuse : forall (B : Fld) (eps : F B) op same ws (w0 : opinion (B:=B)),
  fold_left (fuse_assign eps op same) ws w0 = fold_left (fuse eps op same) ws w0.
Proof. exact @fold_fuse_assign_is_fold_fuse. Qed.
Print Assumptions fuse_assign_is_fuse.

(* ---------------------------------------------------------------- non-vacuity *)
(* two non-dogmatic opinions and a vacuous one over three states with one base rate: the
   hypotheses of all theorems above hold (the first two are in the class [nd_shared]) *)
Example c07_nonvacuous :
  wf_opinion [1/2; 1/4; 0] (1/4) [1/2; 1/4; 1/4] /\
  wf_opinion [0; 1/8; 1/8] (3/4) [1/2; 1/4; 1/4] /\
  wf_opinion [0; 0; 0] 1 [1/2; 1/4; 1/4] /\
  nd_shared [1/2; 1/4; 1/4] ([1/2; 1/4; 0], 1/4, [1/2; 1/4; 1/4]) /\
  nd_shared [1/2; 1/4; 1/4] ([0; 1/8; 1/8], 3/4, [1/2; 1/4; 1/4]) /\
  compute_simplexR 0 ACm ([1/2; 1/4; 0], 1/4) ([0; 1/8; 1/8], 3/4) = ([6/13; 7/26; 1/26], 3/13).
Proof.
  destruct laws_example as (H1 & H2 & H3 & H4 & H5 & _ & H7).
  exact (conj H1 (conj H2 (conj H3 (conj H4 (conj H5 H7))))).
Qed.
