(* C10 - Trust discounting scales belief, raises uncertainty, composes multiplicatively.
   Only statements, each closed by [exact]; proofs are in Facts/Discount.v. *)
From Coq Require Import Reals List Lra.
Import ListNotations.
From SL Require Import Model.Num Model.Vec Model.Mul Model.Bi Model.InstR Facts.RBase Facts.Discount.
Open Scope R_scope.

(* For every domain size, every well-formed simplex, every trust level in [0,1] and every
   guard tolerance 0 <= eps <= 1/8: the operator is defined (no NaN), its result is the pair
   [discountR], and that pair is a well-formed simplex. *)
Theorem discount_defined_wf : forall eps b u t, 0 <= eps <= 1/8 ->
  wf_simplex b u -> 0 <= t <= 1 ->
  discount (B:=FldR) eps (map Some b) (Some u) (Some t)
    = (map Some (fst (discountR eps b u t)), Some (snd (discountR eps b u t))) /\
  wf_simplex (fst (discountR eps b u t)) (snd (discountR eps b u t)).
Proof. intros eps b u t He Hwf Ht. split; [exact (discount_defined eps b u t) | exact (discount_wf eps He b u t Hwf Ht)]. Qed.
Print Assumptions discount_defined_wf.

(* b' = t b and u' = 1 - t (1 - u), exactly, whenever u is not within the crate's tolerance of 1
   (every u < 1 when eps = 0) ... *)
Theorem discount_formula : forall eps b u t, 0 <= eps <= 1/8 -> u < 1 - 2 * eps ->
  discountR eps b u t = (map (fun x => x * t) b, 1 - t * (1 - u)).
Proof. intros eps b u t _. exact (discount_exact eps b u t). Qed.
Print Assumptions discount_formula.

(* ... and within 2 eps of those formulas in every case. *)
Theorem discount_formula_close : forall eps b u t, 0 <= eps <= 1/8 -> wf_simplex b u -> 0 <= t <= 1 ->
  Forall2 (fun y x => Rabs (y - x * t) <= 2 * eps) (fst (discountR eps b u t)) b /\
  Rabs (snd (discountR eps b u t) - (1 - t * (1 - u))) <= 2 * eps.
Proof. intros eps b u t He. exact (discount_close eps He b u t). Qed.
Print Assumptions discount_formula_close.

(* hence the projected probability is t P + (1 - t) a, entry by entry *)
Theorem discount_projection : forall bi ai u t : R,
  bi * t + ai * (1 - t * (1 - u)) = t * (bi + ai * u) + (1 - t) * ai.
Proof. exact discount_projection_entry. Qed.
Print Assumptions discount_projection.

Theorem discount_trust_one : forall eps b u, 0 <= eps <= 1/8 ->
  discountR eps b u 1 = if is_one (B:=FldR) eps (Some u) then (map (fun _ => 0) b, 1) else (b, u).
Proof. intros eps b u _. exact (discount_one eps b u). Qed.
Print Assumptions discount_trust_one.

Theorem discount_trust_zero : forall eps b u, discountR eps b u 0 = (map (fun _ => 0) b, 1).
Proof. exact discount_zero. Qed.
Print Assumptions discount_trust_zero.

Theorem discount_of_vacuous : forall eps, 0 <= eps <= 1/8 -> forall b t,
  discountR eps b 1 t = (map (fun _ => 0) b, 1).
Proof. exact discount_vacuous. Qed.
Print Assumptions discount_of_vacuous.

(* chains of discounts of any length compose multiplicatively (exact guards) *)
Theorem discount_chain_is_product : forall ts b u,
  wf_simplex b u -> Forall (fun t => 0 <= t <= 1) ts -> ts <> [] ->
  fold_left (fun s t => discountR 0 (fst s) (snd s) t) ts (b, u) = discountR 0 b u (Rprod ts).
Proof. exact discount_chain. Qed.
Print Assumptions discount_chain_is_product.

(* binomial discounts: defined (self-validation passes), well-formed, and the same function *)
Theorem trans_unc_is_discount : forall eps, 0 <= eps <= 1/8 -> forall b d u a t,
  wf_bop b d u a -> 0 <= t <= 1 ->
  btrans_unc (B:=FldR) eps (bopR b d u a) (Some t) = Some (bopR (t * b) (t * d) (1 - t * (1 - u)) a) /\
  wf_bop (t * b) (t * d) (1 - t * (1 - u)) a.
Proof. exact btrans_unc_spec. Qed.
Print Assumptions trans_unc_is_discount.

Theorem trans_bsr_is_discount : forall eps, 0 <= eps <= 1/8 -> forall b d u a t,
  wf_bop b d u a -> 0 <= t <= 1 ->
  btrans_bsr (B:=FldR) eps (bopR b d u a) (Some t) = Some (bopR (t * b) (t * d) (1 - t * (1 - u)) a).
Proof. exact btrans_bsr_spec. Qed.
Print Assumptions trans_bsr_is_discount.

Theorem trans_opp_spec : forall eps, 0 <= eps <= 1/8 -> forall b d u a t s,
  wf_bop b d u a -> 0 <= t -> 0 <= s -> t + s <= 1 ->
  btrans_opp (B:=FldR) eps (bopR b d u a) (Some t) (Some s) =
    Some (bopR (t * b + s * d) (t * d + s * b) (1 - (t + s) * (1 - u)) a) /\
  wf_bop (t * b + s * d) (t * d + s * b) (1 - (t + s) * (1 - u)) a.
Proof. exact btrans_opp_spec. Qed.
Print Assumptions trans_opp_spec.

(* non-vacuity: the hypotheses are met by a concrete, non-trivial operand *)
Example c10_nonvacuous : wf_simplex [1/4; 1/4; 1/8] (3/8) /\ wf_bop (1/2) (1/5) (3/10) (2/5).
Proof. unfold wf_simplex, wf_bop, nonneg; cbn. repeat split; try (repeat constructor; lra); lra. Qed.
