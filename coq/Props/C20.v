(* C20 - Equality and approximate equality of opinions are component-wise.
   Only statements, each closed by [exact]; proofs are in Facts/EqvFacts.v.

   [V] is the scalar type and [R : V -> V -> bool] the scalar relation: [==], or
   [abs_diff_eq] / [relative_eq] / [ulps_eq] with ANY fixed tolerance arguments, on f32 or f64.
   [bop_rel R] is how src/bi.rs:379-423 builds the three approximate relations of BOpinion and what
   the derived PartialEq does with [==]; [simplex_eqb] / [opinion_eqb] are the derived PartialEq of
   Simplex / OpinionBase over a cell vector; [labelled_eqb] is the labelled arrays' PartialEq.
   Every theorem holds for every [V] and [R], and for every domain size.

   Reflexivity: the scalar relations are not reflexive on every float ([NaN == NaN] is false, and
   [abs_diff_eq inf inf eps] is false because inf - inf is NaN), so reflexivity of the opinion
   relation is stated relative to the set of scalars on which [R] is reflexive. *)
From Coq Require Import List Bool Arith.
Import ListNotations.
From SL Require Import Model.Eqv Facts.EqvFacts.

(* two binomial opinions are related exactly when b, d, u and a all are *)
Theorem bop_rel_iff_components : forall (V : Type) (R : V -> V -> bool) b1 d1 u1 a1 b2 d2 u2 a2,
  bop_rel R (b1, d1, u1, a1) (b2, d2, u2, a2) = true <->
  R b1 b2 = true /\ R d1 d2 = true /\ R u1 u2 = true /\ R a1 a2 = true.
Proof. exact EqvFacts.bop_rel_iff_components. Qed.
Print Assumptions bop_rel_iff_components.

(* the opinion-level result is this function of the four scalar results (used by the
   correspondence check) *)
Theorem bop_rel_is_rel4 : forall (V : Type) (R : V -> V -> bool) b1 d1 u1 a1 b2 d2 u2 a2,
  bop_rel R (b1, d1, u1, a1) (b2, d2, u2, a2) = bop_rel4 (R b1 b2) (R d1 d2) (R u1 u2) (R a1 a2).
Proof. exact bop_rel_rel4. Qed.
Print Assumptions bop_rel_is_rel4.

Theorem bop_rel4_spec : forall rb rd ru ra,
  bop_rel4 rb rd ru ra = true <-> rb = true /\ rd = true /\ ru = true /\ ra = true.
Proof. exact bop_rel4_true. Qed.
Print Assumptions bop_rel4_spec.

(* reflexive when R is ... *)
Theorem bop_rel_refl : forall (V : Type) (R : V -> V -> bool),
  (forall x, R x x = true) -> forall w, bop_rel R w w = true.
Proof. exact EqvFacts.bop_rel_refl. Qed.
Print Assumptions bop_rel_refl.

(* ... and on the opinions whose components are in a set where R is reflexive *)
Theorem bop_rel_refl_on : forall (V : Type) (R : V -> V -> bool) (ok : V -> Prop),
  (forall x, ok x -> R x x = true) ->
  forall b d u a, ok b -> ok d -> ok u -> ok a -> bop_rel R (b, d, u, a) (b, d, u, a) = true.
Proof. exact EqvFacts.bop_rel_refl_on. Qed.
Print Assumptions bop_rel_refl_on.

Theorem bop_rel_sym : forall (V : Type) (R : V -> V -> bool),
  (forall x y, R x y = R y x) -> forall w1 w2, bop_rel R w1 w2 = bop_rel R w2 w1.
Proof. exact EqvFacts.bop_rel_sym. Qed.
Print Assumptions bop_rel_sym.

(* a difference beyond the tolerance in any single component makes the opinions unequal *)
Theorem bop_rel_detects_each_component : forall (V : Type) (R : V -> V -> bool) b1 d1 u1 a1 b2 d2 u2 a2,
  R b1 b2 = false \/ R d1 d2 = false \/ R u1 u2 = false \/ R a1 a2 = false ->
  bop_rel R (b1, d1, u1, a1) (b2, d2, u2, a2) = false.
Proof. exact EqvFacts.bop_rel_detects_each_component. Qed.
Print Assumptions bop_rel_detects_each_component.

Theorem bop_rel_false_iff : forall (V : Type) (R : V -> V -> bool) b1 d1 u1 a1 b2 d2 u2 a2,
  bop_rel R (b1, d1, u1, a1) (b2, d2, u2, a2) = false <->
  R b1 b2 = false \/ R d1 d2 = false \/ R u1 u2 = false \/ R a1 a2 = false.
Proof. exact EqvFacts.bop_rel_false_iff. Qed.
Print Assumptions bop_rel_false_iff.

(* multinomial simplexes, all sizes: equal iff same size, every belief mass related and the
   uncertainties related *)
Theorem simplex_eq_iff : forall (V : Type) (R : V -> V -> bool) (b1 b2 : list V) (u1 u2 : V),
  simplex_eqb R (b1, u1) (b2, u2) = true <->
  length b1 = length b2 /\
  (forall i d1 d2, i < length b1 -> R (nth i b1 d1) (nth i b2 d2) = true) /\ R u1 u2 = true.
Proof. exact EqvFacts.simplex_eq_iff. Qed.
Print Assumptions simplex_eq_iff.

(* multinomial opinions, all sizes: additionally every base rate *)
Theorem opinion_eq_iff : forall (V : Type) (R : V -> V -> bool) (b1 b2 : list V) (u1 u2 : V) (a1 a2 : list V),
  opinion_eqb R (b1, u1, a1) (b2, u2, a2) = true <->
  (length b1 = length b2 /\
   (forall i d1 d2, i < length b1 -> R (nth i b1 d1) (nth i b2 d2) = true)) /\
  R u1 u2 = true /\
  (length a1 = length a2 /\
   (forall i d1 d2, i < length a1 -> R (nth i a1 d1) (nth i a2 d2) = true)).
Proof. exact EqvFacts.opinion_eq_iff. Qed.
Print Assumptions opinion_eq_iff.

(* one differing cell (belief, uncertainty or base rate) is detected *)
Theorem simplex_eq_detects_each_cell : forall (V : Type) (R : V -> V -> bool) (b1 b2 : list V) (u1 u2 : V),
  (exists i d1 d2, i < length b1 /\ R (nth i b1 d1) (nth i b2 d2) = false) \/ R u1 u2 = false ->
  simplex_eqb R (b1, u1) (b2, u2) = false.
Proof. exact EqvFacts.simplex_eq_detects. Qed.
Print Assumptions simplex_eq_detects_each_cell.

Theorem opinion_eq_detects_each_cell : forall (V : Type) (R : V -> V -> bool) (b1 b2 : list V) (u1 u2 : V) (a1 a2 : list V),
  (exists i d1 d2, i < length b1 /\ R (nth i b1 d1) (nth i b2 d2) = false) \/ R u1 u2 = false \/
  (exists i d1 d2, i < length a1 /\ R (nth i a1 d1) (nth i a2 d2) = false) ->
  opinion_eqb R (b1, u1, a1) (b2, u2, a2) = false.
Proof. exact EqvFacts.opinion_eq_detects. Qed.
Print Assumptions opinion_eq_detects_each_cell.

(* cell vectors of different lengths are never equal; equal length and pointwise otherwise *)
Theorem list_eq_iff : forall (V : Type) (R : V -> V -> bool) (l1 l2 : list V),
  list_eqb R l1 l2 = true <->
  length l1 = length l2 /\ forall i d1 d2, i < length l1 -> R (nth i l1 d1) (nth i l2 d2) = true.
Proof. exact list_eqb_nth. Qed.
Print Assumptions list_eq_iff.

Theorem list_eq_refl_on : forall (V : Type) (R : V -> V -> bool) (ok : V -> Prop),
  (forall x, ok x -> R x x = true) -> forall l, Forall ok l -> list_eqb R l l = true.
Proof. exact list_eqb_refl_on. Qed.
Print Assumptions list_eq_refl_on.

Theorem list_eq_sym : forall (V : Type) (R : V -> V -> bool),
  (forall x y, R x y = R y x) -> forall l1 l2, list_eqb R l1 l2 = list_eqb R l2 l1.
Proof. exact list_eqb_sym. Qed.
Print Assumptions list_eq_sym.

(* a labelled array compares like its cell vector *)
Theorem labelled_eq_delegates : forall (V : Type) (R : V -> V -> bool) (D : Type) (x y : labelled V D),
  labelled_eqb R x y = list_eqb R (cells x) (cells y).
Proof. exact EqvFacts.labelled_eq_delegates. Qed.
Print Assumptions labelled_eq_delegates.

(* Non-vacuity: V = nat with R = Nat.eqb (reflexive and symmetric).  Opinions differing only in the
   base rate are unequal, as are simplexes differing in one cell or in length. *)
Example c20_nonvacuous :
  (forall x, Nat.eqb x x = true) /\ (forall x y, Nat.eqb x y = Nat.eqb y x) /\
  bop_rel Nat.eqb (1, 2, 3, 4) (1, 2, 3, 4) = true /\
  bop_rel Nat.eqb (1, 2, 3, 4) (1, 2, 3, 5) = false /\
  bop_rel Nat.eqb (1, 2, 3, 4) (0, 2, 3, 4) = false /\
  simplex_eqb Nat.eqb ([1; 2; 3], 4) ([1; 2; 3], 4) = true /\
  simplex_eqb Nat.eqb ([1; 2; 3], 4) ([1; 2; 0], 4) = false /\
  simplex_eqb Nat.eqb ([1; 2; 3], 4) ([1; 2], 4) = false /\
  opinion_eqb Nat.eqb ([1; 2], 3, [4; 5]) ([1; 2], 3, [4; 6]) = false /\
  labelled_eqb Nat.eqb (mk_labelled unit [1; 2]) (mk_labelled unit [1; 2; 3]) = false.
Proof.
  split; [exact Nat.eqb_refl|]. split; [exact Nat.eqb_sym|]. repeat split; reflexivity.
Qed.
