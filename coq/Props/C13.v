(* C13 - Binomial opinions are the binary case of multinomial ones.
   Only statements, each closed by [exact]; proofs are in Facts/BiFuse.v.

   Operands: x = (b1,d1,u1,a1), y = (b2,d2,u2,a2), both [wf_bop]; they enter the model as
   [bopR b d u a]; [bop_to_mul] / [mul_to_bop] are the conversions of convert.rs.
   [crisp eps u] : u = 0 \/ eps < u, and u = 1 \/ u < 1 - 2 eps  (u outside both slack regions);
   [crisp0 eps u]: u = 0 \/ eps < u.
   The two families classify an uncertainty in (0, eps] differently (the binomial cumulative form
   has no dogmatic guard, the binomial dogmatic branches do not renormalise) and the multinomial
   family replaces a nearly vacuous operand (1 - 2 eps <= u < 1) by the exact vacuous one; the
   property excludes these, and so do the comparison theorems ([cfuse_slack_excluded] shows the
   exclusion is necessary).  The definedness theorems need no such hypothesis. *)
From Coq Require Import Reals List Bool Lra.
Import ListNotations.
From SL Require Import Model.Num Model.Vec Model.Mul Model.Bi Model.InstR Facts.RBase Facts.Discount
  Facts.BiFuse.
Open Scope R_scope.

(* ------------------------------------------------------------ conversions *)

(* lossless, on every value (defined or not) *)
Theorem convert_roundtrip : forall x : bop (B:=FldR), mul_to_bop (bop_to_mul x) = x.
Proof. exact convert_roundtrip_any. Qed.
Print Assumptions convert_roundtrip.

(* and the other way round on two-state opinions whose base rate sums to one *)
Theorem convert_roundtrip_mul : forall b0 b1 u a0 a1 : R, a0 + a1 = 1 ->
  bop_to_mul (B:=FldR) (mul_to_bop (B:=FldR) (map Some [b0; b1], Some u, map Some [a0; a1])) =
  (map Some [b0; b1], Some u, map Some [a0; a1]).
Proof. exact convert_roundtrip_mul_R. Qed.
Print Assumptions convert_roundtrip_mul.

(* the converted opinion is the well-formed multinomial opinion ([b; d], u, [a; 1 - a]) *)
Theorem convert_wf : forall b d u a : R, wf_bop b d u a ->
  bop_to_mul (B:=FldR) (bopR b d u a) = (map Some [b; d], Some u, map Some [a; 1 - a]) /\
  wf_opinion [b; d] u [a; 1 - a].
Proof. intros b d u a H. split; [exact (bop_to_mul_R b d u a) | exact (convert_wf_R b d u a H)]. Qed.
Print Assumptions convert_wf.

(* the projected probability is preserved: the multinomial projection of the converted opinion
   is defined (its normalising sum is 1) and is [P(x); 1 - P(x)] *)
Theorem convert_projection : forall b d u a : R, b + d + u = 1 ->
  projection (B:=FldR) (map Some [b; d]) (Some u) (map Some [a; 1 - a]) =
    map Some [b + a * u; d + (1 - a) * u] /\
  bprojection (B:=FldR) (bopR b d u a) = Some (b + a * u).
Proof. exact convert_projection_R. Qed.
Print Assumptions convert_projection.

(* ------------------------------------------------------- cumulative fusion *)

(* cfuse is defined, equals the closed form [bcfuseR] and is well-formed whenever the operands
   are not both dogmatic (no slack hypothesis) *)
Theorem cfuse_defined_wf : forall eps, 0 <= eps <= 1/8 -> forall b1 d1 u1 a1 b2 d2 u2 a2,
  wf_bop b1 d1 u1 a1 -> wf_bop b2 d2 u2 a2 -> ~ (u1 = 0 /\ u2 = 0) ->
  bcfuse (B:=FldR) eps (bopR b1 d1 u1 a1) (bopR b2 d2 u2 a2) =
    Some (bopR (cfuse_b b1 u1 b2 u2) (cfuse_b d1 u1 d2 u2) (cfuse_u u1 u2) (cfuse_a eps a1 u1 a2 u2)) /\
  wf_bop (cfuse_b b1 u1 b2 u2) (cfuse_b d1 u1 d2 u2) (cfuse_u u1 u2) (cfuse_a eps a1 u1 a2 u2).
Proof. exact bcfuse_defined. Qed.
Print Assumptions cfuse_defined_wf.

(* the closed form, written out *)
Theorem cfuse_closed_form : forall eps b1 u1 b2 u2 a1 a2,
  cfuse_b b1 u1 b2 u2 = (b1 * u2 + b2 * u1) / (u1 + u2 - u1 * u2) /\
  cfuse_u u1 u2 = u1 * u2 / (u1 + u2 - u1 * u2) /\
  (u1 < 1 - 2 * eps \/ u2 < 1 - 2 * eps ->
   cfuse_a eps a1 u1 a2 u2 =
   (a1 * u2 * (1 - u1) + a2 * u1 * (1 - u2)) / (u2 * (1 - u1) + u1 * (1 - u2))).
Proof. intros eps b1 u1 b2 u2 a1 a2. split; [reflexivity|]. split; [reflexivity|]. exact (cfuse_a_generic eps a1 u1 a2 u2). Qed.
Print Assumptions cfuse_closed_form.

(* an error instead of a value exactly when both operands are dogmatic *)
Theorem cfuse_err_iff_both_dogmatic : forall eps, 0 <= eps <= 1/8 -> forall b1 d1 u1 a1 b2 d2 u2 a2,
  wf_bop b1 d1 u1 a1 -> wf_bop b2 d2 u2 a2 ->
  (bcfuse (B:=FldR) eps (bopR b1 d1 u1 a1) (bopR b2 d2 u2 a2) = None <-> u1 = 0 /\ u2 = 0).
Proof. exact bcfuse_err_iff. Qed.
Print Assumptions cfuse_err_iff_both_dogmatic.

(* binomial cfuse = multinomial aleatory cumulative fusion on the converted operands: the whole
   multinomial result is the conversion of (b, d, u, am) where (b, d, u, a) is the binomial result;
   am = a unless the multinomial "base rates approximately equal" shortcut fires, in which case
   am = a1 and |a1 - a2| <= eps; hence am = a whenever a1 = a2 or |a1 - a2| > eps (always at
   eps = 0), and |am - a| <= eps in every case *)
Theorem cfuse_eq_acm : forall eps, 0 <= eps <= 1/8 -> forall b1 d1 u1 a1 b2 d2 u2 a2,
  wf_bop b1 d1 u1 a1 -> wf_bop b2 d2 u2 a2 -> crisp eps u1 -> crisp eps u2 -> ~ (u1 = 0 /\ u2 = 0) ->
  let X := bopR b1 d1 u1 a1 in let Y := bopR b2 d2 u2 a2 in
  let b := cfuse_b b1 u1 b2 u2 in let d := cfuse_b d1 u1 d2 u2 in
  let u := cfuse_u u1 u2 in let a := cfuse_a eps a1 u1 a2 u2 in
  bcfuse (B:=FldR) eps X Y = Some (bopR b d u a) /\ wf_bop b d u a /\
  exists am,
    fuse (B:=FldR) eps ACm false (bop_to_mul X) (bop_to_mul Y) = bop_to_mul (bopR b d u am) /\
    mul_to_bop (fuse (B:=FldR) eps ACm false (bop_to_mul X) (bop_to_mul Y)) = bopR b d u am /\
    wf_bop b d u am /\
    (am = a \/ (am = a1 /\ Rabs (a1 - a2) <= eps)) /\
    (a1 = a2 \/ eps < Rabs (a1 - a2) -> am = a) /\
    Rabs (am - a) <= eps.
Proof. exact BiFuse.cfuse_eq_acm. Qed.
Print Assumptions cfuse_eq_acm.

(* the exclusion of uncertainties in (0, eps] is necessary *)
Theorem cfuse_slack_excluded :
  let eps := 1/8 in
  let X := bopR (1/2) (3/8) (1/8) (1/2) in let Y := bopR (1/4) (1/4) (1/2) (1/2) in
  wf_bop (1/2) (3/8) (1/8) (1/2) /\ wf_bop (1/4) (1/4) (1/2) (1/2) /\
  (exists r, bcfuse (B:=FldR) eps X Y = Some r /\ bu r = Some (1/9)) /\
  bu (mul_to_bop (fuse (B:=FldR) eps ACm false (bop_to_mul X) (bop_to_mul Y))) = Some (1/8).
Proof. exact cfuse_slack_witness. Qed.
Print Assumptions cfuse_slack_excluded.

(* ------------------------------------------- averaging and weighted fusion *)

(* never an error on well-formed operands with a weight in [0,1]; the result is [bafuseR] /
   [bwfuseR]: non-negative, base rate in [0,1], sum in [1 - eps, 1] ([wf4a]) and exactly
   well-formed ([wf4]) unless both uncertainties are <= eps without both being 0 *)
Theorem afuse_never_fails : forall eps, 0 <= eps <= 1/8 -> forall b1 d1 u1 a1 b2 d2 u2 a2 g,
  wf_bop b1 d1 u1 a1 -> wf_bop b2 d2 u2 a2 -> 0 <= g <= 1 ->
  bafuse (B:=FldR) eps (bopR b1 d1 u1 a1) (bopR b2 d2 u2 a2) (Some g) =
    Some (bop4 (bafuseR eps b1 d1 u1 a1 b2 d2 u2 a2 g)) /\
  wf4a eps (bafuseR eps b1 d1 u1 a1 b2 d2 u2 a2 g) /\
  (is_zero (B:=FldR) eps (Some u1) && is_zero (B:=FldR) eps (Some u2) = false \/ (u1 = 0 /\ u2 = 0) ->
   wf4 (bafuseR eps b1 d1 u1 a1 b2 d2 u2 a2 g)).
Proof.
  intros eps He b1 d1 u1 a1 b2 d2 u2 a2 g W1 W2 Hg.
  exact (conj (bafuse_defined eps He b1 d1 u1 a1 b2 d2 u2 a2 g W1 W2 Hg)
              (bafuse_wf4a eps He b1 d1 u1 a1 b2 d2 u2 a2 g W1 W2 Hg)).
Qed.
Print Assumptions afuse_never_fails.

Theorem wfuse_never_fails : forall eps, 0 <= eps <= 1/8 -> forall b1 d1 u1 a1 b2 d2 u2 a2 g,
  wf_bop b1 d1 u1 a1 -> wf_bop b2 d2 u2 a2 -> 0 <= g <= 1 ->
  bwfuse (B:=FldR) eps (bopR b1 d1 u1 a1) (bopR b2 d2 u2 a2) (Some g) =
    Some (bop4 (bwfuseR eps b1 d1 u1 a1 b2 d2 u2 a2 g)) /\
  wf4a eps (bwfuseR eps b1 d1 u1 a1 b2 d2 u2 a2 g) /\
  (is_zero (B:=FldR) eps (Some u1) && is_zero (B:=FldR) eps (Some u2) = false \/ (u1 = 0 /\ u2 = 0) ->
   wf4 (bwfuseR eps b1 d1 u1 a1 b2 d2 u2 a2 g)).
Proof.
  intros eps He b1 d1 u1 a1 b2 d2 u2 a2 g W1 W2 Hg.
  exact (conj (bwfuse_defined eps He b1 d1 u1 a1 b2 d2 u2 a2 g W1 W2 Hg)
              (bwfuse_wf4a eps He b1 d1 u1 a1 b2 d2 u2 a2 g W1 W2 Hg)).
Qed.
Print Assumptions wfuse_never_fails.

(* the closed forms: two dogmatic operands give the gamma-weighted mean ... *)
Theorem afuse_wfuse_dogmatic : forall eps, 0 <= eps <= 1/8 -> forall b1 d1 a1 b2 d2 a2 g,
  bafuseR eps b1 d1 0 a1 b2 d2 0 a2 g = (gmean g b1 b2, gmean g d1 d2, 0, gmean g a1 a2) /\
  bwfuseR eps b1 d1 0 a1 b2 d2 0 a2 g = (gmean g b1 b2, gmean g d1 d2, 0, gmean g a1 a2).
Proof.
  intros eps He b1 d1 a1 b2 d2 a2 g.
  exact (conj (bafuseR_dogmatic eps He b1 d1 a1 b2 d2 a2 g) (bwfuseR_dogmatic eps He b1 d1 a1 b2 d2 a2 g)).
Qed.
Print Assumptions afuse_wfuse_dogmatic.

(* ... and away from the guards the textbook formulas *)
Theorem afuse_wfuse_generic : forall eps b1 d1 u1 a1 b2 d2 u2 a2 g, eps < u1 \/ eps < u2 ->
  bafuseR eps b1 d1 u1 a1 b2 d2 u2 a2 g =
    ((b1 * u2 + b2 * u1) / (u1 + u2), (d1 * u2 + d2 * u1) / (u1 + u2), 2 * u1 * u2 / (u1 + u2),
     (a1 + a2) / 2) /\
  (u1 < 1 - 2 * eps \/ u2 < 1 - 2 * eps ->
   bwfuseR eps b1 d1 u1 a1 b2 d2 u2 a2 g =
    ((b1 * (1 - u1) * u2 + b2 * (1 - u2) * u1) / (u1 * (1 - u2) + u2 * (1 - u1)),
     (d1 * (1 - u1) * u2 + d2 * (1 - u2) * u1) / (u1 * (1 - u2) + u2 * (1 - u1)),
     (1 - u1 + (1 - u2)) * u1 * u2 / (u1 * (1 - u2) + u2 * (1 - u1)),
     (a1 * (1 - u1) + a2 * (1 - u2)) / (1 - u1 + (1 - u2)))).
Proof.
  intros eps b1 d1 u1 a1 b2 d2 u2 a2 g H.
  exact (conj (bafuseR_generic eps b1 d1 u1 a1 b2 d2 u2 a2 g H)
              (bwfuseR_generic eps b1 d1 u1 a1 b2 d2 u2 a2 g H)).
Qed.
Print Assumptions afuse_wfuse_generic.

(* binomial afuse with equal weights = multinomial averaging fusion on the converted operands
   (including two dogmatic operands: the equal-weight mean); same reading of [am] as above *)
Theorem afuse_eq_avg : forall eps, 0 <= eps <= 1/8 -> forall b1 d1 u1 a1 b2 d2 u2 a2,
  wf_bop b1 d1 u1 a1 -> wf_bop b2 d2 u2 a2 -> crisp0 eps u1 -> crisp0 eps u2 ->
  let X := bopR b1 d1 u1 a1 in let Y := bopR b2 d2 u2 a2 in
  let '(b, d, u, a) := bafuseR eps b1 d1 u1 a1 b2 d2 u2 a2 (1/2) in
  bafuse (B:=FldR) eps X Y (Some (1/2)) = Some (bopR b d u a) /\ wf_bop b d u a /\
  exists am,
    fuse (B:=FldR) eps Avg false (bop_to_mul X) (bop_to_mul Y) = bop_to_mul (bopR b d u am) /\
    mul_to_bop (fuse (B:=FldR) eps Avg false (bop_to_mul X) (bop_to_mul Y)) = bopR b d u am /\
    wf_bop b d u am /\
    (am = a \/ (am = a1 /\ Rabs (a1 - a2) <= eps)) /\
    (a1 = a2 \/ eps < Rabs (a1 - a2) -> am = a) /\
    Rabs (am - a) <= eps.
Proof. exact BiFuse.afuse_eq_avg. Qed.
Print Assumptions afuse_eq_avg.

(* binomial wfuse with equal weights = multinomial weighted fusion on the converted operands *)
Theorem wfuse_eq_wgh : forall eps, 0 <= eps <= 1/8 -> forall b1 d1 u1 a1 b2 d2 u2 a2,
  wf_bop b1 d1 u1 a1 -> wf_bop b2 d2 u2 a2 -> crisp eps u1 -> crisp eps u2 ->
  let X := bopR b1 d1 u1 a1 in let Y := bopR b2 d2 u2 a2 in
  let '(b, d, u, a) := bwfuseR eps b1 d1 u1 a1 b2 d2 u2 a2 (1/2) in
  bwfuse (B:=FldR) eps X Y (Some (1/2)) = Some (bopR b d u a) /\ wf_bop b d u a /\
  exists am,
    fuse (B:=FldR) eps Wgh false (bop_to_mul X) (bop_to_mul Y) = bop_to_mul (bopR b d u am) /\
    mul_to_bop (fuse (B:=FldR) eps Wgh false (bop_to_mul X) (bop_to_mul Y)) = bopR b d u am /\
    wf_bop b d u am /\
    (am = a \/ (am = a1 /\ Rabs (a1 - a2) <= eps)) /\
    (a1 = a2 \/ eps < Rabs (a1 - a2) -> am = a) /\
    Rabs (am - a) <= eps.
Proof. exact BiFuse.wfuse_eq_wgh. Qed.
Print Assumptions wfuse_eq_wgh.

(* non-vacuity: concrete non-trivial operands meeting every hypothesis used above
   (eps = 2^-52-like tolerance replaced by 1/1024 for readability) *)
Example c13_nonvacuous :
  0 <= 1/1024 <= 1/8 /\
  wf_bop (1/2) (1/5) (3/10) (2/5) /\ wf_bop (1/4) (1/4) (1/2) (7/10) /\ wf_bop (1/3) (2/3) 0 (1/2) /\
  wf_bop 0 0 1 (1/4) /\
  crisp (1/1024) (3/10) /\ crisp (1/1024) (1/2) /\ crisp (1/1024) 0 /\ crisp (1/1024) 1 /\
  crisp0 (1/1024) (3/10) /\ ~ (3/10 = 0 /\ 1/2 = 0).
Proof. unfold wf_bop, crisp, crisp0. repeat split; lra. Qed.
