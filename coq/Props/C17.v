(* C17 - Multi-arrays store, iterate and index the same cells in the same order.
   Only statements, each closed by [exact]; proofs are in Facts/ArrFacts.v.

   Vocabulary (Model/ArrSpec.v): an array of dimensions [dims] is, abstractly, the flat list
   [flatten a] of [total dims] cells, the cell of index tuple [k] being at the row-major offset
   [offset dims k]; [lex dims] is the enumeration of the index tuples (C18); [shaped dims a]
   says that the nested storage has the declared lengths at every level.
   [rank13 dims] is 1 <= length dims <= 3 (the ranks the crate has); every theorem holds for
   both families and ALL sizes, zero-sized dimensions included. *)
From Coq Require Import List Bool Arith ZArith Lia.
Import ListNotations.
From SL Require Import Model.Arr Model.ArrSpec Facts.ArrFacts.
Local Open Scope nat_scope.

(* from_fn never panics, yields the declared shape and stores g k at index k *)
Theorem from_fn_index : forall f dims g, rank13 dims ->
  exists a, from_fn f dims g = Ok a /\ shaped dims a /\ flatten a = map g (lex dims) /\
            forall k, In k (lex dims) -> get a k = Ok (g k).
Proof. exact from_fn_index_lemma. Qed.
Print Assumptions from_fn_index.

Theorem zeros_all_zero : forall f dims, rank13 dims ->
  exists a, zeros f dims = Ok a /\ shaped dims a /\ flatten a = repeat 0%Z (total dims).
Proof. exact zeros_spec. Qed.
Print Assumptions zeros_all_zero.

(* from_iter fills the cells in row-major order from the first [total dims] elements of the
   stream (rank 1: the stream must have exactly that many) ... *)
Theorem from_iter_row_major : forall f dims vs, rank13 dims -> total dims <= length vs ->
  (length dims = 1 -> length vs = total dims) ->
  exists a, from_iter f dims vs = Ok a /\ shaped dims a /\ flatten a = firstn (total dims) vs.
Proof. exact from_iter_ok. Qed.
Print Assumptions from_iter_row_major.

(* ... and panics on a short stream (ranks 2, 3, and labelled rank 1), and on a long one for
   labelled rank 1 *)
Theorem from_iter_short_panics : forall f dims vs, rank13 dims -> length vs < total dims ->
  f = Labelled \/ 2 <= length dims -> from_iter f dims vs = Panic.
Proof. exact from_iter_short. Qed.
Print Assumptions from_iter_short_panics.

Theorem from_iter_labelled_rank1_exact : forall n vs, length vs <> n -> from_iter Labelled [n] vs = Panic.
Proof. exact from_iter_lab1_long. Qed.
Print Assumptions from_iter_labelled_rank1_exact.

(* FINDING (true of the Rust code, non_labeled.rs:184-188): the unlabelled rank-1 FromIterator
   does not check the length, so the result need not have the declared shape, and an index
   outside the declared shape is then served instead of refused. *)
Theorem from_iter_unlabelled_rank1_unchecked_refuted :
  exists n vs a, from_iter Unlabelled [n] vs = Ok a /\ ~ shaped [n] a /\
                 get a [n] = Ok 3%Z /\ ~ In [n] (lex [n]).
Proof. exact from_iter_unlabelled_rank1_unchecked. Qed.
Print Assumptions from_iter_unlabelled_rank1_unchecked_refuted.

(* the flattening Iter state machine yields exactly the cells, in row-major order *)
Theorem iter_is_flatten : forall dims a, shaped dims a -> iter_arr a = flatten a.
Proof. exact iter_is_flatten_lemma. Qed.
Print Assumptions iter_is_flatten.

(* IterMut hands out the cells in the order of the index enumeration, and the enumerate()d
   update through it rewrites cell number i, and only it, with [cell_update c x i] *)
Theorem iter_mut_same_order : forall dims a, shaped dims a -> iter_mut_order a = lex dims.
Proof. exact iter_mut_order_lex. Qed.
Print Assumptions iter_mut_same_order.

Theorem iter_mut_updates_each_cell : forall dims a c, shaped dims a ->
  shaped dims (fst (iter_mut a c)) /\
  flatten (fst (iter_mut a c)) = mapi_from (fun i x => cell_update c x i) 0 (flatten a) /\
  snd (iter_mut a c) = total dims.
Proof. exact iter_mut_mapi. Qed.
Print Assumptions iter_mut_updates_each_cell.

(* Container::iter_with pairs the i-th index tuple with the i-th cell *)
Theorem iter_with_pairs : forall f dims a, shaped dims a ->
  iter_with f dims a = Ok (combine (lex dims) (flatten a)).
Proof. exact iter_with_lemma. Qed.
Print Assumptions iter_with_pairs.

(* indexing reads the cell at the row-major offset; an index outside the shape (wrong
   coordinate or wrong length) is refused, never aliased to another cell *)
Theorem index_in_shape_only : forall dims a k, shaped dims a ->
  (forall v, get a k = Ok v -> In k (lex dims) /\ nth_error (flatten a) (offset dims k) = Some v) /\
  (~ In k (lex dims) -> get a k = Panic).
Proof. exact index_in_shape_only_lemma. Qed.
Print Assumptions index_in_shape_only.

Theorem index_total_on_shape : forall dims a k, shaped dims a -> In k (lex dims) ->
  exists v, get a k = Ok v /\ nth_error (flatten a) (offset dims k) = Some v.
Proof. exact get_in. Qed.
Print Assumptions index_total_on_shape.

(* a write through an index changes that cell only, and keeps the shape *)
Theorem set_get : forall dims a k v a', shaped dims a -> set a k v = Ok a' ->
  In k (lex dims) /\ shaped dims a' /\
  flatten a' = upd (flatten a) (offset dims k) (fun _ => v) /\
  get a' k = Ok v /\
  (forall k', k' <> k -> get a' k' = get a k').
Proof. exact set_get_lemma. Qed.
Print Assumptions set_get.

Theorem set_defined_on_shape_only : forall dims a k v, shaped dims a ->
  (In k (lex dims) -> exists a', set a k v = Ok a') /\ (~ In k (lex dims) -> set a k v = Panic).
Proof. exact set_defined_iff. Qed.
Print Assumptions set_defined_on_shape_only.

(* down(i): the i-th sub-array is the i-th slice of the cells; refused when i is out of range
   or the array has rank 1 *)
Theorem down_is_slice : forall dims a i, shaped dims a ->
  match dims with
  | n0 :: ((_ :: _) as ds) =>
      (i < n0 -> exists s, down a i = Ok s /\ shaped ds s /\
                           flatten s = firstn (total ds) (skipn (i * total ds) (flatten a))) /\
      (n0 <= i -> down a i = Panic)
  | _ => down a i = Panic
  end.
Proof. exact down_spec. Qed.
Print Assumptions down_is_slice.

(* every labelled constructor yields the declared shape, or fails *)
Theorem labelled_shape_inv :
  (forall dims vs a, from_iter Labelled dims vs = Ok a -> shaped dims a) /\
  (forall dims g a, from_fn Labelled dims g = Ok a -> shaped dims a) /\
  (forall dims a a', from_nested dims a = Ok a' -> a' = a /\ shaped dims a) /\
  (forall dims a a', length dims = arank a -> try_from Labelled dims a = TfOk a' -> shaped dims a') /\
  (forall v0 v1 a, product2 Labelled v0 v1 = Ok a -> shaped [length v0; length v1] a) /\
  (forall v0 v1 v2 a, product3 Labelled v0 v1 v2 = Ok a -> shaped [length v0; length v1; length v2] a).
Proof.
  split; [exact from_iter_labelled_shaped|]. split; [exact from_fn_labelled_shaped|].
  split; [exact from_nested_inv|]. split; [exact try_from_labelled_shaped|].
  exact product_labelled_shaped.
Qed.
Print Assumptions labelled_shape_inv.

(* outer products: defined, declared shape, row-major products (both families) *)
Theorem product_cells :
  (forall f v0 v1, exists a, product2 f v0 v1 = Ok a /\ shaped [length v0; length v1] a /\
      flatten a = flat_map (fun x => map (fun y => (x * y)%Z) v1) v0) /\
  (forall f v0 v1 v2, exists a, product3 f v0 v1 v2 = Ok a /\
      shaped [length v0; length v1; length v2] a /\
      flatten a = flat_map (fun x => flat_map (fun y => map (fun z => (x * y * z)%Z) v2) v1) v0).
Proof. split; [exact product2_spec | exact product3_spec]. Qed.
Print Assumptions product_cells.

(* element-wise fallible conversion of a correctly shaped array: an error iff some cell is
   negative, and then the error is the FIRST negative cell in row-major order; otherwise the
   array itself; never a panic *)
Theorem try_from_first_error : forall f dims a, shaped dims a ->
  (forall x, try_from f dims a = TfErr x <->
             exists l1 l2, flatten a = l1 ++ x :: l2 /\ (x < 0)%Z /\ Forall (fun y => (0 <= y)%Z) l1) /\
  (Forall (fun y => (0 <= y)%Z) (flatten a) <-> try_from f dims a = TfOk a) /\
  try_from f dims a <> TfPanic.
Proof. exact try_from_first_error_lemma. Qed.
Print Assumptions try_from_first_error.

(* Refinement: every program over ALL sixteen operations of the language (get, set, iter,
   iter_mut, iter_with, indexes, down, down_mut-set, clone/eq, neq-after-set, from_fn, from_iter,
   zeros, try_from, conv/as_ref, product) produces, on the nested-vector model, the observation
   log of the flat-list interpreter [spec_run], for ranks 1-3, both families, all sizes.
   Side conditions [wf_op] (ArrSpec.v): unlabelled rank-1 OFromIter gets exactly [total dims]
   cells (see the finding above); OTryFrom gets [total dims] cells, and for the unlabelled family
   not a shape with a zero inner dimension under a non-zero outer one (there the harness'
   [shape_input] builds no rows at all, which only the labelled family refuses); OProduct
   operands have the declared lengths.  Index tuples are unrestricted (any length, any value). *)
Theorem run_refines : forall f dims prog, rank13 dims -> Forall (wf_op f dims) prog ->
  run_program f dims prog = spec_run f dims prog.
Proof. exact run_refines_lemma. Qed.
Print Assumptions run_refines.

(* the invariant of that induction, one step *)
Theorem step_keeps_shape_and_refines : forall f dims a o, rank13 dims -> wf_op f dims o -> shaped dims a ->
  shaped dims (fst (step f dims a o)) /\
  flatten (fst (step f dims a o)) = fst (spec_step f dims (flatten a) o) /\
  snd (step f dims a o) = snd (spec_step f dims (flatten a) o).
Proof. exact step_refines. Qed.
Print Assumptions step_keeps_shape_and_refines.

(* non-vacuity: a 2x0x3 and a 2x3 array, a program mixing writes, reads and iterations *)
Example c17_nonvacuous :
  rank13 [2; 3] /\
  (exists a, from_fn Labelled [2; 3] (lin 10 1 0 0) = Ok a /\ shaped [2; 3] a /\
             flatten a = [0; 1; 2; 10; 11; 12]%Z /\ get a [1; 2] = Ok 12%Z /\ get a [2; 0] = Panic /\
             get a [0; 3] = Panic /\ iter_arr a = [0; 1; 2; 10; 11; 12]%Z) /\
  (exists a, zeros Unlabelled [2; 0; 3] = Ok a /\ shaped [2; 0; 3] a /\ iter_arr a = [] /\
             iter_mut_order a = []) /\
  Forall (wf_op Unlabelled [2; 3]) [OFromFn 10 1 0 0; OSet [1; 1] 7; OGet [1; 1]; OGet [0; 3]; OIter; ODown 1; OIterMut 5; OIter] /\
  run_program Unlabelled [2; 3] [OFromFn 10 1 0 0; OSet [1; 1] 7; OGet [1; 1]; OGet [0; 3]; OIter; ODown 1; OIterMut 5; OIter]
  = [0; 0; 7; -1; 0; 1; 2; 10; 7; 12; -2; 10; 7; 12; -2; 6; 5; 9; 13; 38; 30; 46; -2]%Z.
Proof.
  split; [unfold rank13; cbn; lia|].
  split; [eexists; repeat split; try reflexivity; repeat constructor|].
  split; [eexists; repeat split; try reflexivity; repeat constructor|].
  split; [repeat constructor|]. vm_compute. reflexivity.
Qed.
