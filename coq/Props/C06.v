(* C06 - Opinion product is the well-formed, maximally uncertain independent joint.
   Only statements, each closed by [exact]; proofs are in Facts/Product.v.

   Operands: real lists/numbers with [wf_opinion b u a] (belief >= 0, u >= 0, sum b + u = 1, base
   rate >= 0 summing to 1, equal lengths).  Base-rate entries equal to 0 are allowed.  All theorems
   hold for every factor size (lists of any length) and every guard tolerance 0 <= eps <= 1/8.
   The joint domain is flattened in row-major order: cell (i, j) of an n0 x n1 product is entry
   [i * n1 + j], cell (i, j, k) of an n0 x n1 x n2 product is entry [(i * n1 + j) * n2 + k].

   Real-valued counterparts (defined in Facts/Product.v):
     projR b u a        = [b_i + a_i u]_i                      (projected probability)
     outerR l0 l1       = [l0_i * l1_j]_(i,j), row major       (outer3R likewise)
     product2R w0 w1    = (prodB P Bd A, prodU P Bd A, A)  with
                          P = outerR (projR w0) (projR w1), Bd = outerR b0 b1, A = outerR a0 a1,
                          prodU = the model's NaN-skipping [vmin] of [(P_d - Bd_d) / A_d]_d,
                          prodB = [P_d - A_d * prodU]_d
     transposeR n0 n1 l = [l_(i * n1 + j)]_(j,i), row major    (transposition of a flattened matrix) *)
From Coq Require Import Reals List Lra.
Import ListNotations.
From SL Require Import Model.Num Model.Vec Model.Mul Model.InstR Facts.RBase Facts.Product.
Open Scope R_scope.

(* Key sub-lemma: on a list with at least one defined entry, [vmin] (f64::min skips NaN) returns the
   least defined entry; undefined entries (0/0 at cells with zero base rate) are ignored. *)
Theorem vmin_skips_undefined : forall l : list (option R),
  (exists x, In (Some x) l) ->
  exists m, vmin (B:=FldR) l = Some m /\ In (Some m) l /\ forall x, In (Some x) l -> m <= x.
Proof. exact vmin_least. Qed.
Print Assumptions vmin_skips_undefined.

(* The model's outer product of defined vectors is [outerR], and [outerR] is row-major. *)
Theorem outer_is_outerR : forall l0 l1,
  outer (B:=FldR) (map Some l0) (map Some l1) = map Some (outerR l0 l1).
Proof. exact outer_some. Qed.
Print Assumptions outer_is_outerR.

Theorem outerR_cell : forall l0 l1 i j, (i < length l0)%nat -> (j < length l1)%nat ->
  nth (i * length l1 + j) (outerR l0 l1) 0 = nth i l0 0 * nth j l1 0.
Proof. exact nth_outerR. Qed.
Print Assumptions outerR_cell.

Theorem outer3R_cell : forall l0 l1 l2 i j k,
  (i < length l0)%nat -> (j < length l1)%nat -> (k < length l2)%nat ->
  nth ((i * length l1 + j) * length l2 + k) (outer3R l0 l1 l2) 0 = nth i l0 0 * nth j l1 0 * nth k l2 0.
Proof. exact nth_outer3R. Qed.
Print Assumptions outer3R_cell.

(* The model's projection of a well-formed opinion is defined and equals b + a u (a distribution). *)
Theorem projection_is_projR : forall b u a, wf_opinion b u a ->
  projection (B:=FldR) (map Some b) (Some u) (map Some a) = map Some (projR b u a) /\
  wf_dist (projR b u a).
Proof. intros b u a H. exact (conj (projection_some b u a H) (projR_wf b u a H)). Qed.
Print Assumptions projection_is_projR.

(* Product2, unlabelled.  For all well-formed factors of any sizes:
   - the product is defined: no NaN, and the Opinion::new self-validation passes ([Some]);
   - the result (b, u, a) is a well-formed opinion on the n0 * n1 cells;
   - its base rate is the outer product of the base rates;
   - its projection is the outer product of the projections (list form and cell form);
   - every joint belief mass is at least the product of the factors' belief masses;
   - u a_d <= P_d - b0_i b1_j at every cell, with equality at some cell with a_d > 0,
     i.e. u = min over the cells with non-zero base rate of (P_d - b0_i b1_j) / a_d;
   - hence u is the largest value that keeps every joint belief mass P_d - a_d v at least the
     product of the factors' belief masses. *)
Theorem product2_spec : forall eps b0 u0 a0 b1 u1 a1 b u a,
  0 <= eps <= 1/8 -> wf_opinion b0 u0 a0 -> wf_opinion b1 u1 a1 ->
  product2R b0 u0 a0 b1 u1 a1 = (b, u, a) ->
  let n0 := length b0 in let n1 := length b1 in
  let P0 := projR b0 u0 a0 in let P1 := projR b1 u1 a1 in
  product2 (B:=FldR) eps (map Some b0, Some u0, map Some a0) (map Some b1, Some u1, map Some a1)
    = Some (map Some b, Some u, map Some a) /\
  wf_opinion b u a /\
  a = outerR a0 a1 /\
  projR b u a = outerR P0 P1 /\
  (forall i j, (i < n0)%nat -> (j < n1)%nat ->
     nth (i * n1 + j) b 0 + nth i a0 0 * nth j a1 0 * u = nth i P0 0 * nth j P1 0 /\
     nth i b0 0 * nth j b1 0 <= nth (i * n1 + j) b 0 /\
     u * (nth i a0 0 * nth j a1 0) <= nth i P0 0 * nth j P1 0 - nth i b0 0 * nth j b1 0) /\
  (exists i j, (i < n0)%nat /\ (j < n1)%nat /\ 0 < nth i a0 0 * nth j a1 0 /\
     u * (nth i a0 0 * nth j a1 0) = nth i P0 0 * nth j P1 0 - nth i b0 0 * nth j b1 0) /\
  (forall v, (forall i j, (i < n0)%nat -> (j < n1)%nat ->
       nth i b0 0 * nth j b1 0 <= nth i P0 0 * nth j P1 0 - nth i a0 0 * nth j a1 0 * v) -> v <= u).
Proof. exact Product.product2_spec. Qed.
Print Assumptions product2_spec.

(* The labelled Product2 (base rate renormalised, no validation) returns the same opinion: its
   renormalisation divides by exactly 1. *)
Theorem product2_lab_eq : forall eps b0 u0 a0 b1 u1 a1,
  0 <= eps <= 1/8 -> wf_opinion b0 u0 a0 -> wf_opinion b1 u1 a1 ->
  product2 (B:=FldR) eps (map Some b0, Some u0, map Some a0) (map Some b1, Some u1, map Some a1)
  = Some (product2_lab (B:=FldR) (map Some b0, Some u0, map Some a0) (map Some b1, Some u1, map Some a1)) /\
  forall b u a, product2R b0 u0 a0 b1 u1 a1 = (b, u, a) ->
  product2_lab (B:=FldR) (map Some b0, Some u0, map Some a0) (map Some b1, Some u1, map Some a1)
  = (map Some b, Some u, map Some a).
Proof. exact Product.product2_lab_eq. Qed.
Print Assumptions product2_lab_eq.

(* Swapping the factors transposes belief and base rate and keeps u (both implementations). *)
Theorem product2_transpose : forall eps b0 u0 a0 b1 u1 a1 b u a,
  0 <= eps <= 1/8 -> wf_opinion b0 u0 a0 -> wf_opinion b1 u1 a1 ->
  product2R b0 u0 a0 b1 u1 a1 = (b, u, a) ->
  let n0 := length b0 in let n1 := length b1 in
  product2R b1 u1 a1 b0 u0 a0 = (transposeR n0 n1 b, u, transposeR n0 n1 a) /\
  product2 (B:=FldR) eps (map Some b1, Some u1, map Some a1) (map Some b0, Some u0, map Some a0)
    = Some (map Some (transposeR n0 n1 b), Some u, map Some (transposeR n0 n1 a)) /\
  product2_lab (B:=FldR) (map Some b1, Some u1, map Some a1) (map Some b0, Some u0, map Some a0)
    = (map Some (transposeR n0 n1 b), Some u, map Some (transposeR n0 n1 a)).
Proof. exact Product.product2_transpose. Qed.
Print Assumptions product2_transpose.

(* [transposeR] is the transposition: entry (j, i) of the result is entry (i, j) of the argument. *)
Theorem transposeR_cell : forall n0 n1 l i j, (i < n0)%nat -> (j < n1)%nat ->
  nth (j * n0 + i) (transposeR n0 n1 l) 0 = nth (i * n1 + j) l 0.
Proof. exact transposeR_nth. Qed.
Print Assumptions transposeR_cell.

(* vacuous x vacuous is vacuous; dogmatic x dogmatic is dogmatic with b = outer b0 b1 *)
Theorem product2_vacuous : forall eps b0 a0 b1 a1,
  0 <= eps <= 1/8 -> wf_opinion b0 1 a0 -> wf_opinion b1 1 a1 ->
  product2 (B:=FldR) eps (map Some b0, Some 1, map Some a0) (map Some b1, Some 1, map Some a1)
  = Some (map Some (map (fun _ => 0) (outerR a0 a1)), Some 1, map Some (outerR a0 a1)).
Proof. exact Product.product2_vacuous. Qed.
Print Assumptions product2_vacuous.

Theorem product2_dogmatic : forall eps b0 a0 b1 a1,
  0 <= eps <= 1/8 -> wf_opinion b0 0 a0 -> wf_opinion b1 0 a1 ->
  product2 (B:=FldR) eps (map Some b0, Some 0, map Some a0) (map Some b1, Some 0, map Some a1)
  = Some (map Some (outerR b0 b1), Some 0, map Some (outerR a0 a1)).
Proof. exact Product.product2_dogmatic. Qed.
Print Assumptions product2_dogmatic.

(* Product3, unlabelled and labelled: the same statement for three factors. *)
Theorem product3_spec : forall eps b0 u0 a0 b1 u1 a1 b2 u2 a2 b u a,
  0 <= eps <= 1/8 -> wf_opinion b0 u0 a0 -> wf_opinion b1 u1 a1 -> wf_opinion b2 u2 a2 ->
  product3R b0 u0 a0 b1 u1 a1 b2 u2 a2 = (b, u, a) ->
  let n0 := length b0 in let n1 := length b1 in let n2 := length b2 in
  let P0 := projR b0 u0 a0 in let P1 := projR b1 u1 a1 in let P2 := projR b2 u2 a2 in
  product3 (B:=FldR) eps (map Some b0, Some u0, map Some a0) (map Some b1, Some u1, map Some a1)
           (map Some b2, Some u2, map Some a2)
    = Some (map Some b, Some u, map Some a) /\
  product3_lab (B:=FldR) (map Some b0, Some u0, map Some a0) (map Some b1, Some u1, map Some a1)
           (map Some b2, Some u2, map Some a2)
    = (map Some b, Some u, map Some a) /\
  wf_opinion b u a /\
  a = outer3R a0 a1 a2 /\
  projR b u a = outer3R P0 P1 P2 /\
  (forall i j k, (i < n0)%nat -> (j < n1)%nat -> (k < n2)%nat ->
     let d := ((i * n1 + j) * n2 + k)%nat in
     nth d b 0 + nth i a0 0 * nth j a1 0 * nth k a2 0 * u = nth i P0 0 * nth j P1 0 * nth k P2 0 /\
     nth i b0 0 * nth j b1 0 * nth k b2 0 <= nth d b 0 /\
     u * (nth i a0 0 * nth j a1 0 * nth k a2 0)
       <= nth i P0 0 * nth j P1 0 * nth k P2 0 - nth i b0 0 * nth j b1 0 * nth k b2 0) /\
  (exists i j k, (i < n0)%nat /\ (j < n1)%nat /\ (k < n2)%nat /\
     0 < nth i a0 0 * nth j a1 0 * nth k a2 0 /\
     u * (nth i a0 0 * nth j a1 0 * nth k a2 0)
       = nth i P0 0 * nth j P1 0 * nth k P2 0 - nth i b0 0 * nth j b1 0 * nth k b2 0) /\
  (forall v, (forall i j k, (i < n0)%nat -> (j < n1)%nat -> (k < n2)%nat ->
       nth i b0 0 * nth j b1 0 * nth k b2 0
       <= nth i P0 0 * nth j P1 0 * nth k P2 0 - nth i a0 0 * nth j a1 0 * nth k a2 0 * v) -> v <= u).
Proof. exact Product.product3_spec. Qed.
Print Assumptions product3_spec.

(* Permuting the factors permutes the cells and keeps u: swap of factors 0,1 and of factors 1,2
   (these two transpositions generate all six orders).  Stated cell by cell; together with the
   equal lengths this determines the whole swapped result. *)
Theorem product3_swap01 : forall b0 u0 a0 b1 u1 a1 b2 u2 a2 b u a b' u' a',
  wf_opinion b0 u0 a0 -> wf_opinion b1 u1 a1 -> wf_opinion b2 u2 a2 ->
  product3R b0 u0 a0 b1 u1 a1 b2 u2 a2 = (b, u, a) ->
  product3R b1 u1 a1 b0 u0 a0 b2 u2 a2 = (b', u', a') ->
  let n0 := length b0 in let n1 := length b1 in let n2 := length b2 in
  u' = u /\ length b' = length b /\ length a' = length a /\
  forall i j k, (i < n0)%nat -> (j < n1)%nat -> (k < n2)%nat ->
    nth ((j * n0 + i) * n2 + k) b' 0 = nth ((i * n1 + j) * n2 + k) b 0 /\
    nth ((j * n0 + i) * n2 + k) a' 0 = nth ((i * n1 + j) * n2 + k) a 0.
Proof. exact Product.product3_swap01. Qed.
Print Assumptions product3_swap01.

Theorem product3_swap12 : forall b0 u0 a0 b1 u1 a1 b2 u2 a2 b u a b' u' a',
  wf_opinion b0 u0 a0 -> wf_opinion b1 u1 a1 -> wf_opinion b2 u2 a2 ->
  product3R b0 u0 a0 b1 u1 a1 b2 u2 a2 = (b, u, a) ->
  product3R b0 u0 a0 b2 u2 a2 b1 u1 a1 = (b', u', a') ->
  let n0 := length b0 in let n1 := length b1 in let n2 := length b2 in
  u' = u /\ length b' = length b /\ length a' = length a /\
  forall i j k, (i < n0)%nat -> (j < n1)%nat -> (k < n2)%nat ->
    nth ((i * n2 + k) * n1 + j) b' 0 = nth ((i * n1 + j) * n2 + k) b 0 /\
    nth ((i * n2 + k) * n1 + j) a' 0 = nth ((i * n1 + j) * n2 + k) a 0.
Proof. exact Product.product3_swap12. Qed.
Print Assumptions product3_swap12.

Theorem product3_vacuous : forall eps b0 a0 b1 a1 b2 a2,
  0 <= eps <= 1/8 -> wf_opinion b0 1 a0 -> wf_opinion b1 1 a1 -> wf_opinion b2 1 a2 ->
  product3 (B:=FldR) eps (map Some b0, Some 1, map Some a0) (map Some b1, Some 1, map Some a1)
           (map Some b2, Some 1, map Some a2)
  = Some (map Some (map (fun _ => 0) (outer3R a0 a1 a2)), Some 1, map Some (outer3R a0 a1 a2)).
Proof. exact Product.product3_vacuous. Qed.
Print Assumptions product3_vacuous.

Theorem product3_dogmatic : forall eps b0 a0 b1 a1 b2 a2,
  0 <= eps <= 1/8 -> wf_opinion b0 0 a0 -> wf_opinion b1 0 a1 -> wf_opinion b2 0 a2 ->
  product3 (B:=FldR) eps (map Some b0, Some 0, map Some a0) (map Some b1, Some 0, map Some a1)
           (map Some b2, Some 0, map Some a2)
  = Some (map Some (outer3R b0 b1 b2), Some 0, map Some (outer3R a0 a1 a2)).
Proof. exact Product.product3_dogmatic. Qed.
Print Assumptions product3_dogmatic.

(* The uncertainty computed by the four products (validated or labelled, two or three factors) is never negative,
   whatever the operands: finite or not, well-formed or only accepted up to the constructors' tolerance (for which
   the smallest quotient (P - b0 b1)/a can be a negative residue).  [nonneg_u o]: the uncertainty of o is NaN or >= 0. *)
Theorem products_uncertainty_never_negative : forall eps (w0 w1 w2 : @opinion FldR),
  (forall o, product2 eps w0 w1 = Some o -> nonneg_u o) /\ nonneg_u (product2_lab w0 w1) /\
  (forall o, product3 eps w0 w1 w2 = Some o -> nonneg_u o) /\ nonneg_u (product3_lab w0 w1 w2).
Proof. exact Product.products_u_nonneg. Qed.
Print Assumptions products_uncertainty_never_negative.

(* non-vacuity: the hypotheses are met by concrete, non-trivial operands of different sizes, one of
   them with a zero base-rate entry (so that the 0/0 cells skipped by [vmin] do occur) *)
Example c06_nonvacuous :
  wf_opinion [1/4; 1/4] (1/2) [1; 0] /\
  wf_opinion [1/2; 1/4; 0] (1/4) [1/2; 1/4; 1/4] /\
  wf_opinion [0; 0] 1 [1/3; 2/3] /\ wf_opinion [1/3; 2/3] 0 [1/2; 1/2].
Proof.
  unfold wf_opinion, wf_simplex, wf_dist, nonneg; cbn.
  repeat split; try (repeat constructor; lra); lra.
Qed.
