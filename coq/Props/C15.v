(* C15 - Renaming the values of a domain only renames the result.
   Only statements, each closed by [exact]; proofs are in Facts/Equivariance.v.

   FORMULATION (used throughout).  A renaming of a domain of size [n] is a list of positions
   [s] with [is_perm s n := Permutation s (seq 0 n)].  It acts on a vector by
       perm d s v := map (fun i => nth i v d) s
   (entry [k] of the renamed vector is the old entry number [nth k s]); [d] is only a default:
     pv s v  := perm None s v          on vectors of model numbers   (= map (get v) s),
     pc s cs := perm ([], None) s cs   on lists of simplexes (the rows of a conditional table),
     ps s (b, u)    := (pv s b, u)            a simplex with renamed values,
     po s (b, u, a) := (pv s b, u, pv s a)    an opinion with renamed values,
     iperm s0 s1 n1 := the renaming induced on the row-major flattening of a joint domain
                       (position i * n1 + j for i in s0, j in s1).
   A conditional table X -> Y is a list [conds] of |X| simplexes over Y: renaming X is
   [pc s conds] (together with [pv s] on every vector over X), renaming Y is
   [map (ps t) conds] (together with [pv t] on every vector over Y).

   All theorems hold for ARBITRARY model operands over the reals - entries may be undefined
   ([None] = NaN), nothing has to be non-negative or normalised, every domain size, every
   guard tolerance [eps] - the only hypotheses are shape hypotheses (each operand has the
   length of its domain).  "Changes nothing else" is the equality itself: the uncertainty
   mass, the [None]/[Some] outcome and every entry are the renamed ones. *)
From Coq Require Import Reals List Lra Permutation QArith.
Import ListNotations.
From SL Require Import Model.Num Model.Vec Model.Mul Model.InstR Model.InstQ Facts.RBase
                       Facts.Equivariance.
Open Scope R_scope.

(* a renaming only rearranges: the renamed vector is a permutation of the original *)
Theorem renaming_is_rearrangement : forall (X : Type) (d : X) s n (v : list X),
  is_perm s n -> length v = n -> Permutation (perm d s v) v.
Proof. exact @perm_Permutation. Qed.
Print Assumptions renaming_is_rearrangement.

Theorem induced_renaming_is_renaming : forall s0 n0 s1 n1,
  is_perm s0 n0 -> is_perm s1 n1 -> is_perm (iperm s0 s1 n1) (n0 * n1).
Proof. exact iperm_is_perm. Qed.
Print Assumptions induced_renaming_is_renaming.

(* the reductions of the crate are order-independent, also in the presence of NaN *)
Theorem reductions_order_independent : forall l l' : list RV, Permutation l l' ->
  vsum l = vsum l' /\ vmin l = vmin l' /\ vmax l = vmax l'.
Proof.
  intros l l' H. exact (conj (vsum_Permutation l l' H)
                             (conj (vmin_Permutation l l' H) (vmax_Permutation l l' H))).
Qed.
Print Assumptions reductions_order_independent.

(* ---------------------------------------------------------------- 1. unary operators *)
Theorem projection_equivariant : forall s n b u a,
  is_perm s n -> length b = n -> length a = n ->
  projection (B:=FldR) (pv s b) u (pv s a) = pv s (projection b u a).
Proof. intros s n b u a H. exact (Equivariance.projection_equivariant s n H b u a). Qed.
Print Assumptions projection_equivariant.

Theorem max_uncertainty_invariant : forall eps s n b u a,
  is_perm s n -> length b = n -> length a = n ->
  max_uncertainty (B:=FldR) eps (pv s b) u (pv s a) = max_uncertainty eps b u a.
Proof. intros eps s n b u a H. exact (Equivariance.max_uncertainty_invariant eps s n H b u a). Qed.
Print Assumptions max_uncertainty_invariant.

Theorem uncertainty_maximized_equivariant : forall eps s n b u a,
  is_perm s n -> length b = n -> length a = n ->
  uncertainty_maximized (B:=FldR) eps (pv s b) u (pv s a) = ps s (uncertainty_maximized eps b u a).
Proof. intros eps s n b u a H. exact (Equivariance.uncertainty_maximized_equivariant eps s n H b u a). Qed.
Print Assumptions uncertainty_maximized_equivariant.

Theorem discount_equivariant : forall eps s n b u t,
  is_perm s n -> length b = n ->
  discount (B:=FldR) eps (pv s b) u t = ps s (discount eps b u t).
Proof. intros eps s n b u t H. exact (Equivariance.discount_equivariant eps s n H b u t). Qed.
Print Assumptions discount_equivariant.

Theorem normalized_equivariant : forall s n b u,
  is_perm s n -> length b = n ->
  normalized (B:=FldR) (pv s b) u = ps s (normalized b u).
Proof. intros s n b u H. exact (Equivariance.normalized_equivariant s n H b u). Qed.
Print Assumptions normalized_equivariant.

Theorem normalize_dist_equivariant : forall s n p,
  is_perm s n -> length p = n ->
  normalize_dist (B:=FldR) (pv s p) = pv s (normalize_dist p).
Proof. intros s n p H. exact (Equivariance.normalize_dist_equivariant s n H p). Qed.
Print Assumptions normalize_dist_equivariant.

(* ------------------------------------------------------------------------ 2. fusion *)
(* all four operators, belief part ... *)
Theorem fuse_simplex_equivariant : forall eps s n op lb lu rb ru,
  is_perm s n -> length lb = n -> length rb = n ->
  compute_simplex (B:=FldR) eps op (pv s lb, lu) (pv s rb, ru)
  = ps s (compute_simplex eps op (lb, lu) (rb, ru)).
Proof. intros eps s n op lb lu rb ru H. exact (compute_simplex_equivariant eps s n H op lb lu rb ru). Qed.
Print Assumptions fuse_simplex_equivariant.

(* ... base rate part ... *)
Theorem fuse_base_rate_equivariant : forall eps s n op same lu la ru ra,
  is_perm s n -> length la = n -> length ra = n ->
  compute_base_rate (B:=FldR) eps op same lu (pv s la) ru (pv s ra)
  = pv s (compute_base_rate eps op same lu la ru ra).
Proof. intros eps s n op same lu la ru ra H. exact (compute_base_rate_equivariant eps s n H op same lu la ru ra). Qed.
Print Assumptions fuse_base_rate_equivariant.

(* ... and the whole operator on opinions (ECm includes the uncertainty maximisation) *)
Theorem fuse_equivariant : forall eps s n op same lb lu la rb ru ra,
  is_perm s n -> length lb = n -> length la = n -> length rb = n -> length ra = n ->
  fuse (B:=FldR) eps op same (pv s lb, lu, pv s la) (pv s rb, ru, pv s ra)
  = po s (fuse eps op same (lb, lu, la) (rb, ru, ra)).
Proof. intros eps s n op same lb lu la rb ru ra H. exact (Equivariance.fuse_equivariant eps s n H op same lb lu la rb ru ra). Qed.
Print Assumptions fuse_equivariant.

Theorem fuse_simplex_rhs_equivariant : forall eps s n op lb lu la rb ru,
  is_perm s n -> length lb = n -> length la = n -> length rb = n ->
  fuse_simplex_rhs (B:=FldR) eps op (pv s lb, lu, pv s la) (pv s rb, ru)
  = po s (fuse_simplex_rhs eps op (lb, lu, la) (rb, ru)).
Proof. intros eps s n op lb lu la rb ru H. exact (Equivariance.fuse_simplex_rhs_equivariant eps s n H op lb lu la rb ru). Qed.
Print Assumptions fuse_simplex_rhs_equivariant.

(* ---------------------------------------------------------- 3. marginal base rate *)
(* renaming X (base rate and rows of the table together) changes nothing *)
Theorem mbr_equivariant_x : forall eps s n ny ax conds,
  is_perm s n -> length ax = n -> length conds = n ->
  mbr (B:=FldR) eps ny (pv s ax) (pc s conds) = mbr eps ny ax conds.
Proof. exact Equivariance.mbr_equivariant_x. Qed.
Print Assumptions mbr_equivariant_x.

(* renaming Y inside every conditional renames the result (and keeps the error outcome) *)
Theorem mbr_equivariant_y : forall eps t ny ax conds, is_perm t ny ->
  mbr (B:=FldR) eps ny ax (map (ps t) conds) = option_map (pv t) (mbr eps ny ax conds).
Proof. exact Equivariance.mbr_equivariant_y. Qed.
Print Assumptions mbr_equivariant_y.

(* ------------------------------------------------------------------- 4. deduction *)
Theorem deduce_of_equivariant_x : forall s n bx ux ax conds ay,
  is_perm s n -> length bx = n -> length ax = n -> length conds = n ->
  deduce_of (B:=FldR) (pv s bx, ux, pv s ax) (pc s conds) ay = deduce_of (bx, ux, ax) conds ay.
Proof. exact Equivariance.deduce_of_equivariant_x. Qed.
Print Assumptions deduce_of_equivariant_x.

Theorem deduce_of_equivariant_y : forall t ny bx ux ax conds ay,
  is_perm t ny -> length ay = ny -> Forall (fun c => length (bel c) = ny) conds ->
  deduce_of (B:=FldR) (bx, ux, ax) (map (ps t) conds) (pv t ay)
  = po t (deduce_of (bx, ux, ax) conds ay).
Proof. exact Equivariance.deduce_of_equivariant_y. Qed.
Print Assumptions deduce_of_equivariant_y.

(* the public entry points: deduce (error outcome included) and deduce_with *)
Theorem deduce_equivariant_x : forall eps s n ny bx ux ax conds,
  is_perm s n -> length bx = n -> length ax = n -> length conds = n ->
  deduce (B:=FldR) eps ny (pv s bx, ux, pv s ax) (pc s conds) = deduce eps ny (bx, ux, ax) conds.
Proof. exact Equivariance.deduce_equivariant_x. Qed.
Print Assumptions deduce_equivariant_x.

Theorem deduce_equivariant_y : forall eps t ny bx ux ax conds,
  is_perm t ny -> Forall (fun c => length (bel c) = ny) conds ->
  deduce (B:=FldR) eps ny (bx, ux, ax) (map (ps t) conds)
  = option_map (po t) (deduce eps ny (bx, ux, ax) conds).
Proof. exact Equivariance.deduce_equivariant_y. Qed.
Print Assumptions deduce_equivariant_y.

Theorem deduce_with_equivariant_x : forall eps s n ny bx ux ax conds fb,
  is_perm s n -> length bx = n -> length ax = n -> length conds = n ->
  deduce_with (B:=FldR) eps ny (pv s bx, ux, pv s ax) (pc s conds) fb
  = deduce_with eps ny (bx, ux, ax) conds fb.
Proof. exact Equivariance.deduce_with_equivariant_x. Qed.
Print Assumptions deduce_with_equivariant_x.

Theorem deduce_with_equivariant_y : forall eps t ny bx ux ax conds fb,
  is_perm t ny -> Forall (fun c => length (bel c) = ny) conds -> length fb = ny ->
  deduce_with (B:=FldR) eps ny (bx, ux, ax) (map (ps t) conds) (pv t fb)
  = (po t (fst (deduce_with eps ny (bx, ux, ax) conds fb)),
     snd (deduce_with eps ny (bx, ux, ax) conds fb)).
Proof. exact Equivariance.deduce_with_equivariant_y. Qed.
Print Assumptions deduce_with_equivariant_y.

(* ------------------------------------------------------ 5. inversion and abduction *)
(* conds: |X| simplexes over Y; the result: |Y| simplexes over X.
   Renaming X renames the values inside every inverted conditional ... *)
Theorem inverse_equivariant_x : forall eps s n conds ax ay,
  is_perm s n -> length conds = n -> length ax = n ->
  inverse (B:=FldR) eps (pc s conds) (pv s ax) ay = map (ps s) (inverse eps conds ax ay).
Proof. exact Equivariance.inverse_equivariant_x. Qed.
Print Assumptions inverse_equivariant_x.

(* ... renaming Y reorders the list of inverted conditionals *)
Theorem inverse_equivariant_y : forall eps t ny conds ax ay,
  is_perm t ny -> length ay = ny -> Forall (fun c => length (bel c) = ny) conds ->
  inverse (B:=FldR) eps (map (ps t) conds) ax (pv t ay) = pc t (inverse eps conds ax ay).
Proof. exact Equivariance.inverse_equivariant_y. Qed.
Print Assumptions inverse_equivariant_y.

(* abduction, X and Y renamed independently at once: the result (an opinion on X) is renamed
   by the X renaming only *)
Theorem abduce_with_equivariant : forall eps s n t ny wy conds ax ay,
  is_perm s n -> is_perm t ny -> length conds = n -> length ax = n ->
  length (bel wy) = ny -> length ay = ny -> Forall (fun c => length (bel c) = ny) conds ->
  abduce_with (B:=FldR) eps (ps t wy) (pc s (map (ps t) conds)) (pv s ax) (pv t ay)
  = po s (abduce_with eps wy conds ax ay).
Proof. exact Equivariance.abduce_with_equivariant. Qed.
Print Assumptions abduce_with_equivariant.

Theorem abduce_equivariant_x : forall eps s n wy conds ax ny,
  is_perm s n -> length conds = n -> length ax = n ->
  abduce (B:=FldR) eps wy (pc s conds) (pv s ax) ny = option_map (po s) (abduce eps wy conds ax ny).
Proof. exact Equivariance.abduce_equivariant_x. Qed.
Print Assumptions abduce_equivariant_x.

Theorem abduce_equivariant_y : forall eps t ny wy conds ax,
  is_perm t ny -> length (bel wy) = ny -> Forall (fun c => length (bel c) = ny) conds ->
  abduce (B:=FldR) eps (ps t wy) (map (ps t) conds) ax ny = abduce eps wy conds ax ny.
Proof. exact Equivariance.abduce_equivariant_y. Qed.
Print Assumptions abduce_equivariant_y.

(* -------------------------------------------------------------------- 6. products *)
(* renaming factor 0 permutes the rows of the flattened joint, factor 1 the columns: the
   result is renamed by the induced renaming [iperm s0 s1 n1] of the n0 * n1 joint values;
   the validation outcome (None = the crate panics) is unchanged *)
Theorem product2_equivariant : forall eps s0 n0 s1 n1 b0 u0 a0 b1 u1 a1,
  is_perm s0 n0 -> is_perm s1 n1 ->
  length b0 = n0 -> length a0 = n0 -> length b1 = n1 -> length a1 = n1 ->
  product2 (B:=FldR) eps (pv s0 b0, u0, pv s0 a0) (pv s1 b1, u1, pv s1 a1)
  = option_map (po (iperm s0 s1 n1)) (product2 eps (b0, u0, a0) (b1, u1, a1)).
Proof.
  intros eps s0 n0 s1 n1 b0 u0 a0 b1 u1 a1 H0 H1 L1 L2 L3 L4.
  exact (Equivariance.product2_equivariant eps s0 s1 n0 n1 H0 H1 b0 a0 b1 a1 u0 u1 L1 L2 L3 L4).
Qed.
Print Assumptions product2_equivariant.

Theorem product2_lab_equivariant : forall s0 n0 s1 n1 b0 u0 a0 b1 u1 a1,
  is_perm s0 n0 -> is_perm s1 n1 ->
  length b0 = n0 -> length a0 = n0 -> length b1 = n1 -> length a1 = n1 ->
  product2_lab (B:=FldR) (pv s0 b0, u0, pv s0 a0) (pv s1 b1, u1, pv s1 a1)
  = po (iperm s0 s1 n1) (product2_lab (b0, u0, a0) (b1, u1, a1)).
Proof.
  intros s0 n0 s1 n1 b0 u0 a0 b1 u1 a1 H0 H1 L1 L2 L3 L4.
  exact (Equivariance.product2_lab_equivariant s0 s1 n0 n1 H0 H1 b0 a0 b1 a1 u0 u1 L1 L2 L3 L4).
Qed.
Print Assumptions product2_lab_equivariant.

(* --------------------------------------------------------------------- 7. merging *)
(* merge_cond2 (both the labelled and the unlabelled variant), X1, X2 and Y renamed
   independently at once: the result, |X1|*|X2| simplexes over Y, is reordered by the induced
   renaming of X1 x X2 and every simplex has its Y values renamed *)
Theorem merge_cond2_equivariant : forall eps lab s1 n1 s2 n2 t ny y1 y2 ax1 ax2 ay,
  is_perm s1 n1 -> is_perm s2 n2 -> is_perm t ny ->
  length y1 = n1 -> length ax1 = n1 -> length y2 = n2 -> length ax2 = n2 -> length ay = ny ->
  Forall (fun c => length (bel c) = ny) y1 -> Forall (fun c => length (bel c) = ny) y2 ->
  merge_cond2 (B:=FldR) eps lab (pc s1 (map (ps t) y1)) (pc s2 (map (ps t) y2))
              (pv s1 ax1) (pv s2 ax2) (pv t ay)
  = option_map (fun l => pc (iperm s1 s2 n2) (map (ps t) l))
               (merge_cond2 eps lab y1 y2 ax1 ax2 ay).
Proof. exact Equivariance.merge_cond2_equivariant. Qed.
Print Assumptions merge_cond2_equivariant.

(* non-vacuity: [2;0;1] is a non-identity renaming of a 3-value domain; it really moves the
   entries of a vector; and on the executable rational instance of the same model the
   projection of the renamed opinion (b, u, a) = ([1/4;1/2;0], 1/4, [1/2;1/4;1/4]) is the
   renamed projection [1/16; 3/8; 9/16] of [3/8; 9/16; 1/16], which differs from it. *)
Example c15_nonvacuous :
  is_perm [2; 0; 1]%nat 3 /\
  is_perm (iperm [2; 0; 1] [1; 0] 2)%nat 6 /\
  (iperm [2; 0; 1] [1; 0] 2 = [5; 4; 1; 0; 3; 2])%nat /\
  pv [2; 0; 1]%nat [Some (1/4); Some (1/2); Some 0] = [Some 0; Some (1/4); Some (1/2)] /\
  (let s := [2; 0; 1]%nat in
   let b : list (@V FldQ) := [Some (1#4); Some (1#2); Some 0]%Q in
   let a : list (@V FldQ) := [Some (1#2); Some (1#4); Some (1#4)]%Q in
   let u : @V FldQ := Some (1#4)%Q in
   projection (B:=FldQ) (perm None s b) u (perm None s a) = perm None s (projection b u a) /\
   perm None s (projection (B:=FldQ) b u a) = [Some (1#16); Some (3#8); Some (9#16)]%Q /\
   projection (B:=FldQ) b u a = [Some (3#8); Some (9#16); Some (1#16)]%Q).
Proof.
  assert (H : is_perm [2; 0; 1]%nat 3).
  { unfold is_perm; cbn [seq]. apply perm_trans with [0; 2; 1]%nat;
      [apply perm_swap | apply perm_skip, perm_swap]. }
  split; [exact H|]. split.
  { apply (iperm_is_perm [2; 0; 1]%nat 3 [1; 0]%nat 2 H). apply perm_swap. }
  split; [reflexivity|]. split; [reflexivity|].
  vm_compute. repeat split; reflexivity.
Qed.
