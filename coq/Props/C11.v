(* C11 - Merged joint conditionals are well-formed and independent of parent order.
   Only statements, each closed by [exact]; proofs are in Facts/Merge.v.

   Operands: [c1] = the |X1| conditionals X1 -> Y and [c2] = the |X2| conditionals X2 -> Y as real
   simplexes (b_x, u_x) over |Y| = length ay values ([wf_conds]); [ax1], [ax2], [ay] strictly
   positive distributions ([pos_dist]).  They enter the model as [map embS c], [map Some a].
   [lab] selects the labelled product (Opinion::normalized, no validation) or the unlabelled one
   (validated by Opinion::new; a failed validation is a panic = [None]).  The joint domain is
   flattened row-major: the joint value (x1, x2) is index x1 * |X2| + x2.

   Real-valued stages of the merge (Facts/Merge.v), each tied to the model operator in
   [merge_is_composition]:
     fbR eps ny ax cs fb = mbr(ax, cs).unwrap_or(fb): [Deduce.mbrR ny ax cs] unless the table is
                           all-vacuous (tolerantly) or carries no belief mass, then [fb]
     m_ay eps ax c ay    = fbR eps |Y| ax c ay               base rate of Y used to invert c
     m_inv eps ax c ay   = inverseR eps c ax (m_ay ..)       inverted table Y -> X_i
     m_prod ..           = row y: product2R of row y of the two inverted tables (base rates ax1, ax2)
     m_a12 ..            = fbR eps (|X1|*|X2|) ay (m_prod ..) (outerR ax1 ax2)
                                                              base rate of the joint variable
     mergeR ..           = inverseR eps (m_prod ..) ay (m_a12 ..)      the merged table

   Guard slack.  [inverse] tests the base rate of its consequent variable for zero tolerantly in one
   place and divides by it unguarded in another (Props/C05.v, [inverse_wf_refuted_small_ay]); its
   rows are well-formed when every entry of that base rate is exactly 0 or > eps ([guard_clear]).
   The merge inverts three times, so the side condition is [merge_guards]: [guard_clear] of
   [m_ay] for both parents and of [m_a12].  It is void at eps = 0 ([merge_guards_void]); the
   [_exact] theorems are the eps = 0 versions without it. *)
From Coq Require Import QArith Reals List Lra.
Import ListNotations.
From SL Require Import Model.Num Model.Vec Model.Mul Model.InstR Model.InstQ Facts.RBase Facts.Inverse Facts.Merge.
From SL Require Facts.Deduce Facts.Product.
Open Scope R_scope.

(* The merge is defined - no NaN, no division by zero, no failed validation in any per-y product
   ([Some]), for the labelled and the unlabelled product - and returns the table [mergeR]: one row
   per joint value (x1,x2), each a well-formed simplex over Y. *)
Theorem merge_defined_wf : forall eps lab c1 c2 ax1 ax2 ay, 0 <= eps <= 1/8 ->
  wf_conds c1 (length ay) -> wf_conds c2 (length ay) ->
  pos_dist ax1 -> pos_dist ax2 -> pos_dist ay ->
  length ax1 = length c1 -> length ax2 = length c2 ->
  merge_guards eps c1 c2 ax1 ax2 ay ->
  merge_cond2 (B:=FldR) eps lab (map embS c1) (map embS c2) (map Some ax1) (map Some ax2) (map Some ay)
    = Some (map embS (mergeR eps c1 c2 ax1 ax2 ay)) /\
  length (mergeR eps c1 c2 ax1 ax2 ay) = (length ax1 * length ax2)%nat /\
  Forall (fun s => wf_simplex (fst s) (snd s) /\ length (fst s) = length ay) (mergeR eps c1 c2 ax1 ax2 ay).
Proof. exact merge_defined_wf_lemma. Qed.
Print Assumptions merge_defined_wf.

Theorem merge_guards_void : forall c1 c2 ax1 ax2 ay,
  wf_conds c1 (length ay) -> wf_conds c2 (length ay) ->
  pos_dist ax1 -> pos_dist ax2 -> pos_dist ay ->
  length ax1 = length c1 -> length ax2 = length c2 ->
  merge_guards 0 c1 c2 ax1 ax2 ay.
Proof. exact merge_guards_exact. Qed.
Print Assumptions merge_guards_void.

Theorem merge_defined_wf_exact : forall lab c1 c2 ax1 ax2 ay,
  wf_conds c1 (length ay) -> wf_conds c2 (length ay) ->
  pos_dist ax1 -> pos_dist ax2 -> pos_dist ay ->
  length ax1 = length c1 -> length ax2 = length c2 ->
  merge_cond2 (B:=FldR) 0 lab (map embS c1) (map embS c2) (map Some ax1) (map Some ax2) (map Some ay)
    = Some (map embS (mergeR 0 c1 c2 ax1 ax2 ay)) /\
  length (mergeR 0 c1 c2 ax1 ax2 ay) = (length ax1 * length ax2)%nat /\
  Forall (fun s => wf_simplex (fst s) (snd s) /\ length (fst s) = length ay) (mergeR 0 c1 c2 ax1 ax2 ay).
Proof. exact Merge.merge_defined_wf_exact. Qed.
Print Assumptions merge_defined_wf_exact.

(* Borrowed (labelled product) and owned (unlabelled, self-validating product) conditionals give
   the same table.  Only the guard conditions of the two parent inversions are needed. *)
Theorem merge_lab_eq : forall eps c1 c2 ax1 ax2 ay, 0 <= eps <= 1/8 ->
  wf_conds c1 (length ay) -> wf_conds c2 (length ay) ->
  pos_dist ax1 -> pos_dist ax2 -> pos_dist ay ->
  length ax1 = length c1 -> length ax2 = length c2 ->
  guard_clear eps (m_ay eps ax1 c1 ay) -> guard_clear eps (m_ay eps ax2 c2 ay) ->
  merge_cond2 (B:=FldR) eps true (map embS c1) (map embS c2) (map Some ax1) (map Some ax2) (map Some ay)
  = merge_cond2 (B:=FldR) eps false (map embS c1) (map embS c2) (map Some ax1) (map Some ax2) (map Some ay).
Proof. exact merge_lab_eq_lemma. Qed.
Print Assumptions merge_lab_eq.

(* The merge is the composition: every stage, as the model operator applied to the previous stage's
   output, is defined and equals the corresponding real table -
   the base rates of Y used for the two inversions (marginal base rate, or ay when undefined),
   the two inverted tables (rows: well-formed opinions over X1 resp. X2 with base rates ax1, ax2),
   the product of the two inverted opinions for every y (product2 succeeds; rows of [pt]),
   the product table [pt] as a table of well-formed conditionals Y -> X1 x X2,
   the base rate [a12] of the joint variable (marginal base rate of [pt] under ay, or outer product),
   and the inversion of [pt] back under (ay, a12), which is the result. *)
Theorem merge_is_composition : forall eps lab c1 c2 ax1 ax2 ay, 0 <= eps <= 1/8 ->
  wf_conds c1 (length ay) -> wf_conds c2 (length ay) ->
  pos_dist ax1 -> pos_dist ax2 -> pos_dist ay ->
  length ax1 = length c1 -> length ax2 = length c2 ->
  guard_clear eps (m_ay eps ax1 c1 ay) -> guard_clear eps (m_ay eps ax2 c2 ay) ->
  let ny := length ay in
  let n12 := (length ax1 * length ax2)%nat in
  let ay1 := m_ay eps ax1 c1 ay in
  let ay2 := m_ay eps ax2 c2 ay in
  let i1 := inverseR eps c1 ax1 ay1 in
  let i2 := inverseR eps c2 ax2 ay2 in
  let pt := map2 (prodS ax1 ax2) i1 i2 in
  let a12 := fbR eps n12 ay pt (Product.outerR ax1 ax2) in
  unwrap_or (mbr (B:=FldR) eps ny (map Some ax1) (map embS c1)) (map Some ay) = map Some ay1 /\
  unwrap_or (mbr (B:=FldR) eps ny (map Some ax2) (map embS c2)) (map Some ay) = map Some ay2 /\
  wf_dist ay1 /\ length ay1 = ny /\ wf_dist ay2 /\ length ay2 = ny /\
  inverse (B:=FldR) eps (map embS c1) (map Some ax1) (map Some ay1) = map embS i1 /\
  inverse (B:=FldR) eps (map embS c2) (map Some ax2) (map Some ay2) = map embS i2 /\
  length i1 = ny /\ length i2 = ny /\
  Forall (fun s => wf_opinion (fst s) (snd s) ax1) i1 /\
  Forall (fun s => wf_opinion (fst s) (snd s) ax2) i2 /\
  (forall y, (y < ny)%nat ->
     let s1 := nth y i1 ([], 0) in let s2 := nth y i2 ([], 0) in let p := nth y pt ([], 0) in
     product2 (B:=FldR) eps (map Some (fst s1), Some (snd s1), map Some ax1)
                            (map Some (fst s2), Some (snd s2), map Some ax2)
       = Some (map Some (fst p), Some (snd p), map Some (Product.outerR ax1 ax2)) /\
     Product.product2R (fst s1) (snd s1) ax1 (fst s2) (snd s2) ax2 = (fst p, snd p, Product.outerR ax1 ax2)) /\
  wf_conds pt n12 /\ length pt = ny /\
  unwrap_or (mbr (B:=FldR) eps n12 (map Some ay) (map embS pt))
            (outer (B:=FldR) (map Some ax1) (map Some ax2)) = map Some a12 /\
  wf_dist a12 /\ length a12 = n12 /\
  inverse (B:=FldR) eps (map embS pt) (map Some ay) (map Some a12) = map embS (inverseR eps pt ay a12) /\
  mergeR eps c1 c2 ax1 ax2 ay = inverseR eps pt ay a12 /\
  merge_cond2 (B:=FldR) eps lab (map embS c1) (map embS c2) (map Some ax1) (map Some ax2) (map Some ay)
    = Some (inverse (B:=FldR) eps (map embS pt) (map Some ay) (map Some a12)).
Proof. exact merge_is_composition_lemma. Qed.
Print Assumptions merge_is_composition.

(* the base rate chosen by mbr(..).unwrap_or(fb): the fallback is used exactly when the marginal
   base rate is undefined *)
Theorem merge_base_rate_cases : forall eps ny ax cs fb,
  (fbR eps ny ax cs fb = Deduce.mbrR ny ax cs /\ Deduce.mbr_S ax cs <> 0 /\
   forallb (fun c : list R * R => is_one (B:=FldR) eps (Some (snd c))) cs = false) \/
  (fbR eps ny ax cs fb = fb /\
   (forallb (fun c : list R * R => is_one (B:=FldR) eps (Some (snd c))) cs = true \/ Deduce.mbr_S ax cs = 0)).
Proof. exact fbR_cases. Qed.
Print Assumptions merge_base_rate_cases.

(* Exchanging the roles of X1 and X2 yields the transposed table: row (x2, x1) of the exchanged merge
   is row (x1, x2) of the original one (list form, model form and cell form).
   [transposeL d n0 n1 l] is the transposition of a flattened n0 x n1 table (the same function as
   [Product.transposeR] of C06 for any element type, [transposeR_is_transposeL]). *)
Theorem merge_transpose : forall eps lab c1 c2 ax1 ax2 ay, 0 <= eps <= 1/8 ->
  wf_conds c1 (length ay) -> wf_conds c2 (length ay) ->
  pos_dist ax1 -> pos_dist ax2 -> pos_dist ay ->
  length ax1 = length c1 -> length ax2 = length c2 ->
  guard_clear eps (m_ay eps ax1 c1 ay) -> guard_clear eps (m_ay eps ax2 c2 ay) ->
  let n1 := length ax1 in let n2 := length ax2 in
  mergeR eps c2 c1 ax2 ax1 ay = transposeL ([], 0) n1 n2 (mergeR eps c1 c2 ax1 ax2 ay) /\
  merge_cond2 (B:=FldR) eps lab (map embS c2) (map embS c1) (map Some ax2) (map Some ax1) (map Some ay)
    = Some (map embS (transposeL ([], 0) n1 n2 (mergeR eps c1 c2 ax1 ax2 ay))) /\
  merge_cond2 (B:=FldR) eps lab (map embS c1) (map embS c2) (map Some ax1) (map Some ax2) (map Some ay)
    = Some (map embS (mergeR eps c1 c2 ax1 ax2 ay)) /\
  (forall x1 x2, (x1 < n1)%nat -> (x2 < n2)%nat ->
     nth (x2 * n1 + x1) (mergeR eps c2 c1 ax2 ax1 ay) ([], 0)
     = nth (x1 * n2 + x2) (mergeR eps c1 c2 ax1 ax2 ay) ([], 0)).
Proof. exact merge_transpose_lemma. Qed.
Print Assumptions merge_transpose.

Theorem transposeL_cell : forall (X : Type) (d : X) n0 n1 l i j, (i < n0)%nat -> (j < n1)%nat ->
  nth (j * n0 + i) (transposeL d n0 n1 l) d = nth (i * n1 + j) l d.
Proof. exact @transposeL_nth. Qed.
Print Assumptions transposeL_cell.

Theorem transposeR_is_transposeL : forall n0 n1 l, Product.transposeR n0 n1 l = transposeL 0 n0 n1 l.
Proof. exact Merge.transposeR_is_transposeL. Qed.
Print Assumptions transposeR_is_transposeL.

(* The two equivariance lemmas behind it, for any reindexing sg of the n values of the consequent
   variable that is onto {0..n-1} (hence a bijection): reindexing every belief vector and the
   consequent base rate reindexes the rows of the inverted table ... *)
Theorem inverse_reindex : forall n sg,
  (forall k, (k < n)%nat -> (sg k < n)%nat) ->
  (forall k, (k < n)%nat -> exists k', (k' < n)%nat /\ sg k' = k) ->
  forall eps cs ax a, Forall (fun c => length (fst c) = n) cs -> length a = n ->
  inverseR eps (map (reidxS n sg) cs) ax (reidx n sg a) = reidxT n sg (inverseR eps cs ax a).
Proof. exact inverseR_reidx. Qed.
Print Assumptions inverse_reindex.

(* ... and reindexes the marginal base rate (the sums of the belief vectors must be preserved, which
   holds for well-formed tables since sum b_x = 1 - u_x). *)
Theorem mbr_reindex : forall n sg,
  (forall k, (k < n)%nat -> (sg k < n)%nat) ->
  forall eps ax cs fb, Forall (fun c => Rsum (reidx n sg (fst c)) = Rsum (fst c)) cs ->
  fbR eps n ax (map (reidxS n sg) cs) (reidx n sg fb) = reidx n sg (fbR eps n ax cs fb).
Proof. exact fbR_reidx. Qed.
Print Assumptions mbr_reindex.

(* A joint value k = (x1,x2) whose marginal base rate [m_a12 .. k] is zero receives the vacuous
   conditional (b = 0, u = 1), exactly. *)
Theorem merge_impossible_cell_vacuous : forall eps, 0 <= eps <= 1/8 -> forall c1 c2 ax1 ax2 ay,
  wf_conds c1 (length ay) -> wf_conds c2 (length ay) ->
  pos_dist ax1 -> pos_dist ax2 -> pos_dist ay ->
  length ax1 = length c1 -> length ax2 = length c2 ->
  guard_clear eps (m_ay eps ax1 c1 ay) -> guard_clear eps (m_ay eps ax2 c2 ay) ->
  forall k, (k < length ax1 * length ax2)%nat ->
  nth k (m_a12 eps c1 c2 ax1 ax2 ay) 0 = 0 ->
  nth k (mergeR eps c1 c2 ax1 ax2 ay) ([], 0) = (map (fun _ => 0) ay, 1).
Proof. exact merge_zero_base_rate_vacuous. Qed.
Print Assumptions merge_impossible_cell_vacuous.

(* The marginal base rate of k is zero exactly when the joint base rate is the computed marginal
   one (the outer-product fallback is positive everywhere) and no product opinion gives k any
   belief mass: [m_b12 .. y k] = belief mass of k in the product opinion for y. *)
Theorem merge_zero_base_rate_iff : forall eps, 0 <= eps <= 1/8 -> forall c1 c2 ax1 ax2 ay,
  wf_conds c1 (length ay) -> wf_conds c2 (length ay) ->
  pos_dist ax1 -> pos_dist ax2 -> pos_dist ay ->
  length ax1 = length c1 -> length ax2 = length c2 ->
  guard_clear eps (m_ay eps ax1 c1 ay) -> guard_clear eps (m_ay eps ax2 c2 ay) ->
  forall k, (k < length ax1 * length ax2)%nat ->
  nth k (m_a12 eps c1 c2 ax1 ax2 ay) 0 = 0 <->
  (m_a12 eps c1 c2 ax1 ax2 ay = Deduce.mbrR (length ax1 * length ax2) ay (m_prod eps c1 c2 ax1 ax2 ay) /\
   Deduce.mbr_S ay (m_prod eps c1 c2 ax1 ax2 ay) <> 0 /\
   forall y, (y < length ay)%nat -> m_b12 eps c1 c2 ax1 ax2 ay y k = 0).
Proof. exact m_a12_zero_iff. Qed.
Print Assumptions merge_zero_base_rate_iff.

(* In particular: if P(x1|y) P(x2|y) = 0 for every y, where P(x_i|y) = [m_P ..] is the projected
   probability of the inverted parent table, the cell (x1,x2) is vacuous ... *)
Theorem merge_impossible_cell_vacuous_projections : forall eps, 0 <= eps <= 1/8 -> forall c1 c2 ax1 ax2 ay,
  wf_conds c1 (length ay) -> wf_conds c2 (length ay) ->
  pos_dist ax1 -> pos_dist ax2 -> pos_dist ay ->
  length ax1 = length c1 -> length ax2 = length c2 ->
  guard_clear eps (m_ay eps ax1 c1 ay) -> guard_clear eps (m_ay eps ax2 c2 ay) ->
  forall x1 x2, (x1 < length ax1)%nat -> (x2 < length ax2)%nat ->
  (forall y, (y < length ay)%nat -> m_P eps ay ax1 c1 x1 y * m_P eps ay ax2 c2 x2 y = 0) ->
  nth (x1 * length ax2 + x2) (mergeR eps c1 c2 ax1 ax2 ay) ([], 0) = (map (fun _ => 0) ay, 1).
Proof. exact merge_impossible_cell_vacuous_lemma. Qed.
Print Assumptions merge_impossible_cell_vacuous_projections.

(* ... and in terms of the inputs: every y excludes x1 or excludes x2, i.e. P(y|x_i) = 0 although y is
   possible (> eps) under some other value of X_i.  (P(y|x) = [PyxR c ay' x y] = b_x[y] + ay'[y] u_x,
   [likelihood_entry] in Props/C05.v.) *)
Theorem merge_impossible_cell_vacuous_inputs : forall eps c1 c2 ax1 ax2 ay x1 x2, 0 <= eps <= 1/8 ->
  wf_conds c1 (length ay) -> wf_conds c2 (length ay) ->
  pos_dist ax1 -> pos_dist ax2 -> pos_dist ay ->
  length ax1 = length c1 -> length ax2 = length c2 ->
  guard_clear eps (m_ay eps ax1 c1 ay) -> guard_clear eps (m_ay eps ax2 c2 ay) ->
  (x1 < length ax1)%nat -> (x2 < length ax2)%nat ->
  (forall y, (y < length ay)%nat ->
     (PyxR c1 (m_ay eps ax1 c1 ay) x1 y = 0 /\
      exists x, (x < length c1)%nat /\ eps < PyxR c1 (m_ay eps ax1 c1 ay) x y) \/
     (PyxR c2 (m_ay eps ax2 c2 ay) x2 y = 0 /\
      exists x, (x < length c2)%nat /\ eps < PyxR c2 (m_ay eps ax2 c2 ay) x y)) ->
  nth (x1 * length ax2 + x2) (mergeR eps c1 c2 ax1 ax2 ay) ([], 0) = (map (fun _ => 0) ay, 1).
Proof. exact merge_impossible_cell_inputs. Qed.
Print Assumptions merge_impossible_cell_vacuous_inputs.

(* the product cell behind it: b12_y(x1,x2) + ax1_x1 ax2_x2 u12_y = P(x1|y) P(x2|y) *)
Theorem merge_product_cell : forall eps, 0 <= eps <= 1/8 -> forall c1 c2 ax1 ax2 ay,
  wf_conds c1 (length ay) -> wf_conds c2 (length ay) ->
  pos_dist ax1 -> pos_dist ax2 -> pos_dist ay ->
  length ax1 = length c1 -> length ax2 = length c2 ->
  guard_clear eps (m_ay eps ax1 c1 ay) -> guard_clear eps (m_ay eps ax2 c2 ay) ->
  forall y x1 x2, (y < length ay)%nat -> (x1 < length ax1)%nat -> (x2 < length ax2)%nat ->
  m_b12 eps c1 c2 ax1 ax2 ay y (x1 * length ax2 + x2)
    + nth x1 ax1 0 * nth x2 ax2 0 * m_u12 eps c1 c2 ax1 ax2 ay y
  = m_P eps ay ax1 c1 x1 y * m_P eps ay ax2 c2 x2 y /\
  0 <= m_b12 eps c1 c2 ax1 ax2 ay y (x1 * length ax2 + x2) /\
  0 <= m_u12 eps c1 c2 ax1 ax2 ay y.
Proof. exact mg_prod_cell. Qed.
Print Assumptions merge_product_cell.

(* Example (reals, exact guards): two parents that each determine Y; the joint value
   (x1 = 0, x2 = 1) is impossible and its merged conditional is vacuous. *)
Theorem merge_impossible_cell_example :
  nth 1 (mergeR 0 ex_det ex_det ex_half ex_half ex_half) ([], 0) = ([0; 0], 1).
Proof. exact ex_impossible_cell. Qed.
Print Assumptions merge_impossible_cell_example.

(* Example of the property text, run on the executable rational instance of the same model
   (Y|X = [(5,0,11;0),(6,6,4;0)]/16, Y|Z = [(5,5,3;3),(3,13,0;0)]/16, aX = (9,7)/16, aZ = (6,10)/16,
   aY = (7,5,4)/16): the impossible joint value (x0,z1) (index 1) gets the vacuous conditional, not
   the confident one; the labelled product gives the same table; exchanging the parents transposes
   it (index 1 <-> index 2). *)
Theorem merge_example_Q :
  let SQ := fun q : Q => (Some q : @V FldQ) in
  let qc1 : list (@simplex FldQ) :=
    [([SQ (5#16)%Q; SQ 0%Q; SQ (11#16)%Q], SQ 0%Q); ([SQ (6#16)%Q; SQ (6#16)%Q; SQ (4#16)%Q], SQ 0%Q)] in
  let qc2 : list (@simplex FldQ) :=
    [([SQ (5#16)%Q; SQ (5#16)%Q; SQ (3#16)%Q], SQ (3#16)%Q); ([SQ (3#16)%Q; SQ (13#16)%Q; SQ 0%Q], SQ 0%Q)] in
  let qa1 := [SQ (9#16)%Q; SQ (7#16)%Q] in
  let qa2 := [SQ (6#16)%Q; SQ (10#16)%Q] in
  let qay := [SQ (7#16)%Q; SQ (5#16)%Q; SQ (4#16)%Q] in
  exists r0 r2 r3,
    @merge_cond2 FldQ 0%Q false qc1 qc2 qa1 qa2 qay = Some [r0; ([SQ 0%Q; SQ 0%Q; SQ 0%Q], SQ 1%Q); r2; r3] /\
    @merge_cond2 FldQ 0%Q true qc1 qc2 qa1 qa2 qay = Some [r0; ([SQ 0%Q; SQ 0%Q; SQ 0%Q], SQ 1%Q); r2; r3] /\
    @merge_cond2 FldQ 0%Q false qc2 qc1 qa2 qa1 qay = Some [r0; r2; ([SQ 0%Q; SQ 0%Q; SQ 0%Q], SQ 1%Q); r3].
Proof. exact ex_merge_Q. Qed.
Print Assumptions merge_example_Q.

(* non-vacuity: the operands of the property's example satisfy all hypotheses (with eps = 0 the
   guard conditions are void) *)
Example c11_nonvacuous :
  wf_conds ex_c1 (length ex_ay) /\ wf_conds ex_c2 (length ex_ay) /\
  pos_dist ex_ax1 /\ pos_dist ex_ax2 /\ pos_dist ex_ay /\
  length ex_ax1 = length ex_c1 /\ length ex_ax2 = length ex_c2 /\
  merge_guards 0 ex_c1 ex_c2 ex_ax1 ex_ax2 ex_ay.
Proof.
  destruct ex_operands_wf as (H1 & H2 & H3 & H4 & H5 & H6 & H7).
  repeat (split; [assumption|]). apply merge_guards_exact; assumption.
Qed.
