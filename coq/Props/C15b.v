(* C15 (complement) - renaming the values of each factor of a THREE-factor product only renames the
   result.  Only statements, each closed by [exact]; proofs are in Facts/ParentOrder.v (part D).

   Formulation as in Props/C15.v: a renaming of a domain of size n is a list of positions [s] with
   [is_perm s n]; [pv s v] renames a vector, [po s (b, u, a) = (pv s b, u, pv s a)] an opinion.
   The renaming induced on the row-major flattening of the joint domain of sizes n0 x n1 x n2 is
       iperm3 s0 s1 s2 n1 n2 = [ (i * n1 + j) * n2 + k | i <- s0, j <- s1, k <- s2 ]
   (= [iperm (iperm s0 s1 n1) s2 n2], the two-factor induced renaming iterated).
   All theorems hold for ARBITRARY model operands over the reals (entries may be NaN, nothing has to
   be normalised), every factor size, every guard tolerance; the only hypotheses are the shapes. *)
From Coq Require Import Reals List Lra Permutation QArith.
Import ListNotations.
From SL Require Import Model.Num Model.Vec Model.Mul Model.InstR Model.InstQ Facts.RBase
                       Facts.Equivariance Facts.ParentOrder.
Open Scope R_scope.

Theorem iperm3_is_iterated_iperm : forall s0 s1 s2 n1 n2,
  iperm3 s0 s1 s2 n1 n2 = iperm (iperm s0 s1 n1) s2 n2.
Proof. exact iperm3_iperm. Qed.
Print Assumptions iperm3_is_iterated_iperm.

Theorem induced_renaming3_is_renaming : forall s0 n0 s1 n1 s2 n2,
  is_perm s0 n0 -> is_perm s1 n1 -> is_perm s2 n2 ->
  is_perm (iperm3 s0 s1 s2 n1 n2) (n0 * n1 * n2).
Proof. exact iperm3_is_perm. Qed.
Print Assumptions induced_renaming3_is_renaming.

(* the three-factor outer product is the two-factor one iterated, and is equivariant *)
Theorem outer3_is_iterated_outer : forall l0 l1 l2 : list RV,
  outer3 l0 l1 l2 = outer (outer l0 l1) l2.
Proof. exact outer3_outer. Qed.
Print Assumptions outer3_is_iterated_outer.

Theorem outer3_equivariant : forall s0 n0 s1 n1 s2 n2 (l0 l1 l2 : list RV),
  is_perm s0 n0 -> is_perm s1 n1 -> is_perm s2 n2 ->
  length l0 = n0 -> length l1 = n1 -> length l2 = n2 ->
  outer3 (pv s0 l0) (pv s1 l1) (pv s2 l2) = pv (iperm3 s0 s1 s2 n1 n2) (outer3 l0 l1 l2).
Proof. exact ParentOrder.outer3_equivariant. Qed.
Print Assumptions outer3_equivariant.

(* Product3, unlabelled: the result is renamed by the induced renaming; the validation outcome
   (None = the crate panics) is unchanged *)
Theorem product3_equivariant : forall eps s0 n0 s1 n1 s2 n2 b0 u0 a0 b1 u1 a1 b2 u2 a2,
  is_perm s0 n0 -> is_perm s1 n1 -> is_perm s2 n2 ->
  length b0 = n0 -> length a0 = n0 -> length b1 = n1 -> length a1 = n1 ->
  length b2 = n2 -> length a2 = n2 ->
  product3 (B:=FldR) eps (pv s0 b0, u0, pv s0 a0) (pv s1 b1, u1, pv s1 a1) (pv s2 b2, u2, pv s2 a2)
  = option_map (po (iperm3 s0 s1 s2 n1 n2)) (product3 eps (b0, u0, a0) (b1, u1, a1) (b2, u2, a2)).
Proof.
  intros eps s0 n0 s1 n1 s2 n2 b0 u0 a0 b1 u1 a1 b2 u2 a2 H0 H1 H2 L1 L2 L3 L4 L5 L6.
  exact (ParentOrder.product3_equivariant eps s0 s1 s2 n0 n1 n2 H0 H1 H2
           b0 a0 b1 a1 b2 a2 u0 u1 u2 L1 L2 L3 L4 L5 L6).
Qed.
Print Assumptions product3_equivariant.

(* Product3, labelled (base rate renormalised, no validation) *)
Theorem product3_lab_equivariant : forall s0 n0 s1 n1 s2 n2 b0 u0 a0 b1 u1 a1 b2 u2 a2,
  is_perm s0 n0 -> is_perm s1 n1 -> is_perm s2 n2 ->
  length b0 = n0 -> length a0 = n0 -> length b1 = n1 -> length a1 = n1 ->
  length b2 = n2 -> length a2 = n2 ->
  product3_lab (B:=FldR) (pv s0 b0, u0, pv s0 a0) (pv s1 b1, u1, pv s1 a1) (pv s2 b2, u2, pv s2 a2)
  = po (iperm3 s0 s1 s2 n1 n2) (product3_lab (b0, u0, a0) (b1, u1, a1) (b2, u2, a2)).
Proof.
  intros s0 n0 s1 n1 s2 n2 b0 u0 a0 b1 u1 a1 b2 u2 a2 H0 H1 H2 L1 L2 L3 L4 L5 L6.
  exact (ParentOrder.product3_lab_equivariant s0 s1 s2 n0 n1 n2 H0 H1 H2
           b0 a0 b1 a1 b2 a2 u0 u1 u2 L1 L2 L3 L4 L5 L6).
Qed.
Print Assumptions product3_lab_equivariant.

(* non-vacuity: three non-identity renamings of domains of sizes 2, 3, 2, the induced renaming of
   the 12 joint values, and - on the executable rational instance of the same model - the product
   of the renamed factors is the renamed product, which differs from the product itself. *)
Example c15b_nonvacuous :
  is_perm [1; 0]%nat 2 /\ is_perm [2; 0; 1]%nat 3 /\
  (iperm3 [1; 0] [2; 0; 1] [1; 0] 3 2 = [11; 10; 7; 6; 9; 8; 5; 4; 1; 0; 3; 2])%nat /\
  is_perm (iperm3 [1; 0] [2; 0; 1] [1; 0] 3 2)%nat 12 /\
  (let SQ := fun q : Q => (Some q : @V FldQ) in
   let s0 := [1; 0]%nat in let s1 := [2; 0; 1]%nat in let s2 := [1; 0]%nat in
   let w0 : @opinion FldQ := ([SQ (1#2)%Q; SQ (1#4)%Q], SQ (1#4)%Q, [SQ (1#4)%Q; SQ (3#4)%Q]) in
   let w1 : @opinion FldQ :=
     ([SQ (1#4)%Q; SQ (1#2)%Q; SQ 0%Q], SQ (1#4)%Q, [SQ (1#2)%Q; SQ (1#4)%Q; SQ (1#4)%Q]) in
   let w2 : @opinion FldQ := ([SQ (1#8)%Q; SQ (3#8)%Q], SQ (1#2)%Q, [SQ (1#2)%Q; SQ (1#2)%Q]) in
   let rn := fun s (w : @opinion FldQ) =>
     (perm None s (fst (fst w)), snd (fst w), perm None s (snd w)) in
   exists w, @product3 FldQ 0%Q w0 w1 w2 = Some w /\
     @product3 FldQ 0%Q (rn s0 w0) (rn s1 w1) (rn s2 w2) = Some (rn (iperm3 s0 s1 s2 3 2) w) /\
     rn (iperm3 s0 s1 s2 3 2) w <> w).
Proof.
  assert (H2 : is_perm [1; 0]%nat 2) by apply perm_swap.
  assert (H3 : is_perm [2; 0; 1]%nat 3).
  { unfold is_perm; cbn [seq]. apply perm_trans with [0; 2; 1]%nat;
      [apply perm_swap | apply perm_skip, perm_swap]. }
  split; [exact H2|]. split; [exact H3|]. split; [reflexivity|].
  split; [exact (iperm3_is_perm _ _ _ _ _ _ H2 H3 H2)|].
  cbv zeta. eexists. split; [vm_compute; reflexivity|]. split; [vm_compute; reflexivity|].
  vm_compute. discriminate.
Qed.
