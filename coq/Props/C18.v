(* C18 - Index enumeration is the lexicographic Cartesian product of the dimensions.
   Only statements, each closed by [exact]; proofs are in Facts/ArrFacts.v.
   Every theorem holds for dimension lists [dims] of ANY length (rank) and any sizes,
   zero-sized dimensions included (rank 0 too: one empty tuple). *)
From Coq Require Import List Bool Arith ZArith Lia.
Import ListNotations.
From SL Require Import Model.Arr Model.ArrSpec Facts.ArrFacts Facts.IterAdaptors.
Local Open Scope nat_scope.

(* The specification [lex dims] (ArrSpec.v) is characterised independently of its definition:
   it contains exactly the tuples of the box [0,n0) x ... x [0,nk), each once; its i-th element
   has row-major offset (mixed-radix value) i, so it is strictly increasing, also for the
   lexicographic order on tuples (last coordinate fastest); it has [total dims] elements and is
   empty as soon as one dimension is 0. *)
Theorem lex_complete_nodup_sorted : forall dims,
  (forall k, In k (lex dims) <-> length k = length dims /\ Forall2 lt k dims) /\
  NoDup (lex dims) /\
  length (lex dims) = total dims /\
  (forall i, i < total dims -> offset dims (nth i (lex dims) []) = i) /\
  (forall k, In k (lex dims) -> nth_error (lex dims) (offset dims k) = Some k) /\
  (forall i j, i < j -> j < total dims -> lex_lt (nth i (lex dims) []) (nth j (lex dims) [])) /\
  (In 0 dims -> lex dims = []).
Proof. exact lex_characterisation. Qed.
Print Assumptions lex_complete_nodup_sorted.

(* on the box, the lexicographic order of tuples is the order of their offsets *)
Theorem lex_order_is_offset_order : forall dims k k', Forall2 lt k dims -> Forall2 lt k' dims ->
  (lex_lt k k' <-> offset dims k < offset dims k').
Proof. exact lex_lt_offset. Qed.
Print Assumptions lex_order_is_offset_order.

(* one step of the odometer is the successor in mixed-radix numbering, None at the last tuple *)
Theorem multirange_step_is_successor : forall dims k, Forall2 lt k dims ->
  match snd (mr_next dims (Some k)) with
  | Some k' => Forall2 lt k' dims /\ offset dims k' = S (offset dims k)
  | None => S (offset dims k) = total dims
  end.
Proof. intros dims k H. exact (mr_step dims k H). Qed.
Print Assumptions multirange_step_is_successor.

(* the MultiRange odometer, driven like a `for` loop, enumerates exactly [lex dims]
   (also for dims = [], which the task did not require) *)
Theorem multirange_enumerates : forall dims, mr_indexes dims = lex dims.
Proof. exact mr_indexes_lex. Qed.
Print Assumptions multirange_enumerates.

(* after the enumeration, two further next() calls both return None *)
Theorem multirange_exhausted_stays_none : forall dims, mr_exhausted dims = [1%Z; 1%Z].
Proof. exact mr_exhausted_spec. Qed.
Print Assumptions multirange_exhausted_stays_none.

(* iproduct! over the keys (labelled family) and the odometer (unlabelled family) agree *)
Theorem labelled_eq_unlabelled : forall dims, indexes Labelled dims = indexes Unlabelled dims.
Proof. intros dims. exact (eq_trans (indexes_lex Labelled dims) (eq_sym (indexes_lex Unlabelled dims))). Qed.
Print Assumptions labelled_eq_unlabelled.

Theorem indexes_is_lex : forall f dims, indexes f dims = lex dims.
Proof. exact indexes_lex. Qed.
Print Assumptions indexes_is_lex.

(* a domain of size n enumerates the keys 0, 1, ..., n-1 in increasing order *)
Theorem keys_spec : forall n, keys n = seq 0 n.
Proof. intros n. exact eq_refl. Qed.
Print Assumptions keys_spec.

(* [newtype_roundtrip] of DESIGN.md is not stated: the model represents every key type by [nat]
   (Model/Arr.v has no newtype wrapper), so the round trip is the identity by construction. *)

(* non-vacuity: concrete enumerations, computed by the model *)
(* ---- consumed through the Iterator methods an implementation may override ----
   [it_nth], [it_count], [it_last], [it_fold], [it_step_by] are the standard library's default definitions (by
   repeated next()) over the state-machine model; [after next k st] is the state after k calls of next().  An
   override is correct exactly when it agrees with these.  For the MultiRange odometer: *)

(* k calls of next() (= skip(k)): what is left is the lexicographic product from position k on *)
Theorem multirange_skip : forall dims k,
  drive (mr_next dims) (S (total dims)) (after (mr_next dims) k (mr_new dims)) = skipn k (lex dims).
Proof. exact mr_skip. Qed.
Print Assumptions multirange_skip.

(* nth(k) returns the k-th tuple (None past the end) and leaves the tuples after it *)
Theorem multirange_nth : forall dims k,
  fst (it_nth (mr_next dims) k (mr_new dims)) = nth_error (lex dims) k /\
  drive (mr_next dims) (S (total dims)) (snd (it_nth (mr_next dims) k (mr_new dims))) = skipn (S k) (lex dims).
Proof. intros dims k. split; [apply mr_nth | apply mr_nth_rest]. Qed.
Print Assumptions multirange_nth.

(* count(), last() and fold after k calls of next() *)
Theorem multirange_count_last_fold : forall dims k,
  it_count (mr_next dims) (S (total dims)) (after (mr_next dims) k (mr_new dims)) = (total dims - k)%nat /\
  it_last (mr_next dims) (S (total dims)) (after (mr_next dims) k (mr_new dims)) = last (map Some (skipn k (lex dims))) None /\
  (forall (A : Type) (f : A -> list nat -> A) (a : A),
     it_fold (mr_next dims) f a (S (total dims)) (after (mr_next dims) k (mr_new dims)) = fold_left f (skipn k (lex dims)) a).
Proof. intros dims k. split; [apply mr_count|]. split; [apply mr_last|]. intros A f a. apply mr_fold. Qed.
Print Assumptions multirange_count_last_fold.

(* step_by(s): the tuples at positions 0, s, 2s, ... *)
Theorem multirange_step_by : forall dims s,
  it_step_by (mr_next dims) s (S (total dims)) (mr_new dims) = every s (S (total dims)) (lex dims).
Proof. exact mr_step_by. Qed.
Print Assumptions multirange_step_by.

Example c18_nonvacuous :
  mr_indexes [2; 0; 3] = [] /\
  mr_indexes [2; 3] = [[0;0];[0;1];[0;2];[1;0];[1;1];[1;2]] /\
  indexes Labelled [2; 1; 2] = [[0;0;0];[0;0;1];[1;0;0];[1;0;1]] /\
  lex [3; 2] = [[0;0];[0;1];[1;0];[1;1];[2;0];[2;1]] /\
  map (offset [3; 2]) (lex [3; 2]) = [0;1;2;3;4;5] /\
  mr_exhausted [2; 3] = [1%Z; 1%Z] /\
  mr_indexes [] = [[]].
Proof. repeat split; reflexivity. Qed.
