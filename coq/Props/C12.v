(* C12 - Binomial AND/OR multiply probabilities and are De Morgan duals.
   Only statements, each closed by [exact]; proofs are in Facts/BiMul.v.

   Operands are real quadruples (b, d, u; a) with [wf_bop]; they enter the model as
   [bopR b d u a].  The results are given by the explicit real functions
   [mulB]/[mulD]/[mulU] and [comulB]/[comulD]/[comulU] of Facts/BiMul.v, which are the
   closed forms of src/bi.rs at HEAD.  [Some _] as a result means: no NaN, no division by
   zero and the self-validation of BOpinion::new passes (no panic). *)
From Coq Require Import Reals List Lra.
Import ListNotations.
From SL Require Import Model.Num Model.Vec Model.Mul Model.Bi Model.InstR Facts.RBase
  Facts.Discount Facts.BiMul.
Open Scope R_scope.

(* Multiplication, base rates not both 1: defined and accepted, well-formed, base rate ax ay,
   projected probability P(x) P(y), disbelief dx + dy - dx dy. *)
Theorem mul_wf_base_rate_projection : forall eps, 0 <= eps <= 1/8 ->
  forall bx dx ux ax by_ dy uy ay,
  wf_bop bx dx ux ax -> wf_bop by_ dy uy ay -> ax * ay <> 1 ->
  let b := mulB bx ux ax by_ uy ay in
  let d := mulD dx dy in
  let u := mulU bx ux ax by_ uy ay in
  let a := ax * ay in
  bmul (B:=FldR) eps (bopR bx dx ux ax) (bopR by_ dy uy ay) = Some (bopR b d u a) /\
  wf_bop b d u a /\
  bprojection (bopR b d u a) = Some ((bx + ax * ux) * (by_ + ay * uy)) /\
  b + a * u = (bx + ax * ux) * (by_ + ay * uy) /\
  d = dx + dy - dx * dy.
Proof. exact bmul_spec. Qed.
Print Assumptions mul_wf_base_rate_projection.

(* "base rates not both 1" in either form *)
Theorem mul_admissible_iff : forall ax ay, 0 <= ax <= 1 -> 0 <= ay <= 1 ->
  (ax * ay <> 1 <-> (ax < 1 \/ ay < 1)).
Proof. exact prod_ne_1_iff. Qed.
Print Assumptions mul_admissible_iff.

(* Comultiplication, base rates not both 0: defined and accepted, well-formed, base rate
   ax + ay - ax ay, projected probability P(x) + P(y) - P(x) P(y), belief bx + by - bx by. *)
Theorem comul_wf_base_rate_projection : forall eps, 0 <= eps <= 1/8 ->
  forall bx dx ux ax by_ dy uy ay,
  wf_bop bx dx ux ax -> wf_bop by_ dy uy ay -> ax + ay - ax * ay <> 0 ->
  let b := comulB bx by_ in
  let d := comulD dx ux ax dy uy ay in
  let u := comulU dx ux ax dy uy ay in
  let a := ax + ay - ax * ay in
  let px := bx + ax * ux in
  let py := by_ + ay * uy in
  bcomul (B:=FldR) eps (bopR bx dx ux ax) (bopR by_ dy uy ay) = Some (bopR b d u a) /\
  wf_bop b d u a /\
  bprojection (bopR b d u a) = Some (px + py - px * py) /\
  b + a * u = px + py - px * py /\
  b = bx + by_ - bx * by_.
Proof. exact bcomul_spec. Qed.
Print Assumptions comul_wf_base_rate_projection.

Theorem comul_admissible_iff : forall ax ay, 0 <= ax <= 1 -> 0 <= ay <= 1 ->
  (ax + ay - ax * ay <> 0 <-> (0 < ax \/ 0 < ay)).
Proof. exact coprod_ne_0_iff. Qed.
Print Assumptions comul_admissible_iff.

(* Commutativity, as equality of [option bop]; holds for all real operands, well-formed or not
   (both sides are None together). *)
Theorem mul_comm : forall eps bx dx ux ax by_ dy uy ay,
  bmul (B:=FldR) eps (bopR bx dx ux ax) (bopR by_ dy uy ay) =
  bmul (B:=FldR) eps (bopR by_ dy uy ay) (bopR bx dx ux ax).
Proof. exact bmul_comm. Qed.
Print Assumptions mul_comm.

Theorem comul_comm : forall eps bx dx ux ax by_ dy uy ay,
  bcomul (B:=FldR) eps (bopR bx dx ux ax) (bopR by_ dy uy ay) =
  bcomul (B:=FldR) eps (bopR by_ dy uy ay) (bopR bx dx ux ax).
Proof. exact bcomul_comm. Qed.
Print Assumptions comul_comm.

(* De Morgan, with [bneg (b,d,u;a) = (d,b,u;1-a)]: comultiplying the negations gives the
   negation of the product - for all well-formed operands (when both base rates are 1 both
   sides are None) - and dually. *)
Theorem de_morgan_or_of_negations : forall eps, 0 <= eps <= 1/8 ->
  forall bx dx ux ax by_ dy uy ay,
  wf_bop bx dx ux ax -> wf_bop by_ dy uy ay ->
  bcomul (B:=FldR) eps (bneg (bopR bx dx ux ax)) (bneg (bopR by_ dy uy ay)) =
  option_map bneg (bmul (B:=FldR) eps (bopR bx dx ux ax) (bopR by_ dy uy ay)).
Proof. exact de_morgan. Qed.
Print Assumptions de_morgan_or_of_negations.

Theorem de_morgan_and_of_negations : forall eps, 0 <= eps <= 1/8 ->
  forall bx dx ux ax by_ dy uy ay,
  wf_bop bx dx ux ax -> wf_bop by_ dy uy ay ->
  bmul (B:=FldR) eps (bneg (bopR bx dx ux ax)) (bneg (bopR by_ dy uy ay)) =
  option_map bneg (bcomul (B:=FldR) eps (bopR bx dx ux ax) (bopR by_ dy uy ay)).
Proof. exact de_morgan_dual. Qed.
Print Assumptions de_morgan_and_of_negations.

Theorem neg_is_negation : forall b d u a,
  bneg (bopR b d u a) = bopR d b u (1 - a) /\ (wf_bop b d u a -> wf_bop d b u (1 - a)).
Proof. intros b d u a. exact (conj (bneg_bopR b d u a) (wf_bop_neg b d u a)). Qed.
Print Assumptions neg_is_negation.

(* Associativity, full strength (equality of the two iterated results as [option bop], both
   of them [Some]), for triples whose intermediate base rates are admissible.  Without that
   hypothesis it fails: ax = ay = 1 > az makes the left side None and the right side Some. *)
Theorem mul_assoc : forall eps, 0 <= eps <= 1/8 ->
  forall bx dx ux ax by_ dy uy ay bz dz uz az,
  wf_bop bx dx ux ax -> wf_bop by_ dy uy ay -> wf_bop bz dz uz az ->
  ax * ay <> 1 -> ay * az <> 1 ->
  obind (bmul (B:=FldR) eps (bopR bx dx ux ax) (bopR by_ dy uy ay))
        (fun w => bmul (B:=FldR) eps w (bopR bz dz uz az)) =
  obind (bmul (B:=FldR) eps (bopR by_ dy uy ay) (bopR bz dz uz az))
        (fun w => bmul (B:=FldR) eps (bopR bx dx ux ax) w).
Proof. exact bmul_assoc. Qed.
Print Assumptions mul_assoc.

Theorem comul_assoc : forall eps, 0 <= eps <= 1/8 ->
  forall bx dx ux ax by_ dy uy ay bz dz uz az,
  wf_bop bx dx ux ax -> wf_bop by_ dy uy ay -> wf_bop bz dz uz az ->
  ax + ay - ax * ay <> 0 -> ay + az - ay * az <> 0 ->
  obind (bcomul (B:=FldR) eps (bopR bx dx ux ax) (bopR by_ dy uy ay))
        (fun w => bcomul (B:=FldR) eps w (bopR bz dz uz az)) =
  obind (bcomul (B:=FldR) eps (bopR by_ dy uy ay) (bopR bz dz uz az))
        (fun w => bcomul (B:=FldR) eps (bopR bx dx ux ax) w).
Proof. exact bcomul_assoc. Qed.
Print Assumptions comul_assoc.

(* the iterated product is defined (so the equation above is not None = None) *)
Theorem mul_assoc_defined : forall eps, 0 <= eps <= 1/8 ->
  forall bx dx ux ax by_ dy uy ay bz dz uz az,
  wf_bop bx dx ux ax -> wf_bop by_ dy uy ay -> wf_bop bz dz uz az ->
  ax * ay <> 1 -> ay * az <> 1 ->
  exists b d u, wf_bop b d u (ax * (ay * az)) /\
  obind (bmul (B:=FldR) eps (bopR by_ dy uy ay) (bopR bz dz uz az))
        (fun w => bmul (B:=FldR) eps (bopR bx dx ux ax) w) = Some (bopR b d u (ax * (ay * az))).
Proof. exact bmul_assoc_defined. Qed.
Print Assumptions mul_assoc_defined.

Theorem comul_assoc_defined : forall eps, 0 <= eps <= 1/8 ->
  forall bx dx ux ax by_ dy uy ay bz dz uz az,
  wf_bop bx dx ux ax -> wf_bop by_ dy uy ay -> wf_bop bz dz uz az ->
  ax + ay - ax * ay <> 0 -> ay + az - ay * az <> 0 ->
  let ayz := ay + az - ay * az in
  exists b d u, wf_bop b d u (ax + ayz - ax * ayz) /\
  obind (bcomul (B:=FldR) eps (bopR by_ dy uy ay) (bopR bz dz uz az))
        (fun w => bcomul (B:=FldR) eps (bopR bx dx ux ax) w) = Some (bopR b d u (ax + ayz - ax * ayz)).
Proof. exact bcomul_assoc_defined. Qed.
Print Assumptions comul_assoc_defined.

(* the hypothesis of associativity cannot be dropped *)
Theorem mul_assoc_needs_admissible : forall eps, 0 <= eps <= 1/8 ->
  obind (bmul (B:=FldR) eps (bopR (1/2) (1/4) (1/4) 1) (bopR (1/2) (1/4) (1/4) 1))
        (fun w => bmul (B:=FldR) eps w (bopR (1/2) (1/4) (1/4) (1/2))) = None /\
  obind (bmul (B:=FldR) eps (bopR (1/2) (1/4) (1/4) 1) (bopR (1/2) (1/4) (1/4) (1/2)))
        (fun w => bmul (B:=FldR) eps (bopR (1/2) (1/4) (1/4) 1) w) <> None.
Proof. exact bmul_assoc_needs_admissible. Qed.
Print Assumptions mul_assoc_needs_admissible.

(* Record of the defect repaired between the pinned tree and HEAD: with the pinned
   uncertainty formula ((1 - b_x) where the definition has (1 - a_x)) the result for the
   ordinary operands x = (0.5,0.2,0.3; 0.4), y = (0.3,0.3,0.4; 0.6) does not sum to 1 ... *)
Theorem mul_pinned_refuted :
  wf_bop (1/2) (1/5) (3/10) (2/5) /\ wf_bop (3/10) (3/10) (2/5) (3/5) /\
  mulB_pinned (1/2) (3/10) (2/5) (3/10) (2/5) (3/5) + mulD (1/5) (3/10)
    + mulU_pinned (1/2) (3/10) (2/5) (3/10) (2/5) (3/5) <> 1.
Proof. exact bmul_pinned_refuted. Qed.
Print Assumptions mul_pinned_refuted.

(* ... so BOpinion::new panicked for every tolerance up to 1/256 ... *)
Theorem mul_pinned_rejected : forall eps, 0 <= eps <= 1/256 ->
  btry_new (B:=FldR) eps (Some (mulB_pinned (1/2) (3/10) (2/5) (3/10) (2/5) (3/5)))
    (Some (mulD (1/5) (3/10))) (Some (mulU_pinned (1/2) (3/10) (2/5) (3/10) (2/5) (3/5)))
    (Some (2/5 * (3/5))) = None.
Proof. exact bmul_pinned_rejected. Qed.
Print Assumptions mul_pinned_rejected.

(* ... likewise the pinned comultiplication (belief masses where the definition has
   disbelief masses) on the same operands ... *)
Theorem comul_pinned_refuted :
  comulB (1/2) (3/10) + comulD (1/5) (3/10) (2/5) (3/10) (2/5) (3/5)
    + comulU_pinned (1/2) (1/5) (3/10) (2/5) (3/10) (3/10) (2/5) (3/5) <> 1.
Proof. exact bcomul_pinned_refuted. Qed.
Print Assumptions comul_pinned_refuted.

(* ... while the repaired operator accepts them. *)
Theorem mul_witness_accepted : forall eps, 0 <= eps <= 1/8 ->
  exists b d u, bmul (B:=FldR) eps (bopR (1/2) (1/5) (3/10) (2/5)) (bopR (3/10) (3/10) (2/5) (3/5))
    = Some (bopR b d u (2/5 * (3/5))) /\ wf_bop b d u (2/5 * (3/5)).
Proof. exact bmul_witness_ok. Qed.
Print Assumptions mul_witness_accepted.

(* non-vacuity: the hypotheses of the theorems (pairs and triples, admissible base rates) are
   met by concrete, non-trivial operands *)
Example c12_nonvacuous :
  wf_bop (1/2) (1/5) (3/10) (2/5) /\ wf_bop (3/10) (3/10) (2/5) (3/5) /\ wf_bop (1/4) (1/2) (1/4) (1/2) /\
  2/5 * (3/5) <> 1 /\ 3/5 * (1/2) <> 1 /\ 2/5 + 3/5 - 2/5 * (3/5) <> 0 /\ 3/5 + 1/2 - 3/5 * (1/2) <> 0.
Proof. unfold wf_bop. repeat split; lra. Qed.
