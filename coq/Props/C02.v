(* C02 - Belief fusion is closed over well-formed opinions and never panics.
   Only statements, each closed by [exact]; proofs are in Facts/Fusion.v.

   Operands are real opinions (lb, lu, la), (rb, ru, ra) over the same domain (any size);
   [same] is the pointer-equality shortcut of compute_base_rate (no theorem below needs the
   operands' base rates to be equal when [same = true]; they hold for both values of [same]).
   The result of the model is given explicitly by [fuseR] (Facts/Fusion.v), whose components
   are [fused_b], [fused_u], [fused_a]; it is built from [compute_simplexR],
   [compute_base_rateR] and, for ECm, [fumaxR] (uncertainty maximisation).

   Finding recorded here: for ACm, Avg and Wgh the fused simplex is exactly well-formed for
   every guard tolerance 0 <= eps <= 1/8.  For ECm exact well-formedness holds at eps = 0,
   and for eps > 0 under the side condition [ecm_side] (the fused base rate sums to exactly 1
   and every entry is 0 or > eps); without it the result is well-formed only up to the
   tolerance (masses >= - eps, total mass within n * eps of 1), and the exact statement is
   refuted by two witnesses ([fusion_ecm_closed_refuted], [fusion_ecm_negative_mass]). *)
From Coq Require Import Reals List Lra.
Import ListNotations.
From SL Require Import Model.Num Model.Vec Model.Mul Model.InstR Facts.RBase Facts.Fusion.
Open Scope R_scope.

(* ---------------------------------------------------------------- definedness *)

(* compute_simlex: for well-formed operands of equal length every denominator behind the guard
   ladder is non-zero and the final normalisation divides by exactly 1 (the general branches
   of [compute_simplexR] carry no normalisation), so no entry is NaN *)
Theorem compute_simplex_defined : forall eps, 0 <= eps <= 1/8 ->
  forall lb rb lu ru, wf_simplex lb lu -> wf_simplex rb ru -> length lb = length rb ->
  forall op,
  compute_simplex (B:=FldR) eps op (map Some lb, Some lu) (map Some rb, Some ru) =
  (map Some (fst (compute_simplexR eps op (lb, lu) (rb, ru))),
   Some (snd (compute_simplexR eps op (lb, lu) (rb, ru)))).
Proof. exact compute_simplex_eval. Qed.
Print Assumptions compute_simplex_defined.

Theorem compute_base_rate_defined : forall eps, 0 <= eps <= 1/8 ->
  forall lu ru, 0 <= lu -> lu <= 1 -> 0 <= ru -> ru <= 1 ->
  forall op same (la ra : list R),
  compute_base_rate (B:=FldR) eps op same (Some lu) (map Some la) (Some ru) (map Some ra) =
  map Some (compute_base_rateR eps op same lu la ru ra).
Proof. exact compute_base_rate_eval. Qed.
Print Assumptions compute_base_rate_defined.

(* the denominators: u1 + u2 - u1 u2 > 0 unless both dogmatic (and >= max u1 u2);
   u1 (1 - u2) + u2 (1 - u1) > 0 unless both dogmatic or both vacuous;
   (1 - u1) + (1 - u2) > 0 unless both vacuous *)
Theorem fusion_denominators_positive : forall lu ru, 0 <= lu <= 1 -> 0 <= ru <= 1 ->
  (0 < lu \/ 0 < ru -> 0 < lu + ru - lu * ru) /\
  Rmax lu ru <= lu + ru - lu * ru /\
  (0 < lu \/ 0 < ru -> 0 < lu + ru) /\
  (~ (lu = 0 /\ ru = 0) -> ~ (lu = 1 /\ ru = 1) -> 0 < ru * (1 - lu) + lu * (1 - ru)) /\
  (~ (lu = 1 /\ ru = 1) -> 0 < (1 - lu) + (1 - ru)).
Proof.
  intros lu ru Hl Hr.
  exact (conj (acm_den_pos lu ru Hl Hr)
        (conj (acm_den_ge_max lu ru Hl Hr)
        (conj (avg_den_pos lu ru (proj1 Hl) (proj1 Hr))
        (conj (wgh_den_pos lu ru Hl Hr)
              (wgh_base_den_pos lu ru (proj2 Hl) (proj2 Hr)))))).
Qed.
Print Assumptions fusion_denominators_positive.

(* fusion never panics: all four operators, both values of [same], every domain size *)
Theorem fusion_defined : forall eps, 0 <= eps <= 1/8 ->
  forall lb rb la ra lu ru,
  wf_opinion lb lu la -> wf_opinion rb ru ra -> length lb = length rb ->
  forall op same,
  fuse (B:=FldR) eps op same (map Some lb, Some lu, map Some la) (map Some rb, Some ru, map Some ra)
  = (map Some (fused_b eps op same (lb, lu, la) (rb, ru, ra)),
     Some (fused_u eps op same (lb, lu, la) (rb, ru, ra)),
     map Some (fused_a eps op same (lb, lu, la) (rb, ru, ra))).
Proof. exact fuse_defined. Qed.
Print Assumptions fusion_defined.

(* ------------------------------------------------------------------- closure *)

(* one statement over [op]: the fused simplex is well-formed; ECm needs [ecm_side] *)
Theorem fusion_closed : forall eps, 0 <= eps <= 1/8 ->
  forall lb rb la ra lu ru,
  wf_opinion lb lu la -> wf_opinion rb ru ra -> length lb = length rb ->
  forall op same,
  (op = ECm -> ecm_side eps (fused_a eps ECm same (lb, lu, la) (rb, ru, ra))) ->
  wf_simplex (fused_b eps op same (lb, lu, la) (rb, ru, ra))
             (fused_u eps op same (lb, lu, la) (rb, ru, ra)).
Proof. exact fuse_closed. Qed.
Print Assumptions fusion_closed.

(* ACm, Avg, Wgh: unconditional, and the simplex is [compute_simplexR] *)
Theorem fusion_closed_acm_avg_wgh : forall eps, 0 <= eps <= 1/8 ->
  forall lb rb la ra lu ru,
  wf_opinion lb lu la -> wf_opinion rb ru ra -> length lb = length rb ->
  forall op same, op <> ECm ->
  wf_simplex (fused_b eps op same (lb, lu, la) (rb, ru, ra))
             (fused_u eps op same (lb, lu, la) (rb, ru, ra)).
Proof. exact fuse_wf. Qed.
Print Assumptions fusion_closed_acm_avg_wgh.

(* ECm under the side condition on the fused base rate *)
Theorem fusion_closed_ecm : forall eps, 0 <= eps <= 1/8 ->
  forall lb rb la ra lu ru,
  wf_opinion lb lu la -> wf_opinion rb ru ra -> length lb = length rb ->
  forall same,
  Rsum (fused_a eps ECm same (lb, lu, la) (rb, ru, ra)) = 1 /\
  Forall (fun x => x = 0 \/ eps < x) (fused_a eps ECm same (lb, lu, la) (rb, ru, ra)) ->
  wf_simplex (fused_b eps ECm same (lb, lu, la) (rb, ru, ra))
             (fused_u eps ECm same (lb, lu, la) (rb, ru, ra)).
Proof. exact fuse_wf_ecm. Qed.
Print Assumptions fusion_closed_ecm.

(* ECm for operands that share one base rate: a condition on that base rate only *)
Theorem fusion_closed_ecm_shared : forall eps, 0 <= eps <= 1/8 ->
  forall lb rb la ra lu ru,
  wf_opinion lb lu la -> wf_opinion rb ru ra -> length lb = length rb ->
  forall same, la = ra -> Forall (fun x => x = 0 \/ eps < x) la ->
  wf_simplex (fused_b eps ECm same (lb, lu, la) (rb, ru, ra))
             (fused_u eps ECm same (lb, lu, la) (rb, ru, ra)).
Proof. exact fuse_wf_ecm_shared. Qed.
Print Assumptions fusion_closed_ecm_shared.

(* exact guards (eps = 0): all four operators return a well-formed OPINION (simplex and
   base-rate distribution, equal lengths), no side condition *)
Theorem fusion_closed_exact_guards : forall op same lb lu la rb ru ra,
  wf_opinion lb lu la -> wf_opinion rb ru ra -> length lb = length rb ->
  wf_opinion (fused_b 0 op same (lb, lu, la) (rb, ru, ra))
             (fused_u 0 op same (lb, lu, la) (rb, ru, ra))
             (fused_a 0 op same (lb, lu, la) (rb, ru, ra)).
Proof. exact fuse_closed_exact. Qed.
Print Assumptions fusion_closed_exact_guards.

(* ECm with no side condition, any eps: closed up to the guard tolerance *)
Theorem fusion_ecm_closed_up_to_tolerance : forall eps, 0 <= eps <= 1/8 ->
  forall lb rb la ra lu ru,
  wf_opinion lb lu la -> wf_opinion rb ru ra -> length lb = length rb ->
  forall same,
  Forall (fun x => - eps <= x) (fused_b eps ECm same (lb, lu, la) (rb, ru, ra)) /\
  0 <= fused_u eps ECm same (lb, lu, la) (rb, ru, ra) <= 1 /\
  Rabs (Rsum (fused_b eps ECm same (lb, lu, la) (rb, ru, ra))
        + fused_u eps ECm same (lb, lu, la) (rb, ru, ra) - 1) <= INR (length la) * eps.
Proof. exact fuse_ecm_approx. Qed.
Print Assumptions fusion_ecm_closed_up_to_tolerance.

(* the exact ECm statement without side condition is false of the model for eps > 0:
   two vacuous opinions, base rates (1/2,1/2,0) and (7/16,1/16,1/2), eps = 1/8 give
   b = (0,0,0), u = 32/33 *)
Theorem fusion_ecm_closed_refuted :
  exists eps lb lu la rb ru ra,
    0 <= eps <= 1/8 /\ wf_opinion lb lu la /\ wf_opinion rb ru ra /\ length lb = length rb /\
    ~ wf_simplex (fused_b eps ECm false (lb, lu, la) (rb, ru, ra))
                 (fused_u eps ECm false (lb, lu, la) (rb, ru, ra)).
Proof. exact fuse_ecm_closed_refuted. Qed.
Print Assumptions fusion_ecm_closed_refuted.

(* and a shared base rate with an entry in (0, eps] gives a negative mass *)
Theorem fusion_ecm_negative_mass :
  let eps := 1/8 in
  let l := ([0; 1/2], 1/2, [1/16; 15/16]) in
  fused_b eps ECm true l l = [-1/24; 1/24] /\ fused_u eps ECm true l l = 1.
Proof. exact fuse_ecm_negative_mass. Qed.
Print Assumptions fusion_ecm_negative_mass.

(* ----------------------------------------------------------------- base rate *)

(* every fused base-rate entry lies between the two operands' entries *)
Theorem fusion_base_rate_range : forall eps, 0 <= eps <= 1/8 ->
  forall lb rb la ra lu ru,
  wf_opinion lb lu la -> wf_opinion rb ru ra -> length lb = length rb ->
  forall op same,
  length (fused_a eps op same (lb, lu, la) (rb, ru, ra)) = length la /\
  forall i, (i < length la)%nat ->
    Rmin (nth i la 0) (nth i ra 0) <= nth i (fused_a eps op same (lb, lu, la) (rb, ru, ra)) 0
      <= Rmax (nth i la 0) (nth i ra 0).
Proof.
  intros eps He lb rb la ra lu ru Hl Hr HL op same.
  exact (conj (fuse_base_length eps He lb rb la ra lu ru Hl Hr HL op same)
              (fuse_base_range eps He lb rb la ra lu ru Hl Hr HL op same)).
Qed.
Print Assumptions fusion_base_rate_range.

(* operands that share a base rate keep it (by value, whatever [same] is; and by pointer) *)
Theorem fusion_base_rate_shared : forall eps, 0 <= eps <= 1/8 ->
  forall lb rb la ra lu ru,
  wf_opinion lb lu la -> wf_opinion rb ru ra -> length lb = length rb ->
  forall op same, la = ra -> fused_a eps op same (lb, lu, la) (rb, ru, ra) = la.
Proof. exact fuse_base_shared. Qed.
Print Assumptions fusion_base_rate_shared.

Theorem fusion_base_rate_same_pointer : forall eps lb rb la ra lu ru op,
  fused_a eps op true (lb, lu, la) (rb, ru, ra) = la.
Proof. exact fuse_base_same. Qed.
Print Assumptions fusion_base_rate_same_pointer.

(* the fused base rate sums to 1 within (domain size) * eps; at eps = 0 this is exactly 1 *)
Theorem fusion_base_rate_sum : forall eps, 0 <= eps <= 1/8 ->
  forall lb rb la ra lu ru,
  wf_opinion lb lu la -> wf_opinion rb ru ra -> length lb = length rb ->
  forall op same,
  Rabs (Rsum (fused_a eps op same (lb, lu, la) (rb, ru, ra)) - 1) <= INR (length la) * eps.
Proof. exact fuse_base_sum_close. Qed.
Print Assumptions fusion_base_rate_sum.

(* exactly 1 whenever the [aeq] shortcut is exact on the operands' entries *)
Theorem fusion_base_rate_sum_exact : forall eps, 0 <= eps <= 1/8 ->
  forall lb rb la ra lu ru,
  wf_opinion lb lu la -> wf_opinion rb ru ra -> length lb = length rb ->
  forall op same,
  (forall x y, In x la -> In y ra -> aeqR eps x y = true -> x = y) ->
  Rsum (fused_a eps op same (lb, lu, la) (rb, ru, ra)) = 1.
Proof. exact fuse_base_sum_sep. Qed.
Print Assumptions fusion_base_rate_sum_exact.

(* every branch of compute_base_rate is one entry-wise convex combination (weight
   [base_wR] in [0,1] on the left entry), short-cut to the left entry when the two entries are
   [aeq] and the branch uses the shortcut ([base_scR], and then the weight is in (0,1)) *)
Theorem fusion_base_rate_is_convex_mix : forall eps, 0 <= eps <= 1/8 ->
  forall lu ru, 0 <= lu -> lu <= 1 -> 0 <= ru -> ru <= 1 ->
  forall op same la ra, length la = length ra ->
  compute_base_rateR eps op same lu la ru ra =
    map2 (mixR eps (base_scR eps op same lu ru) (base_wR eps op same lu ru)) la ra /\
  0 <= base_wR eps op same lu ru <= 1 /\
  (base_scR eps op same lu ru = true -> 0 < base_wR eps op same lu ru < 1).
Proof.
  intros eps He lu ru H1 H2 H3 H4 op same la ra HL.
  exact (conj (compute_base_rateR_mix eps He lu ru H1 H2 H3 H4 op same la ra HL)
        (conj (base_wR_range eps He lu ru H1 H2 H3 H4 op same)
              (base_scR_w eps He lu ru H1 H2 H3 H4 op same))).
Qed.
Print Assumptions fusion_base_rate_is_convex_mix.

(* ---------------------------------------------------------------- non-vacuity *)
(* a nearly vacuous operand (u = 1023/1024, not caught by the vacuous guard at eps = 1/4096)
   and a dogmatic operand, with different base rates one of which has a zero entry: the
   hypotheses of all theorems above hold, and cumulative fusion returns the dogmatic operand *)
Example c02_nonvacuous :
  0 <= 1/4096 <= 1/8 /\
  wf_opinion [1/1024; 0; 0] (1023/1024) [1/2; 1/4; 1/4] /\
  wf_opinion [1/2; 1/2; 0] 0 [1/4; 3/4; 0] /\
  length [1/1024; 0; 0] = length [1/2; 1/2; 0] /\
  ecm_side (1/4096) (fused_a (1/4096) ECm false ([1/1024; 0; 0], 1023/1024, [1/2; 1/4; 1/4])
                                               ([1/2; 1/2; 0], 0, [1/4; 3/4; 0])) /\
  fuseR (1/4096) ACm false ([1/1024; 0; 0], 1023/1024, [1/2; 1/4; 1/4]) ([1/2; 1/2; 0], 0, [1/4; 3/4; 0])
  = ([1/2; 1/2; 0], 0, [1/4; 3/4; 0]).
Proof. exact fuse_example. Qed.
