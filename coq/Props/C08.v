(* C08 - The marginal base rate is a fixed-point distribution or absent, never NaN.
   Only statements, each closed by [exact]; proofs are in Facts/Deduce.v.

   Setting: [ax : list R] a base rate on X (zero entries allowed), [conds : list (list R * R)] one
   (belief list, uncertainty) per value of X, each a well-formed simplex over Y with [ny] belief
   masses ([wf_conds ny conds]); they enter the model as [map Some ax] and [map condV conds].
   [mbr_S ax conds] = sum_x a_x sum_y b(y|x), [mbrR ny ax conds] = the real marginal base rate,
   [all_vacuous eps conds] = every u_x passes the crate's [is_vacuous] guard (1 - 2 eps <= u_x). *)
From Coq Require Import Reals List Lra.
Import ListNotations.
From SL Require Import Model.Num Model.Vec Model.Mul Model.InstR Facts.RBase Facts.Deduce.
Open Scope R_scope.

(* [mbr] is absent exactly when all conditionals are vacuous (guard) or S = 0; when present it is
   a list of defined numbers (no NaN) forming a probability distribution over Y that satisfies
   a(y) = sum_x a(x) (b(y|x) + a(y) u_x), i.e. a(y) = sum_x a(x) P(y|x) with P projected under
   that same a.  All |X|, all |Y|. *)
Theorem mbr_spec : forall eps ny ax conds,
  0 <= eps <= 1/8 -> wf_dist ax -> wf_conds ny conds -> length conds = length ax ->
  (mbr (B:=FldR) eps ny (map Some ax) (map condV conds) = None
     <-> all_vacuous eps conds \/ mbr_S ax conds = 0) /\
  (forall res, mbr (B:=FldR) eps ny (map Some ax) (map condV conds) = Some res ->
     res = map Some (mbrR ny ax conds) /\ ~ In None res /\
     wf_dist (mbrR ny ax conds) /\ length (mbrR ny ax conds) = ny /\
     forall y, (y < ny)%nat ->
       nth y (mbrR ny ax conds) 0 =
       Rsum (map2 (fun a c => a * (nth y (fst c) 0 + nth y (mbrR ny ax conds) 0 * snd c)) ax conds)).
Proof. exact mbr_spec_full. Qed.
Print Assumptions mbr_spec.

(* the quantities in [mbr_spec], spelled out *)
Theorem mbr_S_is_sum : forall ax conds,
  mbr_S ax conds = Rsum (map2 (fun a c => a * Rsum (fst c)) ax conds).
Proof. exact mbr_S_unfold. Qed.
Print Assumptions mbr_S_is_sum.

Theorem mbr_entry : forall ny ax conds y, (y < ny)%nat ->
  nth y (mbrR ny ax conds) 0 = Rsum (map2 (fun a c => a * nth y (fst c) 0) ax conds) / mbr_S ax conds.
Proof. exact mbrR_nth. Qed.
Print Assumptions mbr_entry.

(* S = 0 exactly when no conditional that carries belief mass has a positive base rate *)
Theorem mbr_S_zero_meaning : forall ny ax conds,
  nonneg ax -> wf_conds ny conds -> length ax = length conds ->
  mbr_S ax conds = 0 <->
  forall x, (x < length ax)%nat -> nth x ax 0 = 0 \/ snd (nth x conds ([], 1)) = 1.
Proof. exact mbr_S_zero_iff. Qed.
Print Assumptions mbr_S_zero_meaning.

(* with exact guards (eps = 0) the all-vacuous case is subsumed: absent <-> S = 0 *)
Theorem mbr_none_exact : forall ny ax conds,
  wf_dist ax -> wf_conds ny conds -> length conds = length ax ->
  mbr (B:=FldR) 0 ny (map Some ax) (map condV conds) = None <-> mbr_S ax conds = 0.
Proof. exact mbr_none_iff_exact. Qed.
Print Assumptions mbr_none_exact.

(* deduction / abduction without fallback return nothing exactly when mbr is absent
   (for arbitrary model operands, NaN included) *)
Theorem deduce_none_iff : forall eps ny (bx : list RV) (ux : RV) (ax : list RV) (conds : list (@simplex FldR)),
  deduce (B:=FldR) eps ny (bx, ux, ax) conds = None <-> mbr (B:=FldR) eps ny ax conds = None.
Proof. exact deduce_none_iff_gen. Qed.
Print Assumptions deduce_none_iff.

Theorem abduce_none_iff : forall eps (wy : @simplex FldR) (conds : list (@simplex FldR)) (ax : list RV) ny,
  abduce (B:=FldR) eps wy conds ax ny = None <-> mbr (B:=FldR) eps ny ax conds = None.
Proof. exact abduce_none_iff_gen. Qed.
Print Assumptions abduce_none_iff.

(* deduce_with: the fallback is used exactly when mbr is absent, and the result is deduce_of
   with the fallback resp. with the marginal base rate *)
Theorem deduce_with_fallback : forall eps ny (bx : list RV) (ux : RV) (ax : list RV)
    (conds : list (@simplex FldR)) (fb : list RV),
  (snd (deduce_with (B:=FldR) eps ny (bx, ux, ax) conds fb) = true
     <-> mbr (B:=FldR) eps ny ax conds = None) /\
  fst (deduce_with (B:=FldR) eps ny (bx, ux, ax) conds fb) =
    deduce_of (B:=FldR) (bx, ux, ax) conds
      (match mbr (B:=FldR) eps ny ax conds with None => fb | Some ay => ay end).
Proof. exact deduce_with_gen. Qed.
Print Assumptions deduce_with_fallback.

(* on well-formed real operands: fallback branch ... *)
Theorem deduce_with_uses_fallback : forall eps ny bx ux ax conds fb,
  0 <= eps <= 1/8 -> wf_opinion bx ux ax -> wf_conds ny conds -> length conds = length ax ->
  all_vacuous eps conds \/ mbr_S ax conds = 0 -> wf_dist fb -> length fb = ny ->
  deduce_with (B:=FldR) eps ny (map Some bx, Some ux, map Some ax) (map condV conds) (map Some fb)
  = ((map Some (dedB bx ux ax conds fb), Some (dedU bx ax conds fb), map Some fb), true).
Proof. intros eps ny bx ux ax conds fb He. exact (deduce_with_eval_none eps ny bx ux ax conds fb (proj1 He)). Qed.
Print Assumptions deduce_with_uses_fallback.

(* ... and marginal-base-rate branch (the fallback, even a NaN vector, is ignored) *)
Theorem deduce_with_ignores_fallback : forall eps ny bx ux ax conds (fb : list RV),
  0 <= eps <= 1/8 -> wf_opinion bx ux ax -> wf_conds ny conds -> length conds = length ax ->
  ~ all_vacuous eps conds -> mbr_S ax conds <> 0 ->
  deduce_with (B:=FldR) eps ny (map Some bx, Some ux, map Some ax) (map condV conds) fb
  = ((map Some (dedB bx ux ax conds (mbrR ny ax conds)),
      Some (dedU bx ax conds (mbrR ny ax conds)),
      map Some (mbrR ny ax conds)), false).
Proof. intros eps ny bx ux ax conds fb He. exact (deduce_with_eval_some eps ny bx ux ax conds fb (proj1 He)). Qed.
Print Assumptions deduce_with_ignores_fallback.

(* non-vacuity: a table whose only informative conditional sits at a zero-base-rate x gives
   None (not a NaN vector); with a positive base rate there the same table gives (2/3, 1/3). *)
Example c08_nonvacuous : forall eps, 0 <= eps <= 1/8 ->
  wf_dist [0; 1] /\ wf_dist [1/2; 1/2] /\ wf_conds 2 ex_conds /\ ~ all_vacuous eps ex_conds /\
  ex_conds = [([1/2; 1/4], 1/4); ([0; 0], 1)] /\
  mbr (B:=FldR) eps 2 (map Some [0; 1]) (map condV ex_conds) = None /\
  mbr (B:=FldR) eps 2 (map Some [1/2; 1/2]) (map condV ex_conds) = Some (map Some [2/3; 1/3]).
Proof.
  intros eps He.
  exact (conj ex_dist01 (conj ex_dist_half (conj ex_conds_wf (conj (ex_not_vacuous eps He)
        (conj eq_refl (conj (ex_mbr_none eps He) (ex_mbr_some eps He))))))).
Qed.
