(* C09 - Projection is b + a*u and uncertainty maximisation preserves it.
   Only statements, each closed by [exact]; proofs are in Facts/Proj.v.
   Entries are addressed as [nth i l 0] (0 outside the domain, so "0 < nth i a 0" implies
   that i is in the domain).  Real-valued results: [projR b u a] (= b + a u),
   [maxuR eps b u a] (the maximal uncertainty) and [umaxR eps b u a] (the maximised simplex). *)
From Coq Require Import Reals List Lra.
Import ListNotations.
From SL Require Import Model.Num Model.Vec Model.Mul Model.InstR Facts.RBase Facts.Proj.
Open Scope R_scope.

(* 1. For every domain size and every well-formed opinion the projection is defined (the
   normalising sum is exactly 1, no NaN) and is the probability distribution b + a u. *)
Theorem projection_spec : forall b u a, wf_opinion b u a ->
  projection (B:=FldR) (map Some b) (Some u) (map Some a)
    = map Some (map2 (fun bi ai => bi + ai * u) b a) /\
  wf_dist (map2 (fun bi ai => bi + ai * u) b a) /\
  length (map2 (fun bi ai => bi + ai * u) b a) = length b /\
  (forall i, nth i (map2 (fun bi ai => bi + ai * u) b a) 0 = nth i b 0 + nth i a 0 * u).
Proof. exact projection_spec_lemma. Qed.
Print Assumptions projection_spec.

(* max_uncertainty is defined for EVERY well-formed opinion and every guard 0 <= eps <= 1/8
   (the zero test on a_i protects the division), and lies in [u, 1]. *)
Theorem max_uncertainty_value : forall eps b u a, 0 <= eps <= 1/8 -> wf_opinion b u a ->
  max_uncertainty (B:=FldR) eps (map Some b) (Some u) (map Some a) = Some (maxuR eps b u a) /\
  0 <= maxuR eps b u a <= 1 /\ u <= maxuR eps b u a.
Proof.
  intros eps b u a He H.
  exact (conj (max_uncertainty_defined eps He b u a H)
              (conj (maxuR_bounds eps He b u a H) (maxuR_ge_u eps He b u a H))).
Qed.
Print Assumptions max_uncertainty_value.

(* 2. Base-rate entries either 0 or above the guard: the maximised simplex is defined and
   well-formed, has the same projected probability entry by entry, u <= u' <= 1,
   u' = min(1, min_{a_i > 0} P_i / a_i) (upper bound for every such i, and attained unless
   u' = 1), some belief mass with a_i > 0 is exactly 0 unless u' = 1, and
   max_uncertainty returns the same u'. *)
Theorem maxu_spec : forall eps b u a, 0 <= eps <= 1/8 -> wf_opinion b u a ->
  Forall (fun x => x = 0 \/ eps < x) a ->
  exists b' u',
    uncertainty_maximized (B:=FldR) eps (map Some b) (Some u) (map Some a) = (map Some b', Some u') /\
    max_uncertainty (B:=FldR) eps (map Some b) (Some u) (map Some a) = Some u' /\
    (b', u') = umaxR eps b u a /\
    wf_simplex b' u' /\ length b' = length b /\
    (forall i, nth i b' 0 + nth i a 0 * u' = nth i b 0 + nth i a 0 * u) /\
    u <= u' /\ u' <= 1 /\
    (forall i, 0 < nth i a 0 -> u' * nth i a 0 <= nth i b 0 + nth i a 0 * u) /\
    (u' = 1 \/ exists i, 0 < nth i a 0 /\ u' * nth i a 0 = nth i b 0 + nth i a 0 * u) /\
    (u' = 1 \/ exists i, 0 < nth i a 0 /\ nth i b' 0 = 0).
Proof. intros eps b u a He. exact (maxu_spec_lemma eps He b u a). Qed.
Print Assumptions maxu_spec.

(* the maximised opinion is again a well-formed operand (same base rate) *)
Theorem maxu_wf_opinion : forall eps b u a, 0 <= eps <= 1/8 -> wf_opinion b u a ->
  Forall (fun x => x = 0 \/ eps < x) a ->
  wf_opinion (fst (umaxR eps b u a)) (snd (umaxR eps b u a)) a.
Proof. intros eps b u a He. exact (umaxR_wf_opinion eps He b u a). Qed.
Print Assumptions maxu_wf_opinion.

(* 3. Maximising twice changes nothing: whatever simplex the operator returned is a fixed point
   (no side condition on the base rate is needed for this). *)
Theorem maxu_idempotent : forall eps b u a b' u', 0 <= eps <= 1/8 -> wf_opinion b u a ->
  uncertainty_maximized (B:=FldR) eps (map Some b) (Some u) (map Some a) = (map Some b', Some u') ->
  uncertainty_maximized (B:=FldR) eps (map Some b') (Some u') (map Some a) = (map Some b', Some u').
Proof. exact maxu_idempotent_any. Qed.
Print Assumptions maxu_idempotent.

(* 4. Tolerance version, any well-formed opinion (base rates in (0, eps] allowed): defined,
   masses add up to 1, same projection, u <= u' <= 1, every belief mass >= -eps (and >= 0
   wherever a_i = 0 or a_i > eps), u' = min(1, min_{a_i > eps} P_i / a_i). *)
Theorem maxu_tolerant : forall eps b u a, 0 <= eps <= 1/8 -> wf_opinion b u a ->
  uncertainty_maximized (B:=FldR) eps (map Some b) (Some u) (map Some a)
    = (map Some (fst (umaxR eps b u a)), Some (snd (umaxR eps b u a))) /\
  max_uncertainty (B:=FldR) eps (map Some b) (Some u) (map Some a) = Some (snd (umaxR eps b u a)) /\
  length (fst (umaxR eps b u a)) = length b /\
  Rsum (fst (umaxR eps b u a)) + snd (umaxR eps b u a) = 1 /\
  u <= snd (umaxR eps b u a) <= 1 /\
  (forall i, - eps <= nth i (fst (umaxR eps b u a)) 0) /\
  (forall i, nth i a 0 = 0 \/ eps < nth i a 0 -> 0 <= nth i (fst (umaxR eps b u a)) 0) /\
  (forall i, nth i (fst (umaxR eps b u a)) 0 + nth i a 0 * snd (umaxR eps b u a)
             = nth i b 0 + nth i a 0 * u) /\
  (forall i, eps < nth i a 0 -> snd (umaxR eps b u a) * nth i a 0 <= nth i b 0 + nth i a 0 * u) /\
  (snd (umaxR eps b u a) = 1 \/
   exists i, eps < nth i a 0 /\ snd (umaxR eps b u a) * nth i a 0 = nth i b 0 + nth i a 0 * u /\
             nth i (fst (umaxR eps b u a)) 0 = 0).
Proof. intros eps b u a He. exact (maxu_tolerant_lemma eps He b u a). Qed.
Print Assumptions maxu_tolerant.

(* The side condition of [maxu_spec] is necessary: with a base-rate entry equal to the guard
   the result has a negative belief mass (-eps/2), for every eps > 0. *)
Theorem maxu_guard_condition_needed : forall eps, 0 < eps <= 1/8 ->
  wf_opinion [0; 1/2] (1/2) [eps; 1 - eps] /\
  umaxR eps [0; 1/2] (1/2) [eps; 1 - eps] = ([- eps / 2; eps / 2], 1).
Proof. exact maxu_small_base_rate_witness. Qed.
Print Assumptions maxu_guard_condition_needed.

(* non-vacuity: a concrete operand with a zero base-rate entry and a zero belief mass meets the
   hypotheses of every theorem above (guard 1/16) *)
Example c09_nonvacuous :
  wf_opinion [1/4; 1/4; 0] (1/2) [1/2; 0; 1/2] /\
  Forall (fun x => x = 0 \/ 1/16 < x) [1/2; 0; 1/2] /\ 0 <= 1/16 <= 1/8.
Proof.
  split; [|split; [|lra]].
  - unfold wf_opinion, wf_simplex, wf_dist, nonneg; cbn [Rsum length].
    repeat split; try (repeat constructor; lra); lra.
  - constructor; [right; lra|]. constructor; [left; reflexivity|]. constructor; [right; lra|constructor].
Qed.
