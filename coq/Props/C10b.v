(* C10b - Trust discounting in IEEE-754 floating point stays within rounding distance of the
   proved real-number formulas.  Only statements, each closed by [exact]; proofs are in
   Facts/FloatDiscount.v.

   [fdiscount prec emax _ _ b u t] is `impl Discount for Simplex` (src/mul.rs:410-427) on Flocq's
   [binary_float prec emax], round-to-nearest-even, operation by operation:
     if is_vacuous u (= ulps_eq!(u, 1), bit-exact model of Model/Chk.v)
     then (+0, ..., +0; 1.0) else (b_i * t ...; 1.0 - t * (1.0 - u)).
   [unitf prec emax x] := is_finite x = true /\ 0 <= B2R x <= 1.
   [discountR eps] is the real-number result of the model (Facts/Discount.v, Props/C10.v), with
   the guard tolerance eps := 2^(1-prec) = f32/f64::EPSILON.
   eta := 2^emin is the smallest positive subnormal (2^-1074 for f64, 2^-149 for f32). *)
From Coq Require Import ZArith Reals List Bool Lia Lra.
From Flocq Require Import Core.Core IEEE754.Binary IEEE754.Bits IEEE754.BinarySingleNaN.
From SL Require Import Model.Num Model.InstR Model.Chk Facts.RBase Facts.Discount Facts.FloatDiscount.
Import ListNotations.
Open Scope R_scope.

(* The float guard and the real guard decide alike on every finite u. *)
Theorem fdiscount_same_guard :
  forall prec emax (Hp : Prec_gt_0 prec) (Hm : Prec_lt_emax prec emax), (4 <= prec)%Z ->
  forall u : binary_float prec emax, is_finite u = true ->
  Chk.is_vacuous prec emax Hp Hm u = Num.is_one (B:=FldR) (bpow radix2 (1 - prec)) (Some (B2R u)).
Proof. exact guard_agree. Qed.
Print Assumptions fdiscount_same_guard.

(* For every format with 4 <= prec < emax (binary32, binary64, ...), every domain size and all
   finite operands with values in [0,1]: every output is finite (no overflow, no NaN) and in
   [0,1]; each belief mass is within eps/4 -- and within eps/2 * (exact value) + eta/2 -- of the
   real-number result, and the uncertainty mass within 3/4 eps. *)
Theorem fdiscount_close :
  forall prec emax (Hp : Prec_gt_0 prec) (Hm : Prec_lt_emax prec emax), (4 <= prec)%Z ->
  forall (b : list (binary_float prec emax)) (u t : binary_float prec emax),
  Forall (unitf prec emax) b -> unitf prec emax u -> unitf prec emax t ->
  let eps := bpow radix2 (1 - prec) in
  let eta := bpow radix2 (SpecFloat.emin prec emax) in
  let r := fdiscount prec emax Hp Hm b u t in
  let e := discountR eps (map B2R b) (B2R u) (B2R t) in
  Forall (unitf prec emax) (fst r) /\ unitf prec emax (snd r) /\
  Forall2 (fun y x => Rabs (B2R y - x) <= eps / 4 /\
                      Rabs (B2R y - x) <= eps / 2 * x + eta / 2) (fst r) (fst e) /\
  Rabs (B2R (snd r) - snd e) <= 3 / 4 * eps.
Proof. exact FloatDiscount.fdiscount_close. Qed.
Print Assumptions fdiscount_close.

(* If the float operand is exactly a simplex (real sum of the float values = 1), the float
   result is a simplex up to rounding: entries finite and in [0,1], real sum of the outputs
   within (n+3)/4 eps of 1 (n = domain size), and also within 5/4 eps + n eta/2. *)
Theorem fdiscount_wf_approx :
  forall prec emax (Hp : Prec_gt_0 prec) (Hm : Prec_lt_emax prec emax), (4 <= prec)%Z ->
  forall (b : list (binary_float prec emax)) (u t : binary_float prec emax),
  Forall (unitf prec emax) b -> unitf prec emax u -> unitf prec emax t ->
  wf_simplex (map B2R b) (B2R u) ->
  let eps := bpow radix2 (1 - prec) in
  let eta := bpow radix2 (SpecFloat.emin prec emax) in
  let r := fdiscount prec emax Hp Hm b u t in
  let n := INR (length b) in
  Forall (unitf prec emax) (fst r) /\ unitf prec emax (snd r) /\
  Rabs (Rsum (map B2R (fst r)) + B2R (snd r) - 1) <= (n + 3) / 4 * eps /\
  Rabs (Rsum (map B2R (fst r)) + B2R (snd r) - 1) <= 5 / 4 * eps + n * (eta / 2).
Proof. exact FloatDiscount.fdiscount_wf_approx. Qed.
Print Assumptions fdiscount_wf_approx.

(* The two formats of the crate, constants spelled out: f64 (eps = 2^-52) and f32 (eps = 2^-23). *)
Theorem fdiscount_close_f64 : forall (b : list f64) (u t : f64),
  Forall (unitf 53 1024) b -> unitf 53 1024 u -> unitf 53 1024 t ->
  let eps := bpow radix2 (-52) in
  let r := fdiscount 53 1024 Hprec64 Hmax64 b u t in
  let e := discountR eps (map B2R b) (B2R u) (B2R t) in
  Forall (unitf 53 1024) (fst r) /\ unitf 53 1024 (snd r) /\
  Forall2 (fun y x => Rabs (B2R y - x) <= eps / 4 /\
                      Rabs (B2R y - x) <= eps / 2 * x + bpow radix2 (-1074) / 2) (fst r) (fst e) /\
  Rabs (B2R (snd r) - snd e) <= 3 / 4 * eps.
Proof. exact (FloatDiscount.fdiscount_close 53 1024 Hprec64 Hmax64 f64_prec_ge_4). Qed.
Print Assumptions fdiscount_close_f64.

Theorem fdiscount_close_f32 : forall (b : list f32) (u t : f32),
  Forall (unitf 24 128) b -> unitf 24 128 u -> unitf 24 128 t ->
  let eps := bpow radix2 (-23) in
  let r := fdiscount 24 128 Hprec32 Hmax32 b u t in
  let e := discountR eps (map B2R b) (B2R u) (B2R t) in
  Forall (unitf 24 128) (fst r) /\ unitf 24 128 (snd r) /\
  Forall2 (fun y x => Rabs (B2R y - x) <= eps / 4 /\
                      Rabs (B2R y - x) <= eps / 2 * x + bpow radix2 (-149) / 2) (fst r) (fst e) /\
  Rabs (B2R (snd r) - snd e) <= 3 / 4 * eps.
Proof. exact (FloatDiscount.fdiscount_close 24 128 Hprec32 Hmax32 f32_prec_ge_4). Qed.
Print Assumptions fdiscount_close_f32.

(* the bound asked for in the plan, (n+3) eps, for f64 *)
Theorem fdiscount_wf_approx_f64 : forall (b : list f64) (u t : f64),
  Forall (unitf 53 1024) b -> unitf 53 1024 u -> unitf 53 1024 t ->
  wf_simplex (map B2R b) (B2R u) ->
  let r := fdiscount 53 1024 Hprec64 Hmax64 b u t in
  Forall (fun y => is_finite y = true /\ 0 <= B2R y <= 1) (fst r) /\
  (is_finite (snd r) = true /\ 0 <= B2R (snd r) <= 1) /\
  Rabs (Rsum (map B2R (fst r)) + B2R (snd r) - 1) <= (INR (length b) + 3) * bpow radix2 (-52).
Proof. exact fdiscount_wf_approx_f64_weak. Qed.
Print Assumptions fdiscount_wf_approx_f64.

(* Binomial trans_unc arithmetic (src/bi.rs:356-364): (t*b, t*d, (1 - t) + t*u), without the
   argument check and the constructor's validation: outputs finite, within eps/4, eps/4 and eps
   of (t b, t d, 1 - t (1 - u)). *)
Theorem ftrans_unc_close :
  forall prec emax (Hp : Prec_gt_0 prec) (Hm : Prec_lt_emax prec emax), (4 <= prec)%Z ->
  forall b d u t : binary_float prec emax,
  unitf prec emax b -> unitf prec emax d -> unitf prec emax u -> unitf prec emax t ->
  let eps := bpow radix2 (1 - prec) in
  let '(b', d', u') := ftrans_unc prec emax Hp Hm b d u t in
  unitf prec emax b' /\ unitf prec emax d' /\
  is_finite u' = true /\ 0 <= B2R u' <= 1 + eps /\
  Rabs (B2R b' - B2R t * B2R b) <= eps / 4 /\
  Rabs (B2R d' - B2R t * B2R d) <= eps / 4 /\
  Rabs (B2R u' - (1 - B2R t * (1 - B2R u))) <= eps.
Proof. exact FloatDiscount.ftrans_unc_close. Qed.
Print Assumptions ftrans_unc_close.

(* non-vacuity: binary64 operand b = [0.25; 0.25; 0.125], u = 0.375, t = 0.3 (0x3FD3333333333333,
   not a dyadic fraction with short mantissa: the products are really rounded).  The hypotheses
   of all theorems above hold, the guard is not taken, and the float result is
   [0.075; 0.075; 0.0375], 0.8125 (bit patterns below). *)
Example c10b_nonvacuous :
  let b := map f64_of_bits [0x3FD0000000000000; 0x3FD0000000000000; 0x3FC0000000000000]%Z in
  let u := f64_of_bits 0x3FD8000000000000 in
  let t := f64_of_bits 0x3FD3333333333333 in
  Forall (unitf 53 1024) b /\ unitf 53 1024 u /\ unitf 53 1024 t /\
  wf_simplex (map B2R b) (B2R u) /\
  (let r := fdiscount 53 1024 Hprec64 Hmax64 b u t in
   (map (bits_of 53 1024) (fst r), bits_of 53 1024 (snd r)) =
   ([0x3FB3333333333333; 0x3FB3333333333333; 0x3FA3333333333333], 0x3FEA000000000000)%Z).
Proof. exact c10b_example. Qed.
