(* C05 (continued) - the abduction clause that Props/C05.v leaves partial ([abduce_spec_partial]).
   Only statements, each closed by [exact]; proofs are in Facts/Abduce.v, which applies the
   deduction theorem (Facts/Deduce.v, [deduce_of_spec_full]) to the inverted table
   (Facts/Inverse.v, [inverse_defined_wf]).

   Operands as in Props/C05.v: [cs] the conditionals X -> Y ([wf_conds]), [ax] strictly positive
   on X ([pos_dist]), [ay] a distribution on Y with [guard_clear eps ay] (void at eps = 0),
   ([by_], [uy]) a well-formed simplex on Y.
     PyR by_ uy ay y          = by_[y] + ay[y] uy                       (P(y) of the observed opinion)
     PxyR eps cs ax ay x y    = inv_b .. y [x] + ax[x] * inv_u .. y     (projection of the inverted
                                conditional for y: the Bayes ratio on non-negligible columns)
     (abdB .., abdU ..)       = the abduced simplex (deduce_of through [inverseR]) *)
From Coq Require Import Reals List Lra.
Import ListNotations.
From SL Require Import Model.Num Model.Vec Model.Mul Model.InstR Facts.RBase Facts.Inverse Facts.Abduce.
From SL Require Facts.Deduce.
Open Scope R_scope.

(* abduce_with on a well-formed opinion on Y: defined (no NaN), a well-formed simplex on X
   carrying the supplied base rate ax, with projection  b_x + ax_x u = sum_y P(y) P(x|y). *)
Theorem abduce_spec : forall eps cs ax ay by_ uy, 0 <= eps <= 1/8 ->
  wf_conds cs (length ay) -> pos_dist ax -> length ax = length cs ->
  wf_dist ay -> guard_clear eps ay ->
  wf_simplex by_ uy -> length by_ = length ay ->
  abduce_with (B:=FldR) eps (map Some by_, Some uy) (map embS cs) (map Some ax) (map Some ay)
    = (map Some (abdB eps cs ax ay by_ uy), Some (abdU eps cs ax ay by_ uy), map Some ax) /\
  wf_simplex (abdB eps cs ax ay by_ uy) (abdU eps cs ax ay by_ uy) /\
  length (abdB eps cs ax ay by_ uy) = length ax /\
  forall x, (x < length ax)%nat ->
    nth x (abdB eps cs ax ay by_ uy) 0 + nth x ax 0 * abdU eps cs ax ay by_ uy
    = Rsum (map (fun y => PyR by_ uy ay y * PxyR eps cs ax ay x y) (seq 0 (length ay))).
Proof. exact abduce_with_spec. Qed.
Print Assumptions abduce_spec.

(* with exact guards (eps = 0) there is no side condition on ay *)
Theorem abduce_spec_exact : forall cs ax ay by_ uy,
  wf_conds cs (length ay) -> pos_dist ax -> length ax = length cs ->
  wf_dist ay -> wf_simplex by_ uy -> length by_ = length ay ->
  abduce_with (B:=FldR) 0 (map Some by_, Some uy) (map embS cs) (map Some ax) (map Some ay)
    = (map Some (abdB 0 cs ax ay by_ uy), Some (abdU 0 cs ax ay by_ uy), map Some ax) /\
  wf_simplex (abdB 0 cs ax ay by_ uy) (abdU 0 cs ax ay by_ uy) /\
  length (abdB 0 cs ax ay by_ uy) = length ax /\
  forall x, (x < length ax)%nat ->
    nth x (abdB 0 cs ax ay by_ uy) 0 + nth x ax 0 * abdU 0 cs ax ay by_ uy
    = Rsum (map (fun y => PyR by_ uy ay y * PxyR 0 cs ax ay x y) (seq 0 (length ay))).
Proof. exact abduce_with_spec_exact. Qed.
Print Assumptions abduce_spec_exact.

(* P(x|y) in the sum above is Bayes' ratio ax_x P(y|x) / sum_x' ax_x' P(y|x') for every y whose
   likelihood column is not negligible *)
Theorem abduce_projection_bayes : forall eps cs ax ay x y, 0 <= eps <= 1/8 ->
  wf_conds cs (length ay) -> pos_dist ax -> length ax = length cs -> wf_dist ay ->
  (x < length ax)%nat -> (y < length ay)%nat -> col_negligible eps cs ay y = false ->
  0 < qy cs ax ay y /\ PxyR eps cs ax ay x y = nth x ax 0 * PyxR cs ay x y / qy cs ax ay y.
Proof. exact abduce_PxyR_bayes. Qed.
Print Assumptions abduce_projection_bayes.

(* abduce: whenever the marginal base rate of Y is defined (the only case in which abduce returns
   something, [abduce_none_iff] in Props/C05.v), the result is abduce_with under
   ay = mbrR ny ax cs, with the same well-formedness and projection *)
Theorem abduce_mbr_spec : forall eps cs ax ny by_ uy, 0 <= eps <= 1/8 ->
  wf_conds cs ny -> pos_dist ax -> length ax = length cs ->
  wf_simplex by_ uy -> length by_ = ny ->
  mbr (B:=FldR) eps ny (map Some ax) (map embS cs) <> None ->
  let ay := Deduce.mbrR ny ax cs in
  guard_clear eps ay ->
  wf_dist ay /\ length ay = ny /\
  abduce (B:=FldR) eps (map Some by_, Some uy) (map embS cs) (map Some ax) ny
    = Some (map Some (abdB eps cs ax ay by_ uy), Some (abdU eps cs ax ay by_ uy), map Some ax) /\
  wf_simplex (abdB eps cs ax ay by_ uy) (abdU eps cs ax ay by_ uy) /\
  length (abdB eps cs ax ay by_ uy) = length ax /\
  forall x, (x < length ax)%nat ->
    nth x (abdB eps cs ax ay by_ uy) 0 + nth x ax 0 * abdU eps cs ax ay by_ uy
    = Rsum (map (fun y => PyR by_ uy ay y * PxyR eps cs ax ay x y) (seq 0 ny)).
Proof. exact abduce_spec_mbr. Qed.
Print Assumptions abduce_mbr_spec.

Theorem abduce_mbr_spec_exact : forall cs ax ny by_ uy,
  wf_conds cs ny -> pos_dist ax -> length ax = length cs ->
  wf_simplex by_ uy -> length by_ = ny ->
  mbr (B:=FldR) 0 ny (map Some ax) (map embS cs) <> None ->
  let ay := Deduce.mbrR ny ax cs in
  wf_dist ay /\ length ay = ny /\
  abduce (B:=FldR) 0 (map Some by_, Some uy) (map embS cs) (map Some ax) ny
    = Some (map Some (abdB 0 cs ax ay by_ uy), Some (abdU 0 cs ax ay by_ uy), map Some ax) /\
  wf_simplex (abdB 0 cs ax ay by_ uy) (abdU 0 cs ax ay by_ uy) /\
  length (abdB 0 cs ax ay by_ uy) = length ax /\
  forall x, (x < length ax)%nat ->
    nth x (abdB 0 cs ax ay by_ uy) 0 + nth x ax 0 * abdU 0 cs ax ay by_ uy
    = Rsum (map (fun y => PyR by_ uy ay y * PxyR 0 cs ax ay x y) (seq 0 ny)).
Proof. exact abduce_spec_mbr_exact. Qed.
Print Assumptions abduce_mbr_spec_exact.

(* non-vacuity: the operands of Props/C05.v's example together with an observed opinion on Y *)
Example c05b_nonvacuous :
  let cs := [([1/4; 1/4], 1/2); ([1/2; 0], 1/2)] in
  let ax := [1/4; 3/4] in let ay := [1/2; 1/2] in
  let by_ := [1/2; 1/4] in let uy := 1/4 in
  0 <= 1/1024 <= 1/8 /\ wf_conds cs (length ay) /\ pos_dist ax /\ length ax = length cs /\
  wf_dist ay /\ guard_clear (1/1024) ay /\ wf_simplex by_ uy /\ length by_ = length ay.
Proof.
  cbv zeta. split; [lra|]. split.
  { unfold wf_conds, wf_simplex, nonneg. repeat constructor; cbn [fst snd Rsum]; lra. }
  split. { unfold pos_dist. split; [repeat constructor; lra|cbn; lra]. }
  split. { reflexivity. }
  split. { unfold wf_dist, nonneg. split; [repeat constructor; lra|cbn; lra]. }
  split. { unfold guard_clear. constructor; [right; lra|constructor; [right; lra|constructor]]. }
  split. { unfold wf_simplex, nonneg. split; [repeat constructor; lra|cbn; lra]. }
  reflexivity.
Qed.
