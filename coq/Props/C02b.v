(* C02, continued - the rounding-level defect of the cumulative base rate repaired in /repo ("fusion evaluates
   u_l + u_r - 2 u_l u_r without cancellation"), exhibited in IEEE-754 binary64 arithmetic: the model instantiated at
   Flocq's operations (Model/InstF.v) and evaluated by the kernel.  [compute_base_rate_cancelling] is the model function
   with the pre-repair normaliser and nothing else changed (Facts/FloatWitness.v).  Statements only. *)
From Coq Require Import ZArith List Bool.
Import ListNotations.
From SL Require Import Model.Num Model.Vec Model.Mul Model.Chk Model.InstF Facts.FloatWitness.

(* u_l = 1 - 5 2^-53, u_r = 1 - 6 2^-53: exactly representable, neither vacuous for the crate; base rates (1/4, 3/4) and
   (5/8, 3/8).  Before the repair the fused "base rate" adds up to 1.1 and is not a distribution; after it, it is. *)
Theorem fusion_base_rate_cancellation_defect_binary64 :
  cl_u = z64 0x3feffffffffffffb /\ cr_u = z64 0x3feffffffffffffa /\
  cl_a = [z64 0x3fd0000000000000; z64 0x3fe8000000000000] /\
  cr_a = [z64 0x3fe4000000000000; z64 0x3fd8000000000000] /\
  Num.is_one (B:=FldB64) eps64 cl_u || Num.is_one (B:=FldB64) eps64 cr_u = false /\
  Mul.check_base_rate (B:=FldB64) eps64
    (compute_base_rate_cancelling (B:=FldB64) eps64 ACm false cl_u cl_a cr_u cr_a) = false /\
  Mul.check_base_rate (B:=FldB64) eps64
    (compute_base_rate (B:=FldB64) eps64 ACm false cl_u cl_a cr_u cr_a) = true.
Proof.
  split; [reflexivity|]. split; [reflexivity|]. split; [reflexivity|]. split; [reflexivity|].
  split; [exact fuse_base_rate_binary64_not_vacuous|].
  split; [exact fuse_base_rate_binary64_cancelling_fails | exact fuse_base_rate_binary64_accepts].
Qed.
Print Assumptions fusion_base_rate_cancellation_defect_binary64.
