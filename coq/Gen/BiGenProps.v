(* The headline theorems of the binomial properties, restated for the definitions GENERATED from the
   current source (SLGen.BiGen, tools/rs2v.py on /repo/src/bi.rs) instead of the hand-written model:
   "the translation of today's BOpinion::mul returns a well-formed opinion whose projected probability is
   the product ...".  Each is the model theorem of Props/C10 C12 C13 C14 transported along the tie proved in
   BiGenEq.v (or, where that one fails, along the semantic tie of BiGenSem.v - tools/sl/core.py fills the
   TIE placeholders accordingly). *)
From Coq Require Import Reals List Bool Lra.
Import ListNotations.
From SL Require Import Model.Num Model.Vec Model.Mul Model.Bi Model.InstR Facts.RBase
  Facts.Discount Facts.BiMul Facts.BiFuse Facts.BiDeduce.
From SLGen Require Import BiGen BiGenEq (*SEM*).
Open Scope R_scope.

Lemma fin_bopR b d u a : exists b' d' u' a', bopR b d u a = mkbop (Some b') (Some d') (Some u') (Some a').
Proof. exists b, d, u, a; reflexivity. Qed.

Section Code.
Variable eps : F FldR.

Lemma tie_mul : forall bx dx ux ax by_ dy uy ay,
  g_mul (B:=FldR) eps (bopR bx dx ux ax) (bopR by_ dy uy ay) = bmul eps (bopR bx dx ux ax) (bopR by_ dy uy ay).
Proof. intros. (*TIE:mul:2*) Qed.
Lemma tie_comul : forall bx dx ux ax by_ dy uy ay,
  g_comul (B:=FldR) eps (bopR bx dx ux ax) (bopR by_ dy uy ay) = bcomul eps (bopR bx dx ux ax) (bopR by_ dy uy ay).
Proof. intros. (*TIE:comul:2*) Qed.
Lemma tie_cfuse : forall b1 d1 u1 a1 b2 d2 u2 a2,
  g_cfuse (B:=FldR) eps (bopR b1 d1 u1 a1) (bopR b2 d2 u2 a2) = bcfuse eps (bopR b1 d1 u1 a1) (bopR b2 d2 u2 a2).
Proof. intros. (*TIE:cfuse:2*) Qed.
Lemma tie_afuse : forall b1 d1 u1 a1 b2 d2 u2 a2 g,
  g_afuse (B:=FldR) eps (bopR b1 d1 u1 a1) (bopR b2 d2 u2 a2) (Some g) = bafuse eps (bopR b1 d1 u1 a1) (bopR b2 d2 u2 a2) (Some g).
Proof. intros. (*TIE:afuse:2*) Qed.
Lemma tie_wfuse : forall b1 d1 u1 a1 b2 d2 u2 a2 g,
  g_wfuse (B:=FldR) eps (bopR b1 d1 u1 a1) (bopR b2 d2 u2 a2) (Some g) = bwfuse eps (bopR b1 d1 u1 a1) (bopR b2 d2 u2 a2) (Some g).
Proof. intros. (*TIE:wfuse:2*) Qed.
Lemma tie_trans_unc : forall b d u a t,
  g_trans_unc (B:=FldR) eps (bopR b d u a) (Some t) = btrans_unc eps (bopR b d u a) (Some t).
Proof. intros. (*TIE:trans_unc:1*) Qed.
Lemma tie_trans_opp : forall b d u a t s,
  g_trans_opp (B:=FldR) eps (bopR b d u a) (Some t) (Some s) = btrans_opp eps (bopR b d u a) (Some t) (Some s).
Proof. intros. (*TIE:trans_opp:1*) Qed.
Lemma tie_trans_bsr : forall b d u a t,
  g_trans_bsr (B:=FldR) eps (bopR b d u a) (Some t) = btrans_bsr eps (bopR b d u a) (Some t).
Proof. intros. (*TIE:trans_bsr:1*) Qed.

(* C12 / C19: today's mul is defined (BOpinion::new accepts its own result), well-formed, multiplies the
   base rates and the projected probabilities *)
Theorem code_mul_spec : 0 <= eps <= 1/8 ->
  forall bx dx ux ax by_ dy uy ay,
  wf_bop bx dx ux ax -> wf_bop by_ dy uy ay -> ax * ay <> 1 ->
  let b := mulB bx ux ax by_ uy ay in
  let d := mulD dx dy in
  let u := mulU bx ux ax by_ uy ay in
  let a := ax * ay in
  g_mul (B:=FldR) eps (bopR bx dx ux ax) (bopR by_ dy uy ay) = Some (bopR b d u a) /\
  wf_bop b d u a /\
  b + a * u = (bx + ax * ux) * (by_ + ay * uy) /\
  d = dx + dy - dx * dy.
Proof.
  intros He bx dx ux ax by_ dy uy ay Wx Wy Ha. rewrite tie_mul.
  destruct (bmul_spec eps He bx dx ux ax by_ dy uy ay Wx Wy Ha) as (H1 & H2 & _ & H4 & H5). auto.
Qed.

Theorem code_comul_spec : 0 <= eps <= 1/8 ->
  forall bx dx ux ax by_ dy uy ay,
  wf_bop bx dx ux ax -> wf_bop by_ dy uy ay -> ax + ay - ax * ay <> 0 ->
  let b := comulB bx by_ in
  let d := comulD dx ux ax dy uy ay in
  let u := comulU dx ux ax dy uy ay in
  let a := ax + ay - ax * ay in
  let px := bx + ax * ux in
  let py := by_ + ay * uy in
  g_comul (B:=FldR) eps (bopR bx dx ux ax) (bopR by_ dy uy ay) = Some (bopR b d u a) /\
  wf_bop b d u a /\
  b + a * u = px + py - px * py.
Proof.
  intros He bx dx ux ax by_ dy uy ay Wx Wy Ha. rewrite tie_comul.
  destruct (bcomul_spec eps He bx dx ux ax by_ dy uy ay Wx Wy Ha) as (H1 & H2 & _ & H4 & _). auto.
Qed.

(* C13 / C19: today's cfuse is defined and well-formed unless both operands are dogmatic, and errs exactly then *)
Theorem code_cfuse_spec : 0 <= eps <= 1/8 -> forall b1 d1 u1 a1 b2 d2 u2 a2,
  wf_bop b1 d1 u1 a1 -> wf_bop b2 d2 u2 a2 ->
  (~ (u1 = 0 /\ u2 = 0) ->
   g_cfuse (B:=FldR) eps (bopR b1 d1 u1 a1) (bopR b2 d2 u2 a2) =
     Some (bopR (cfuse_b b1 u1 b2 u2) (cfuse_b d1 u1 d2 u2) (cfuse_u u1 u2) (cfuse_a eps a1 u1 a2 u2)) /\
   wf_bop (cfuse_b b1 u1 b2 u2) (cfuse_b d1 u1 d2 u2) (cfuse_u u1 u2) (cfuse_a eps a1 u1 a2 u2)) /\
  (g_cfuse (B:=FldR) eps (bopR b1 d1 u1 a1) (bopR b2 d2 u2 a2) = None <-> u1 = 0 /\ u2 = 0).
Proof.
  intros He b1 d1 u1 a1 b2 d2 u2 a2 W1 W2. rewrite tie_cfuse. split.
  - intros Hn. exact (bcfuse_defined eps He b1 d1 u1 a1 b2 d2 u2 a2 W1 W2 Hn).
  - exact (bcfuse_err_iff eps He b1 d1 u1 a1 b2 d2 u2 a2 W1 W2).
Qed.

(* C14 / C19: today's deduce is defined and well-formed inside its domain and carries the base rate ay *)
Theorem code_deduce_wf : forall bx dx ux ax b0 d0 u0 b1 d1 u1 ay,
  0 <= eps <= 1/8 -> wf_bop bx dx ux ax -> 0 < ax < 1 -> 0 < bx + ax * ux < 1 ->
  wf_cond b0 d0 u0 -> wf_cond b1 d1 u1 -> 0 < ay < 1 ->
  g_deduce (B:=FldR) eps (bopR bx dx ux ax) ((Some b0, Some d0, Some u0), (Some b1, Some d1, Some u1)) (Some ay) =
  Some (bopR (bdedB bx dx ux ax b0 d0 u0 b1 d1 u1 ay) (bdedD bx dx ux ax b0 d0 u0 b1 d1 u1 ay)
             (bdedU bx dx ux ax b0 d0 u0 b1 d1 u1 ay) ay) /\
  wf_bop (bdedB bx dx ux ax b0 d0 u0 b1 d1 u1 ay) (bdedD bx dx ux ax b0 d0 u0 b1 d1 u1 ay)
         (bdedU bx dx ux ax b0 d0 u0 b1 d1 u1 ay) ay.
Proof.
  intros bx dx ux ax b0 d0 u0 b1 d1 u1 ay He W Ha Hp W0 W1 Hay.
  rewrite (gen_deduce_eq (B:=FldR)).
  exact (bdeduce_wf_full eps bx dx ux ax b0 d0 u0 b1 d1 u1 ay He W Ha Hp W0 W1 Hay).
Qed.

(* C10 / C19: today's three binomial discounts *)
Theorem code_trans_unc_spec : 0 <= eps <= 1/8 -> forall b d u a t,
  wf_bop b d u a -> 0 <= t <= 1 ->
  g_trans_unc (B:=FldR) eps (bopR b d u a) (Some t) = Some (bopR (t * b) (t * d) (1 - t * (1 - u)) a) /\
  wf_bop (t * b) (t * d) (1 - t * (1 - u)) a.
Proof. intros He b d u a t W Ht. rewrite tie_trans_unc. exact (btrans_unc_spec eps He b d u a t W Ht). Qed.

Theorem code_trans_bsr_spec : 0 <= eps <= 1/8 -> forall b d u a t,
  wf_bop b d u a -> 0 <= t <= 1 ->
  g_trans_bsr (B:=FldR) eps (bopR b d u a) (Some t) = Some (bopR (t * b) (t * d) (1 - t * (1 - u)) a).
Proof. intros He b d u a t W Ht. rewrite tie_trans_bsr. exact (btrans_bsr_spec eps He b d u a t W Ht). Qed.

Theorem code_trans_opp_spec : 0 <= eps <= 1/8 -> forall b d u a t s,
  wf_bop b d u a -> 0 <= t -> 0 <= s -> t + s <= 1 ->
  g_trans_opp (B:=FldR) eps (bopR b d u a) (Some t) (Some s) =
    Some (bopR (t * b + s * d) (t * d + s * b) (1 - (t + s) * (1 - u)) a) /\
  wf_bop (t * b + s * d) (t * d + s * b) (1 - (t + s) * (1 - u)) a.
Proof. intros He b d u a t s W Ht Hs Hts. rewrite tie_trans_opp. exact (btrans_opp_spec eps He b d u a t s W Ht Hs Hts). Qed.

End Code.

Print Assumptions code_mul_spec.
Print Assumptions code_comul_spec.
Print Assumptions code_cfuse_spec.
Print Assumptions code_deduce_wf.
Print Assumptions code_trans_unc_spec.
Print Assumptions code_trans_bsr_spec.
Print Assumptions code_trans_opp_spec.
