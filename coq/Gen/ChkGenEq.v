(* The tolerance predicates of src/approx_ext.rs and the two checking functions of src/errors.rs, translated by
   tools/rs2v.py --checks on every run (SLGen.ChkGen), are the model's: [is_one] / [is_zero] literally (every
   number structure), and `in_unit_interval`

       (0 <= v && v <= 1) || ulps_eq!(v, 0) || ulps_eq!(v, 1)

   is [Num.in_unit] = (-eps <= v <= 1 + 4 eps) on the real instance for every tolerance 0 <= eps <= 1 and every v,
   NaN included (for eps > 1 the two differ: 1 - 2 eps < -eps).  This closes the table of primitives that the translation of src/bi.rs (BiGen) interprets:
   `check_unit_interval` = Num.in_unit, `check_is_one` = Num.is_one. *)
From Coq Require Import Reals List Bool Lra.
From SL Require Import Model.Num Model.InstR Facts.RBase.
From SLGen Require Import ChkGen.
Open Scope R_scope.

Ltac split_ifs :=
  repeat match goal with
  | |- context [if ?c then _ else _] => destruct c eqn:?
  end.

Theorem gen_is_one_eq : forall {B : Fld} (eps : F B) v, g_is_one eps v = is_one eps v.
Proof. intros; unfold g_is_one; cbv zeta; try reflexivity; split_ifs; reflexivity. Qed.

Theorem gen_is_zero_eq : forall {B : Fld} (eps : F B) v, g_is_zero eps v = is_zero eps v.
Proof. intros; unfold g_is_zero; cbv zeta; try reflexivity; split_ifs; reflexivity. Qed.

Theorem gen_check_is_one_eq : forall {B : Fld} (eps : F B) v, g_check_is_one eps v = is_one eps v.
Proof. intros B eps v; unfold g_check_is_one; cbv zeta; destruct (is_one eps v); reflexivity. Qed.

Theorem gen_check_unit_interval_eq : forall {B : Fld} (eps : F B) v, g_check_unit_interval eps v = g_in_unit_interval eps v.
Proof.
  intros B eps v; unfold g_check_unit_interval, g_in_unit_interval; cbv zeta;
  repeat match goal with
  | |- context [leb ?a ?b] => destruct (leb a b)
  | |- context [is_zero ?e ?a] => destruct (is_zero e a)
  | |- context [is_one ?e ?a] => destruct (is_one e a)
  end; reflexivity.
Qed.

Theorem gen_in_unit_interval_eq : forall (eps : R) (v : @V FldR), 0 <= eps <= 1 ->
  g_in_unit_interval (B:=FldR) eps v = in_unit (B:=FldR) eps v.
Proof.
  intros eps [a|] He; [|reflexivity].
  unfold g_in_unit_interval, in_unit, is_zero, is_one, leb, cmp2, zero, one, feps2, feps4; cbv zeta; cbn.
  repeat match goal with |- context [Rleb ?x ?y] => destruct (Rleb_spec x y) end; cbn; try reflexivity; exfalso; lra.
Qed.

Theorem gen_check_unit_interval_is_in_unit : forall (eps : R) (v : @V FldR), 0 <= eps <= 1 ->
  g_check_unit_interval (B:=FldR) eps v = in_unit (B:=FldR) eps v.
Proof. intros eps v He. rewrite gen_check_unit_interval_eq. apply gen_in_unit_interval_eq; exact He. Qed.

(* END *)
Print Assumptions gen_is_one_eq.
Print Assumptions gen_is_zero_eq.
Print Assumptions gen_check_is_one_eq.
Print Assumptions gen_check_unit_interval_eq.
Print Assumptions gen_in_unit_interval_eq.
Print Assumptions gen_check_unit_interval_is_in_unit.
