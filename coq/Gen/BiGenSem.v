(* Fallback tie for src/bi.rs: when a definition generated from the current source (SLGen.BiGen) is no longer
   *syntactically* the model's (coq/Gen/BiGenEq.v), it may still be the same function - operands commuted, a
   product re-associated, a sub-expression factored.  This file proves, for the real-number instance that carries
   the property theorems and for all finite operands, that the generated operator equals the model's operator:
   every quotient is decided (both sides divide by zero on the same operands - shown by ring / field), then the
   values are compared by ring / field.  Guards (the boolean tests) must still be written as in the model.
   Used by tools/sl/core.py only for the theorems of BiGenEq.v that fail; deduce and the constructors have no
   fallback. *)
From Coq Require Import Reals List Bool Lra.
From SL Require Import Model.Num Model.Vec Model.Mul Model.Bi Model.InstR Facts.RBase.
From SLGen Require Import BiGen.
Open Scope R_scope.

Lemma div_zero_eq (a b : R) : b = 0 -> div (B:=FldR) (Some a) (Some b) = None.
Proof. intros ->; apply div_zero. Qed.
Lemma add_none_l (x : RV) : add None x = None. Proof. reflexivity. Qed.
Lemma add_none_r (x : RV) : add x None = None. Proof. destruct x; reflexivity. Qed.
Lemma sub_none_l (x : RV) : sub None x = None. Proof. reflexivity. Qed.
Lemma sub_none_r (x : RV) : sub x None = None. Proof. destruct x; reflexivity. Qed.
Lemma mul_none_l (x : RV) : mul None x = None. Proof. reflexivity. Qed.
Lemma mul_none_r (x : RV) : mul x None = None. Proof. destruct x; reflexivity. Qed.
Lemma div_none_l (x : RV) : div None x = None. Proof. reflexivity. Qed.
Lemma div_none_r (x : RV) : div x None = None. Proof. destruct x; reflexivity. Qed.

Ltac push :=
  repeat (rewrite ?add_some, ?sub_some, ?mul_some, ?zero_some, ?one_some, ?two_some,
                  ?add_none_l, ?add_none_r, ?sub_none_l, ?sub_none_r, ?mul_none_l, ?mul_none_r,
                  ?div_none_l, ?div_none_r, ?gtb_some, ?ltb_some, ?leb_some).

(* decide every quotient whose operands are already values *)
Ltac split_div :=
  repeat (push;
    match goal with
    | |- context [div (Some ?a) (Some ?b)] =>
        first
        [ match goal with H : b = 0 |- _ => rewrite (div_zero_eq a b H) end
        | match goal with H : b <> 0 |- _ => rewrite (div_some a b H) end
        | let E := fresh "Ez" in destruct (Req_EM_T b 0) as [E|E];
          [rewrite (div_zero_eq a b E) | rewrite (div_some a b E)] ]
    end); push.

Ltac zero_clash :=
  exfalso;
  match goal with
  | H1 : ?a = 0, H2 : ?b <> 0 |- _ => apply H2; rewrite <- H1; (ring || field); fail
  | H1 : ?a = 0, H2 : ?b <> 0 |- _ => apply H2; replace b with a; [exact H1 | try ring; field; auto]
  end.

Ltac close_vals :=
  lazymatch goal with
  | |- @None _ = @None _ => reflexivity
  | |- Some _ = Some _ => f_equal; (reflexivity || ring || (field; repeat split; auto; try (intro Hc; zero_clash)))
  | |- Some _ = None => zero_clash
  | |- None = Some _ => zero_clash
  | |- ?a = ?a => reflexivity
  end.

Ltac sem_vals := split_div; close_vals.

From SLGen Require Import BiGenEq.

Section Sem.
Variable eps : F FldR.

Definition fin (w : @bop FldR) : Prop :=
  exists b d u a, w = mkbop (Some b) (Some d) (Some u) (Some a).

Ltac intro_fin :=
  repeat match goal with
  | H : fin ?w |- _ => let b := fresh "b" in let d := fresh "d" in let u := fresh "u" in let a := fresh "a" in
                       destruct H as (b & d & u & a & ->)
  end; cbn [bb bd bu ba].

Ltac split_guards :=
  repeat match goal with
  | |- context [if ?c then _ else _] => destruct c eqn:?
  end.

Ltac sem_op :=
  gen_unfold; intro_fin; rewrite ?(gen_new_eq (B:=FldR)), ?(gen_try_new_eq (B:=FldR)); cbv zeta; cbn [bb bd bu ba];
  split_guards;
  try reflexivity;
  (f_equal; sem_vals).

Theorem sem_projection_eq : forall x : @bop FldR, fin x -> g_projection (B:=FldR) x = bprojection x.
Proof. intros x Hx; unfold g_projection, bprojection; gen_unfold; intro_fin; sem_vals. Qed.

Theorem sem_mul_eq : forall x y : @bop FldR, fin x -> fin y -> g_mul (B:=FldR) eps x y = bmul eps x y.
Proof. intros x y Hx Hy; unfold g_mul, bmul; sem_op. Qed.

Theorem sem_comul_eq : forall x y : @bop FldR, fin x -> fin y -> g_comul (B:=FldR) eps x y = bcomul eps x y.
Proof. intros x y Hx Hy; unfold g_comul, bcomul; sem_op. Qed.

Theorem sem_cfuse_eq : forall x y : @bop FldR, fin x -> fin y -> g_cfuse (B:=FldR) eps x y = bcfuse eps x y.
Proof. intros x y Hx Hy; unfold g_cfuse, bcfuse; sem_op. Qed.

Theorem sem_afuse_eq : forall (x y : @bop FldR) g, fin x -> fin y -> g_afuse (B:=FldR) eps x y (Some g) = bafuse eps x y (Some g).
Proof. intros x y g Hx Hy; unfold g_afuse, bafuse; sem_op. Qed.

Theorem sem_wfuse_eq : forall (x y : @bop FldR) g, fin x -> fin y -> g_wfuse (B:=FldR) eps x y (Some g) = bwfuse eps x y (Some g).
Proof. intros x y g Hx Hy; unfold g_wfuse, bwfuse; sem_op. Qed.

Theorem sem_trans_unc_eq : forall (x : @bop FldR) t, fin x -> g_trans_unc (B:=FldR) eps x (Some t) = btrans_unc eps x (Some t).
Proof. intros x t Hx; unfold g_trans_unc, btrans_unc; sem_op. Qed.

Theorem sem_trans_opp_eq : forall (x : @bop FldR) t s, fin x -> g_trans_opp (B:=FldR) eps x (Some t) (Some s) = btrans_opp eps x (Some t) (Some s).
Proof. intros x t s Hx; unfold g_trans_opp, btrans_opp; sem_op. Qed.

Theorem sem_trans_bsr_eq : forall (x : @bop FldR) ev, fin x -> g_trans_bsr (B:=FldR) eps x (Some ev) = btrans_bsr eps x (Some ev).
Proof. intros x ev Hx; unfold g_trans_bsr, btrans_bsr; sem_op. Qed.

End Sem.

Print Assumptions sem_projection_eq.
Print Assumptions sem_mul_eq.
Print Assumptions sem_comul_eq.
Print Assumptions sem_cfuse_eq.
Print Assumptions sem_afuse_eq.
Print Assumptions sem_wfuse_eq.
Print Assumptions sem_trans_unc_eq.
Print Assumptions sem_trans_opp_eq.
Print Assumptions sem_trans_bsr_eq.
