(* The hand-written model of the binomial operators (Model/Bi.v) IS the translation of the current
   source.  [SLGen.BiGen] is regenerated from /repo/src/bi.rs by tools/rs2v.py on every run; this file
   proves, for every number structure [B] and every tolerance [eps] (so in particular for the real
   instance that carries the property theorems and for the rational instance that is executed), that
   each generated definition equals the model's, on all arguments - no well-formedness hypothesis.

   The proofs only unfold both sides, split on the boolean tests and conclude by reflexivity: they
   survive any edit of the source that keeps the formulas as written and break on any change of a
   formula, a guard, a branch or an argument order.  A rewrite that is algebraically equal but
   syntactically different breaks them too: the check then reports the broken tie
   (no-failing-input-found) unless the correspondence run finds a failing input. *)
From Coq Require Import List Bool.
From SL Require Import Model.Num Model.Vec Model.Mul Model.Bi.
From SLGen Require Import BiGen.

Section Eq.
Context {B : Fld}.
Variable eps : F B.

Ltac split_ifs :=
  repeat match goal with
  | |- context [if ?c then _ else _] => destruct c eqn:?
  | |- context [match ?c with Some _ => _ | None => _ end] => destruct c eqn:?
  end.

Theorem gen_check_simplex_eq : forall b d u, g_check_simplex eps b d u = bcheck_simplex eps b d u.
Proof. intros; unfold g_check_simplex, bcheck_simplex; gen_unfold; cbv zeta; split_ifs; reflexivity. Qed.

Theorem gen_check_base_rate_eq : forall a, g_check_base_rate eps a = in_unit eps a.
Proof. intros; unfold g_check_base_rate; gen_unfold; cbv zeta; try reflexivity; split_ifs; reflexivity. Qed.

Theorem gen_sx_try_new_eq : forall b d u,
  g_sx_try_new eps b d u = if bcheck_simplex eps b d u then Some (b, d, u) else None.
Proof.
  intros; unfold g_sx_try_new; gen_unfold; rewrite ?gen_check_simplex_eq; cbv zeta; try reflexivity;
  split_ifs; reflexivity.
Qed.

Theorem gen_sx_new_eq : forall b d u, g_sx_new eps b d u = g_sx_try_new eps b d u.
Proof. intros; unfold g_sx_new; gen_unfold; cbv zeta; try reflexivity; split_ifs; reflexivity. Qed.

Theorem gen_try_new_eq : forall b d u a, g_try_new eps b d u a = btry_new eps b d u a.
Proof.
  intros; unfold g_try_new, btry_new; gen_unfold; rewrite ?gen_sx_try_new_eq, ?gen_check_base_rate_eq, ?gen_check_simplex_eq;
  cbv zeta.
  destruct (in_unit eps a); destruct (bcheck_simplex eps b d u); reflexivity.
Qed.

(* BOpinion::new panics exactly when try_new errs (both are None in the model) *)
Theorem gen_new_eq : forall b d u a, g_new eps b d u a = btry_new eps b d u a.
Proof. intros; unfold g_new; gen_unfold; cbv zeta; try apply gen_try_new_eq; split_ifs; try apply gen_try_new_eq; reflexivity. Qed.

Theorem gen_projection_eq : forall x : @bop B, g_projection x = bprojection x.
Proof. intros; unfold g_projection; gen_unfold; reflexivity. Qed.

Ltac finish :=
  gen_unfold; rewrite ?gen_new_eq, ?gen_try_new_eq; cbv zeta; try reflexivity; split_ifs; try reflexivity; try discriminate.

Theorem gen_mul_eq : forall x y, g_mul eps x y = bmul eps x y.
Proof. intros; unfold g_mul, bmul; finish. Qed.

Theorem gen_comul_eq : forall x y, g_comul eps x y = bcomul eps x y.
Proof. intros; unfold g_comul, bcomul; finish. Qed.

Theorem gen_cfuse_eq : forall x y, g_cfuse eps x y = bcfuse eps x y.
Proof. intros; unfold g_cfuse, bcfuse; finish. Qed.

Theorem gen_afuse_eq : forall x y g, g_afuse eps x y g = bafuse eps x y g.
Proof. intros; unfold g_afuse, bafuse; finish. Qed.

Theorem gen_wfuse_eq : forall x y g, g_wfuse eps x y g = bwfuse eps x y g.
Proof. intros; unfold g_wfuse, bwfuse; finish. Qed.

Theorem gen_trans_unc_eq : forall x t, g_trans_unc eps x t = btrans_unc eps x t.
Proof. intros; unfold g_trans_unc, btrans_unc; finish. Qed.

Theorem gen_trans_opp_eq : forall x t s, g_trans_opp eps x t s = btrans_opp eps x t s.
Proof. intros; unfold g_trans_opp, btrans_opp; finish. Qed.

Theorem gen_trans_bsr_eq : forall x ev, g_trans_bsr eps x ev = btrans_bsr eps x ev.
Proof. intros; unfold g_trans_bsr, btrans_bsr; finish. Qed.

(* deduce: the conditionals are a pair of (b, d, u) triples on both sides *)
Theorem gen_deduce_eq : forall x c0 c1 ay, g_deduce eps x (c0, c1) ay = bdeduce eps x c0 c1 ay.
Proof.
  intros x [[b0 d0] u0] [[b1 d1] u1] ay.
  unfold g_deduce, bdeduce; gen_unfold; unfold sx_b, sx_d, sx_u, g_projection, bprojection; cbn [fst snd].
  rewrite ?gen_new_eq, ?gen_try_new_eq; cbv zeta.
  repeat match goal with
  | |- context [gtb ?a ?b] => let H := fresh "Hc" in destruct (gtb a b) eqn:H
  end; cbn [andb orb negb Bool.eqb]; try reflexivity;
  repeat match goal with
  | |- context [@Num.eqb ?B ?a ?b] => let H := fresh "He" in destruct (@Num.eqb B a b) eqn:H
  end; cbn [andb orb negb Bool.eqb]; reflexivity.
Qed.

End Eq.

Print Assumptions gen_check_simplex_eq.
Print Assumptions gen_try_new_eq.
Print Assumptions gen_new_eq.
Print Assumptions gen_projection_eq.
Print Assumptions gen_mul_eq.
Print Assumptions gen_comul_eq.
Print Assumptions gen_cfuse_eq.
Print Assumptions gen_afuse_eq.
Print Assumptions gen_wfuse_eq.
Print Assumptions gen_deduce_eq.
Print Assumptions gen_trans_unc_eq.
Print Assumptions gen_trans_opp_eq.
Print Assumptions gen_trans_bsr_eq.
