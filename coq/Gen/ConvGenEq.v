(* src/convert.rs (the conversions between BOpinion and the two-state multinomial opinion), translated by
   tools/rs2v.py --convert on every run (SLGen.ConvGen), is the model's bop_to_mul / mul_to_bop - for every number
   structure; the by-value and the by-reference back conversion are the same function. *)
From Coq Require Import List Bool.
Import ListNotations.
From SL Require Import Model.Num Model.Vec Model.Mul Model.Bi.
From SLGen Require Import ConvGen.

Theorem gen_bop_to_mul_eq : forall {B : Fld} (x : @bop B), g_bop_to_mul x = bop_to_mul x.
Proof. intros B [b d u a]; reflexivity. Qed.

Theorem gen_mul_to_bop_eq : forall {B : Fld} (w : @opinion B), g_mul_to_bop w = mul_to_bop w.
Proof. intros B [[b u] a]; reflexivity. Qed.

Theorem gen_mul_to_bop_ref_eq : forall {B : Fld} (w : @opinion B), g_mul_to_bop_ref w = mul_to_bop w.
Proof. intros B [[b u] a]; reflexivity. Qed.

(* the round trip through the translated conversions is the identity (C13, first clause) *)
Theorem gen_convert_roundtrip : forall {B : Fld} (x : @bop B),
  g_mul_to_bop (g_bop_to_mul x) = x /\ g_mul_to_bop_ref (g_bop_to_mul x) = x.
Proof. intros B [b d u a]; split; reflexivity. Qed.

(* END *)
Print Assumptions gen_bop_to_mul_eq.
Print Assumptions gen_mul_to_bop_eq.
Print Assumptions gen_mul_to_bop_ref_eq.
Print Assumptions gen_convert_roundtrip.
