"""Intensified search after a float-visible rewrite of src/bi.rs.

When the translation of an operator equals the model only semantically (coq/Gen/BiGenSem.v: on the reals, for all finite
operands) and no longer syntactically (BiGenEq.v: for every number structure, hence also in floating point), the rewrite
may have changed the operator's rounding behaviour - for instance by multiplying with a hoisted reciprocal instead of
dividing, which leaves every theorem intact and makes the 4-ulp self-validation reject about one correctly formed result
in a few million.  Nothing exact can see that; this module then runs the operator on millions of random float operands
(implementation only) and hands every rejection to the property's predicates."""
from . import core, gen as G, num
from .core import Case

OPS = {"mul": "bmul", "comul": "bcomul", "cfuse": "bcfuse", "afuse": "bafuse", "wfuse": "bwfuse", "deduce": "bdeduce",
       "trans_unc": "btunc", "trans_opp": "btopp", "trans_bsr": "btbsr"}
CHUNK = 250000


def one(rng, ty, op):
    from .props import c19, c14
    if op == "bdeduce":
        while True:
            x = c19.strat_bop(rng, ty) if rng.chance(1, 2) else G.float_bop(rng, ty, a_open=True)
            c0, c1 = G.float_simplex(rng, ty, 2), G.float_simplex(rng, ty, 2)
            ay = num.rnd(ty, 0.02 + 0.96 * rng.unit())
            if c14.in_domain(x, ay):
                return x + c0[0] + [c0[1]] + c1[0] + [c1[1]] + [ay]
    x = G.float_bop(rng, ty) if rng.chance(3, 4) else c19.strat_bop(rng, ty)
    if op in ("btunc", "btbsr"):
        return x + [num.rnd(ty, rng.unit())]
    if op == "btopp":
        t = num.rnd(ty, rng.unit())
        s = num.rnd(ty, rng.unit() * (1.0 - t))
        if num.rnd(ty, num.rnd(ty, 1.0 - t) - s) < 0:
            s = 0.0
        return x + [t, s]
    y = G.float_bop(rng, ty) if rng.chance(3, 4) else c19.strat_bop(rng, ty)
    if op in ("bafuse", "bwfuse"):
        return x + y + [rng.choice([0.5, 0.0, 1.0, num.rnd(ty, rng.unit())])]
    return x + y


def search(rng, ops, total, want=3):
    """-> (cases run, [(case, implementation result)]): rejections / crashes of the operators `ops` (model op names)"""
    from fractions import Fraction
    hops = [OPS[o] for o in ops if o in OPS]
    found, done = [], 0
    if not hops:
        return 0, found
    while done < total and len(found) < want:
        cases = []
        for i in range(min(CHUNK, total - done)):
            ty = "f64" if i % 2 else "f32"
            op = hops[i % len(hops)]
            nums = one(rng, ty, op)
            if op == "bmul" and Fraction(nums[3]) * Fraction(nums[7]) == 1:
                continue
            if op == "bcomul" and Fraction(nums[3]) == 0 and Fraction(nums[7]) == 0:
                continue
            if op == "bcfuse" and nums[2] == 0.0 and nums[6] == 0.0:
                continue
            cases.append(Case(op, ty, "bi", "-", [], nums, tag="float_rewrite_search"))
        res = core.run_impl(cases)
        done += len(cases)
        for c, r in zip(cases, res):
            if r[0] != "OK":
                found.append((c, r))
    return done, found
