"""Operand generators.  A simplex is (b list, u); an opinion is (b, u, a); all floats.

Streams:
  grid   - dyadic operands k/den (exactly representable in f32 and f64, exactly well-formed)
  float  - arbitrary representable operands accepted by the checked constructors
  sweep  - uncertainty driven to 0 / 1 through many magnitudes
Special shapes (vacuous, dogmatic, absolute, zero base rates, zero beliefs) are mixed in.
"""
import math
from fractions import Fraction

from . import num


def composition(rng, total, parts, zero_bias=3):
    """random composition of `total` into `parts` non-negative integers, biased to zeros"""
    if parts == 1:
        return [total]
    cuts = []
    for _ in range(parts - 1):
        cuts.append(rng.below(total + 1))
    cuts.sort()
    out = []
    prev = 0
    for c in cuts:
        out.append(c - prev)
        prev = c
    out.append(total - prev)
    # zero bias: move some parts into a neighbour
    for i in range(parts):
        if rng.below(10) < zero_bias and out[i] != 0:
            j = rng.below(parts)
            if j != i:
                out[j] += out[i]
                out[i] = 0
    return rng.shuffle(out)


def grid_simplex(rng, n, den, kind=None):
    """kind: None (mixed) | 'vac' | 'dog' | 'abs' | 'part' (0<u<1)"""
    if kind is None:
        r = rng.below(20)
        kind = "vac" if r == 0 else "dog" if r in (1, 2) else "abs" if r == 3 else "part"
    if kind == "vac":
        return ([0.0] * n, 1.0)
    if kind == "abs":
        b = [0.0] * n
        b[rng.below(n)] = 1.0
        return (b, 0.0)
    if kind == "dog":
        k = composition(rng, den, n)
        return ([x / den for x in k], 0.0)
    while True:
        k = composition(rng, den, n + 1, zero_bias=2)
        if 0 < k[n] < den:
            return ([x / den for x in k[:n]], k[n] / den)


def grid_dist(rng, n, den, positive=False):
    while True:
        k = composition(rng, den, n, zero_bias=0 if positive else 2)
        if not positive or all(x > 0 for x in k):
            return [x / den for x in k]


def grid_opinion(rng, n, den, kind=None, positive=False):
    b, u = grid_simplex(rng, n, den, kind)
    return (b, u, grid_dist(rng, n, den, positive))


def fsum(ty, xs, start=0.0):
    s = num.rnd(ty, start)
    for x in xs:
        s = num.rnd(ty, s + x)
    return s


def is_one(ty, v):
    e = num.FEPS[ty]
    return (1.0 - 2 * e) <= v <= (1.0 + 4 * e)


def float_dist(rng, ty, n, positive=True):
    """random representable distribution accepted by check_base_rate"""
    for _ in range(1000):
        raw = [rng.unit() + (0.02 if positive else 0.0) for _ in range(n)]
        if not positive and n > 1 and rng.chance(1, 4):
            raw[rng.below(n)] = 0.0
        s = sum(raw)
        a = [num.rnd(ty, x / s) for x in raw]
        # repair the last entry so that the float sum is accepted
        rest = fsum(ty, a[:-1])
        a[-1] = num.rnd(ty, 1.0 - rest)
        if a[-1] < 0:
            continue
        if is_one(ty, fsum(ty, a)):
            return a
    raise RuntimeError("float_dist")


def float_simplex(rng, ty, n, u=None):
    """random representable simplex accepted by check_simplex; optional fixed u"""
    for _ in range(1000):
        raw = [rng.unit() for _ in range(n)]
        if n > 1 and rng.chance(1, 5):
            raw[rng.below(n)] = 0.0
        uu = rng.unit() if u is None else u
        s = sum(raw)
        if s == 0:
            continue
        b = [num.rnd(ty, x / s * (1.0 - uu)) for x in raw]
        uu = num.rnd(ty, uu)
        # repair one belief so that the accumulated float sum + u is accepted
        i = rng.below(n)
        others = fsum(ty, b[:i] + b[i + 1:])
        b[i] = num.rnd(ty, 1.0 - uu - others)
        if b[i] < 0:
            continue
        if is_one(ty, num.rnd(ty, fsum(ty, b) + uu)):
            return (b, uu)
    raise RuntimeError("float_simplex")


def float_opinion(rng, ty, n, u=None, positive=True):
    b, uu = float_simplex(rng, ty, n, u)
    return (b, uu, float_dist(rng, ty, n, positive))


def overfull_dogmatic(rng, ty, n):
    """A dogmatic opinion on n >= 3 states that the checked constructors accept and whose belief masses, added in index
    order in the element type, give the float just above 1 (such a sum is common among rounded simplexes of 4 and more
    states); most of the mass sits on a state of small base rate (b/a up to ~50).  The projection divides by that
    sum, so every joint projection lies a rounding residue BELOW the product of the beliefs."""
    for _ in range(1000):
        w = [rng.unit() * 0.2 for _ in range(n)]
        j = rng.below(n)
        w[j] = 1.0 + rng.unit()
        s = sum(w)
        b = [num.rnd(ty, x / s) for x in w]
        for _ in range(8):
            if fsum(ty, b) > 1.0:
                break
            b[j] = num.next_up(ty, b[j], 1)
        if not (fsum(ty, b) > 1.0 and is_one(ty, fsum(ty, b))):
            continue
        k = [1] * n
        for _ in range(64 - n):
            i = rng.below(n)
            if i != j or rng.chance(1, 8):
                k[i] += 1
            else:
                k[(i + 1) % n] += 1
        return (b, 0.0, [x / 64.0 for x in k])
    raise RuntimeError("overfull_dogmatic")


def sweep_u(ty):
    """uncertainties through 0, tiny, near 1, 1 (all representable)"""
    e = num.FEPS[ty]
    out = [0.0, 1.0]
    tiny = [1e-300, 1e-100, 1e-30, 1e-18, e / 2, e, 2 * e, 3 * e, 1e-12, 1e-9, 1e-6, 1e-3] if ty == "f64" else \
           [1e-38, 1e-30, 1e-18, e / 2, e, 2 * e, 3 * e, 1e-6, 1e-4, 1e-3]
    for t in tiny:
        out.append(num.rnd(ty, t))
    for t in ([1e-3, 1e-6, 1e-9, 1e-12, 1e-14, 1e-15] if ty == "f64" else [1e-3, 1e-5, 1e-6]):
        out.append(num.rnd(ty, 1.0 - t))
    for k in range(1, 7):
        out.append(num.next_up(ty, 1.0, -k))
    return out


def simplex_with_u(rng, ty, n, u):
    """representable simplex with the given uncertainty whose float sum is accepted"""
    if u == 1.0:
        return ([0.0] * n, 1.0)
    for _ in range(1000):
        w = [rng.unit() for _ in range(n)]
        s = sum(w)
        rest = 1.0 - u  # exact for u near 1 (Sterbenz) and rounded otherwise
        b = [num.rnd(ty, x / s * rest) for x in w]
        i = rng.below(n)
        others = fsum(ty, b[:i] + b[i + 1:])
        b[i] = num.rnd(ty, num.rnd(ty, 1.0 - u) - others)
        if b[i] < 0:
            continue
        if is_one(ty, num.rnd(ty, fsum(ty, b) + u)):
            return (b, u)
    raise RuntimeError("simplex_with_u %r" % u)


def exact_simplex_defect(s):
    b, u = s
    return sum(Fraction(x) for x in b) + Fraction(u) - 1


def permute(xs, perm):
    """result[i] = xs[perm[i]]"""
    return [xs[p] for p in perm]


def perms(n):
    import itertools
    return list(itertools.permutations(range(n)))


# ---------------------------------------------------------------- binomial
def grid_bop(rng, den, a_open=False):
    b, u = grid_simplex(rng, 2, den)
    a = (1 + rng.below(den - 1)) / den if a_open else rng.below(den + 1) / den
    return [b[0], b[1], u, a]


def float_bop(rng, ty, a_open=False):
    b, u = float_simplex(rng, ty, 2)
    a = num.rnd(ty, rng.unit())
    if a_open and (a <= 0.0 or a >= 1.0):
        a = 0.5
    return [b[0], b[1], u, a]


def all_grid_bops(den):
    out = []
    for b in range(den + 1):
        for d in range(den + 1 - b):
            u = den - b - d
            for a in range(den + 1):
                out.append([b / den, d / den, u / den, a / den])
    return out


def tiny_base_rate_opinion(rng, ty, n, t, zero_belief=True):
    """opinion with one tiny positive base-rate entry t (and, by default, zero belief mass there, so that
    this value decides a minimum of P/a); None if no accepted float tuple was found"""
    for _ in range(50):
        k = rng.below(n)
        a = float_dist(rng, ty, n - 1, positive=True) if n > 1 else []
        a = [num.rnd(ty, x * (1.0 - t)) for x in a]
        a.insert(k, t)
        if not is_one(ty, fsum(ty, a)):
            continue
        s = float_simplex(rng, ty, n)
        b = list(s[0])
        if zero_belief and n > 1:
            j = (k + 1) % n
            b[j] = num.rnd(ty, b[j] + b[k])
            b[k] = 0.0
            if not is_one(ty, num.rnd(ty, fsum(ty, b) + s[1])):
                continue
        return (b, s[1], a)
    return None


def tiny_base_rate_grid_opinion(rng, n, den, e):
    """exactly well-formed dyadic opinion (representable in f32 for e <= 20) with one base-rate entry 2^-e and
    zero belief mass on that value"""
    assert n >= 2
    while True:
        b, u = grid_simplex(rng, n, den, "part")
        k = rng.below(n)
        j = (k + 1) % n
        b = list(b)
        b[j] += b[k]
        b[k] = 0.0
        a = grid_dist(rng, n - 1, den, positive=True)
        t = 2.0 ** -e
        i = rng.below(n - 1)
        a[i] -= t
        a.insert(k, t)
        if all(x > 0 for x in a):
            return (b, u, a)


# ------------------------------------------------------------ exact-rational operands (element type "q")
# Operands for the exact-rational instantiation of the crate's generic code: exactly well-formed (sums are exactly
# 1), with entries on both sides of every tolerance the code tests (machine epsilon eps = 2^-52 of that type) and
# non-dyadic values (thirds, sevenths) no float stream can contain.

QEPS = Fraction(1, 1 << 52)


def q_small(rng):
    return rng.choice([Fraction(0), QEPS / 2, QEPS, QEPS * 3 / 2, QEPS * 2, QEPS * 3, QEPS * 4, QEPS * 5, QEPS * 9,
                       Fraction(1, 1 << 40), Fraction(1, 1 << 30), Fraction(1, 10 ** 6)])


def q_unit(rng):
    """a number in [0,1]: lattice points around 0 and 1, or a small-denominator rational"""
    r = rng.below(10)
    if r < 2:
        return q_small(rng)
    if r < 4:
        return 1 - q_small(rng)
    den = rng.choice([2, 3, 4, 5, 7, 8, 12, 16])
    return Fraction(rng.below(den + 1), den)


def q_parts(rng, n, total, small_bias=3):
    """n non-negative rationals summing exactly to total (>= 0); some entries tiny or zero"""
    if n == 0:
        return []
    for _ in range(100):
        vals = []
        for _ in range(n):
            if rng.below(10) < small_bias:
                vals.append(q_small(rng))
            else:
                den = rng.choice([3, 5, 7, 8, 12])
                vals.append(Fraction(1 + rng.below(den), den))
        i = rng.below(n)
        rest = sum(vals) - vals[i]
        small = [j for j in range(n) if vals[j] < Fraction(1, 1000)]
        big = [j for j in range(n) if j not in small]
        s_small = sum(vals[j] for j in small)
        if total < s_small:
            continue
        if not big:
            # all entries tiny: put the remainder on one of them
            vals[i] = total - rest
            if vals[i] >= 0:
                return vals
            continue
        s_big = sum(vals[j] for j in big)
        scale = (total - s_small) / s_big
        for j in big:
            vals[j] *= scale
        assert sum(vals) == total
        return vals
    return [total] + [Fraction(0)] * (n - 1)


def q_simplex(rng, n, kind=None):
    if kind is None:
        kind = rng.choice(["part", "part", "part", "lat", "lat", "vac", "dog"])
    if kind == "vac":
        return ([Fraction(0)] * n, Fraction(1))
    if kind == "dog":
        u = Fraction(0)
    elif kind == "lat":
        u = rng.choice([q_small(rng), 1 - q_small(rng)])
    else:
        u = Fraction(1 + rng.below(11), 12)
    return (q_parts(rng, n, 1 - u), u)


def q_dist(rng, n, positive=False):
    while True:
        a = q_parts(rng, n, Fraction(1), small_bias=0 if positive else 3)
        if not positive or all(x > 0 for x in a):
            return a


def q_opinion(rng, n, kind=None, positive=False):
    b, u = q_simplex(rng, n, kind)
    return (b, u, q_dist(rng, n, positive))


def tiny_projection_opinion(rng, ty, n):
    """exactly well-formed dyadic opinion in which one value has zero belief, a tiny base rate (well above machine
    epsilon) and therefore a projected probability a*u below the rounding unit of 1; that value bounds the maximal
    uncertainty (u_max = u), so the relative accuracy of its tiny projection matters"""
    assert n >= 2
    j, e = rng.choice([(10, 20), (8, 16), (6, 20)] if ty == "f32" else [(20, 40), (10, 40), (20, 30), (8, 50)])
    uu = 2.0 ** -j
    while True:
        k = rng.below(n)
        kk = composition(rng, 8, n - 1, zero_bias=0)
        if all(v > 0 for v in kk):
            break
    b = [v / 8.0 for v in kk]
    b[rng.below(n - 1)] -= uu
    b.insert(k, 0.0)
    a = grid_dist(rng, n - 1, 8, positive=True)
    a[rng.below(n - 1)] -= 2.0 ** -e
    a.insert(k, 2.0 ** -e)
    return (b, uu, a)
