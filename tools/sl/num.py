"""Number helpers: exact values of IEEE numbers, bit patterns, f32 rounding."""
import math
import struct
from fractions import Fraction

# "q": the exact-rational element type of the harness (harness/src/rat.rs); numbers are Fractions (None = NaN),
# machine epsilon as for f64
EPS = {"f64": Fraction(1, 1 << 52), "f32": Fraction(1, 1 << 23), "q": Fraction(1, 1 << 52)}
FEPS = {"f64": 2.0 ** -52, "f32": 2.0 ** -23, "q": 2.0 ** -52}


def f32(x):
    return struct.unpack("<f", struct.pack("<f", x))[0]


def rnd(ty, x):
    if ty == "q":
        return x
    return f32(x) if ty == "f32" else float(x)


def enc(ty, x):
    """token of a number in a case file of the implementation side"""
    if ty == "q":
        return "N" if x is None else qtok(Fraction(x))
    return "%x" % bits(ty, x)


def dec(ty, t):
    if ty == "q":
        return parse_tok(t)
    return from_bits(ty, int(t, 16))


def key(ty, x):
    if ty == "q":
        if x is None or (isinstance(x, float) and (x != x or x in (math.inf, -math.inf))):
            return None
        return Fraction(x)
    return bits(ty, x)


def bits(ty, x):
    if ty == "i64":
        return int(x) & ((1 << 64) - 1)
    if ty == "f32":
        return struct.unpack("<I", struct.pack("<f", x))[0]
    return struct.unpack("<Q", struct.pack("<d", x))[0]


def from_bits(ty, b):
    if ty == "i64":
        return b - (1 << 64) if b >> 63 else b
    if ty == "f32":
        return struct.unpack("<f", struct.pack("<I", b))[0]
    return struct.unpack("<d", struct.pack("<Q", b))[0]


def next_up(ty, x, k=1):
    """k representable steps up (down if k < 0), on the number line, through zero"""
    if ty == "f64":
        for _ in range(abs(k)):
            x = math.nextafter(x, math.inf if k > 0 else -math.inf)
        return x
    for _ in range(abs(k)):
        b = bits("f32", x)
        if k > 0:
            if x == 0.0:
                b = 1
            elif x > 0:
                b += 1
            else:
                b -= 1
                if b == 0x80000000:
                    b = 0
        else:
            if x == 0.0:
                b = 0x80000001
            elif x < 0:
                b += 1
            else:
                b -= 1
        x = from_bits("f32", b)
    return x


def exact(x):
    """Fraction of a finite float, None for NaN / inf"""
    if x != x or x in (math.inf, -math.inf):
        return None
    return Fraction(x)


def tok(x):
    """model token of a float: exact rational in hex or N"""
    if isinstance(x, int):
        return ("-%x/1" % -x) if x < 0 else ("%x/1" % x)
    if x is None:
        return "N"
    if isinstance(x, Fraction):
        return qtok(x)
    q = exact(x)
    if q is None:
        return "N"
    n, d = q.numerator, q.denominator
    return ("-%x/%x" % (-n, d)) if n < 0 else ("%x/%x" % (n, d))


def qtok(q):
    n, d = q.numerator, q.denominator
    return ("-%x/%x" % (-n, d)) if n < 0 else ("%x/%x" % (n, d))


def parse_tok(t):
    if t == "N":
        return None
    n, d = t.split("/")
    neg = n.startswith("-")
    if neg:
        n = n[1:]
    v = Fraction(int(n, 16), int(d, 16))
    return -v if neg else v
