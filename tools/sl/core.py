"""Core of the checks: building, running implementation and model on the same cases,
comparing, proof audit, evidence, reporting."""
import fcntl
import itertools
import json
import math
import os
import re
import subprocess
import sys
import threading
import time
from concurrent.futures import ThreadPoolExecutor
from fractions import Fraction

from . import num

VERIF = os.path.dirname(os.path.dirname(os.path.dirname(os.path.abspath(__file__))))
BUILD = os.path.join(VERIF, "build")
COQ = os.path.join(VERIF, "coq")
HARNESS = os.path.join(VERIF, "harness")
HARNESS_BIN = os.path.join(BUILD, "harness-target", "release", "sl-harness")
# Isolated mode (tools/eval_mutant only): VERIF_ISO=<scratch dir> VERIF_REPO=<a worktree of /repo> runs a check
# against that worktree with its own copy of the harness, case files, evidence and replay output, so that
# several changed trees can be evaluated at once without touching /repo or /verif/evidence.  The registered
# commands never set these variables.
ISO = os.environ.get("VERIF_ISO")
REPO = os.environ.get("VERIF_REPO", "/repo")
OUT = ISO or VERIF
SCRATCH = ISO or BUILD
if ISO:
    HARNESS_BIN = os.path.join(ISO, "harness-target", "release", "sl-harness")
MODEL_BIN = os.path.join(BUILD, "ocaml", "run_model")
NPROC = 16

TOL = {"f64": Fraction(1, 1 << 30), "f32": Fraction(1, 1 << 13), "q": Fraction(1, 1 << 30)}

ALLOWED_AXIOMS = {
    "ClassicalDedekindReals.sig_forall_dec",
    "ClassicalDedekindReals.sig_not_dec",
    "FunctionalExtensionality.functional_extensionality_dep",
    "Classical_Prop.classic",
    # only via Flocq's primitive-float free development; kept for completeness
    "Eqdep.Eq_rect_eq.eq_rect_eq",
    "ProofIrrelevance.proof_irrelevance",
    "JMeq.JMeq_eq",
}

FORBIDDEN = re.compile(
    r"\b(Admitted|admit|give_up|Axiom|Axioms|Parameter|Parameters|Conjecture|Conjectures|"
    r"Admit Obligations|bypass_check|type-in-type|impredicative-set)\b|Unset\s+Guard|Unset\s+Positivity|"
    r"Unset\s+Universe|Guard Checking|Positivity Checking|Universe Checking")


class Case:
    __slots__ = ("op", "ty", "fam", "style", "dims", "mop", "mdims", "nums", "tag", "meta")

    def __init__(self, op, ty, fam, style, dims, nums, mop=None, mdims=None, tag="", meta=None):
        self.op = op
        self.ty = ty
        self.fam = fam
        self.style = style
        self.dims = list(dims)
        self.nums = list(nums)
        self.mop = mop if mop is not None else op
        self.mdims = list(mdims) if mdims is not None else list(dims)
        self.tag = tag
        self.meta = meta or {}

    def impl_line(self):
        return "%s %s %s %s %d %s %d %s" % (
            self.op, self.ty, self.fam, self.style, len(self.dims),
            " ".join(str(d) for d in self.dims), len(self.nums),
            " ".join(num.enc(self.ty, x) for x in self.nums))

    def model_nums(self):
        return self.meta.get("model_nums", self.nums)

    def model_key(self):
        if self.ty in ("q", "f64"):
            # an exact-rational twin shares the model evaluation of the f64 case it was derived from
            return (self.mop, "f64", tuple(self.mdims), tuple(num.key("q", x) for x in self.model_nums()))
        return (self.mop, self.ty, tuple(self.mdims), tuple(num.key(self.ty, x) for x in self.model_nums()))

    def model_line(self):
        mn = self.model_nums()
        return "%s %s %d %s %d %s" % (
            self.mop, "f64" if self.ty == "q" else self.ty, len(self.mdims), " ".join(str(d) for d in self.mdims),
            len(mn), " ".join(num.tok(x) for x in mn))

    def describe(self):
        return {"op": self.op, "type": self.ty, "family": self.fam, "style": self.style,
                "dims": self.dims, "numbers": [repr(x) for x in self.nums], "stream": self.tag}


# ------------------------------------------------------------------ building

class Lock:
    def __init__(self, name):
        os.makedirs(BUILD, exist_ok=True)
        self.path = os.path.join(BUILD, name + ".lock")

    def __enter__(self):
        self.f = open(self.path, "w")
        fcntl.flock(self.f, fcntl.LOCK_EX)

    def __exit__(self, *a):
        fcntl.flock(self.f, fcntl.LOCK_UN)
        self.f.close()


def sh(cmd, cwd=None, timeout=3600, env=None):
    e = dict(os.environ)
    e["CARGO_NET_OFFLINE"] = "true"
    if env:
        e.update(env)
    p = subprocess.run(cmd, cwd=cwd, shell=isinstance(cmd, str), stdout=subprocess.PIPE,
                       stderr=subprocess.STDOUT, timeout=timeout, env=e)
    return p.returncode, p.stdout.decode("utf-8", "replace")


def build_harness():
    """rebuild the harness against /repo's current working tree (hooks on)"""
    hdir = HARNESS
    if ISO:
        # private copy of the harness crate pointing at the worktree under evaluation
        hdir = os.path.join(ISO, "harness")
        if not os.path.exists(hdir):
            os.makedirs(ISO, exist_ok=True)
            subprocess.run(["cp", "-rL", HARNESS, hdir], check=True)
            for rel, old, new in (("Cargo.toml", 'path = "/repo"', 'path = "%s"' % REPO),
                                  (".cargo/config.toml", "../build/harness-target", os.path.join(ISO, "harness-target"))):
                p = os.path.join(hdir, rel)
                t = open(p).read()
                assert old in t, (p, old)
                open(p, "w").write(t.replace(old, new))
    with Lock("cargo" if not ISO else "cargo-" + os.path.basename(ISO.rstrip("/"))):
        lock = os.path.join(hdir, "Cargo.lock")
        if not os.path.exists(lock):
            # Cargo.lock of the harness = the repository's pinned versions
            subprocess.run(["cp", os.path.join(REPO, "Cargo.lock"), lock], check=True)
        rc, out = sh(["cargo", "build", "--release", "--offline"], cwd=hdir, timeout=1800)
    if rc != 0:
        raise BuildError("harness build failed (the repository or the harness no longer compiles)\n" + out[-4000:])
    return out


def build_coq(targets=None, timeout=3000):
    with Lock("coq"):
        if not os.path.exists(os.path.join(COQ, "Makefile")):
            rc, out = sh("coq_makefile -f _CoqProject -o Makefile", cwd=COQ)
            if rc != 0:
                raise BuildError("coq_makefile failed\n" + out)
        cmd = ["make", "-j%d" % NPROC] + (targets or [])
        rc, out = sh(cmd, cwd=COQ, timeout=timeout)
    return rc, out


def build_model():
    """extract the model (coq/Extract.v) and compile the OCaml runner"""
    rc, out = build_coq(["Extract.vo"])
    if rc != 0:
        raise BuildError("model does not compile\n" + out[-4000:])
    with Lock("ocaml"):
        d = os.path.join(BUILD, "ocaml")
        os.makedirs(d, exist_ok=True)
        src = os.path.join(VERIF, "ocaml")
        newest = max(os.path.getmtime(os.path.join(src, f)) for f in ("model.ml", "model.mli", "run_model.ml"))
        if os.path.exists(MODEL_BIN) and os.path.getmtime(MODEL_BIN) >= newest:
            return
        for f in ("model.ml", "model.mli", "run_model.ml"):
            subprocess.run(["cp", os.path.join(src, f), d], check=True)
        rc, out = sh("ocamlfind ocamlopt -w -a model.mli model.ml run_model.ml -o run_model", cwd=d)
        if rc != 0:
            raise BuildError("OCaml runner build failed\n" + out[-4000:])


class BuildError(Exception):
    pass


# ------------------------------------------------------------------- running

SHARD_TIMEOUT = 4 * 3600
CASE_TIMEOUT = 20


_ONE_SEQ = itertools.count()


def _run_one(binary, line, idx):
    """a single case in its own process: used to isolate a case that hangs or kills the runner"""
    # several shards can be taken apart at the same time: the name must be unique across threads
    path = os.path.join(SCRATCH, "cases", "one.%d.%d.%d.txt" % (os.getpid(), threading.get_ident(), next(_ONE_SEQ)))
    with open(path, "w") as f:
        f.write(line + "\n")
    try:
        p = subprocess.run([binary, path], stdout=subprocess.PIPE, stderr=subprocess.PIPE, timeout=CASE_TIMEOUT)
        out = p.stdout.decode("utf-8", "replace").splitlines()
        if p.returncode != 0 or len(out) != 1:
            return "CRASH the runner died on this case (exit status %s)" % p.returncode
        return out[0]
    except subprocess.TimeoutExpired:
        return "HANG no answer within %d s" % CASE_TIMEOUT
    finally:
        try:
            os.unlink(path)
        except OSError:
            pass


def _run_shard(args):
    binary, path = args
    lines = open(path).read().splitlines()
    try:
        p = subprocess.run([binary, path], stdout=subprocess.PIPE, stderr=subprocess.PIPE,
                           timeout=SHARD_TIMEOUT if binary != HARNESS_BIN else min(SHARD_TIMEOUT, 120 + len(lines) // 20))
        out = p.stdout.decode("utf-8", "replace").splitlines()
        if p.returncode == 0 and len(out) == len(lines):
            return out
        if binary != HARNESS_BIN:
            raise RuntimeError("%s failed on %s: %s" % (binary, path, p.stderr.decode()[-2000:]))
    except subprocess.TimeoutExpired:
        if binary != HARNESS_BIN:
            raise
    # the implementation side hung or died: find the culprit(s), case by case
    with ThreadPoolExecutor(max_workers=NPROC) as ex:
        return list(ex.map(lambda t: _run_one(binary, t[1], t[0]), enumerate(lines)))


def _run_lines(binary, lines, tag):
    if not lines:
        return []
    d = os.path.join(SCRATCH, "cases")
    os.makedirs(d, exist_ok=True)
    nsh = min(NPROC, max(1, len(lines) // (50 if binary == HARNESS_BIN else 6)))
    # balance the load: expensive cases come in runs, so deal them out in a fixed pseudo-random order
    order = list(range(len(lines)))
    st = 0x9E3779B97F4A7C15
    for i in range(len(order) - 1, 0, -1):
        st = (st * 6364136223846793005 + 1442695040888963407) & ((1 << 64) - 1)
        j = (st >> 33) % (i + 1)
        order[i], order[j] = order[j], order[i]
    lines = [lines[k] for k in order]
    shards = [lines[i::nsh] for i in range(nsh)]
    paths = []
    for i, sh_lines in enumerate(shards):
        p = os.path.join(d, "%s.%d.%d.txt" % (tag, os.getpid(), i))
        with open(p, "w") as f:
            f.write("\n".join(sh_lines) + "\n")
        paths.append(p)
    with ThreadPoolExecutor(max_workers=nsh) as ex:
        outs = list(ex.map(_run_shard, [(binary, p) for p in paths]))
    for p in paths:
        os.unlink(p)
    res = [None] * len(lines)
    for i, o in enumerate(outs):
        if len(o) != len(shards[i]):
            raise RuntimeError("%s: %d answers for %d cases" % (binary, len(o), len(shards[i])))
        for j, l in enumerate(o):
            res[order[i + j * nsh]] = l
    return res


def parse_impl(ty, line):
    parts = line.split(" ")
    kind = parts[0]
    if kind == "OK":
        return ("OK", [num.dec(ty, t) for t in parts[1:] if t])
    if kind == "NONE":
        return ("NONE",)
    if kind in ("HANG", "CRASH"):
        return (kind, line[len(kind) + 1:], None)
    if kind in ("ERR", "PANIC"):
        rest = line[len(kind) + 1:]
        rej = None
        if " | " in rest:
            rest, r = rest.rsplit(" | ", 1)
            try:
                rej = num.from_bits("f64", int(r, 16))
            except ValueError:
                rej = None
        return (kind, rest, rej)
    return ("BAD", line)


def parse_model(line):
    parts = line.split(" ")
    if parts[0] == "OK":
        return ("OK", [num.parse_tok(t) for t in parts[1:] if t])
    return ("NONE",)


def run_impl(cases):
    lines = [c.impl_line() for c in cases]
    outs = _run_lines(HARNESS_BIN, lines, "impl")
    return [parse_impl(c.ty, o) for c, o in zip(cases, outs)]


def run_impl_raw(lines):
    return _run_lines(HARNESS_BIN, lines, "implraw")


def run_model(cases):
    keys = {}
    order = []
    for c in cases:
        if c.mop == "-":
            continue
        k = c.model_key()
        if k not in keys:
            keys[k] = len(order)
            order.append(c.model_line())
    outs = _run_lines(MODEL_BIN, order, "model")
    parsed = [parse_model(o) for o in outs]
    return [parsed[keys[c.model_key()]] if c.mop != "-" else ("SKIP",) for c in cases], len(order)


# ----------------------------------------------------------------- comparing

def finite(x):
    return x is not None and x == x and x not in (math.inf, -math.inf)


def compare_exact(impl_vals, model_vals):
    """type q: the generic code run on exact rationals must EQUAL the model's rational instance"""
    if len(impl_vals) != len(model_vals):
        return "length %d vs model %d" % (len(impl_vals), len(model_vals))
    for i, (x, q) in enumerate(zip(impl_vals, model_vals)):
        if x != q:
            return "entry %d: implementation on exact rationals %s, model %s (exact comparison)" % (
                i, "NaN" if x is None else "%s = %.17g" % (x, float(x)), "NaN" if q is None else "%s = %.17g" % (q, float(q)))
    return None


def compare_values(ty, impl_vals, model_vals, tol=None, scale=1):
    """None if they agree, else a description"""
    base = TOL[ty] if tol is None else tol
    # conditioning: a quotient by a quantity of size 1/scale carries an absolute error of a few
    # eps * scale; that, not the generous base tolerance times scale, is what is granted
    tol = base if scale <= 1 else base + 256 * num.EPS.get(ty, Fraction(0)) * scale
    if len(impl_vals) != len(model_vals):
        return "length %d vs model %d" % (len(impl_vals), len(model_vals))
    worst = None
    for i, (x, q) in enumerate(zip(impl_vals, model_vals)):
        if q is None:
            if finite(x):
                return "entry %d: implementation %r, model non-finite" % (i, x)
            continue
        if not finite(x):
            return "entry %d: implementation %r, model %s" % (i, x, float(q))
        dlt = abs(Fraction(x) - q)
        if dlt > tol:
            if worst is None or dlt > worst[0]:
                worst = (dlt, i, x, q)
    if worst:
        return "entry %d: implementation %r, model %.17g, |diff| %.3g > tol %.3g" % (
            worst[1], worst[2], float(worst[3]), float(worst[0]), float(tol))
    return None


def compare(case, impl, model, tol=None, scale=1, none_kinds=("NONE",)):
    """generic correspondence: definedness and values"""
    if impl[0] == "BAD":
        return "harness error: " + impl[1]
    if model[0] == "SKIP":
        return None
    if model[0] == "NONE":
        if impl[0] in none_kinds:
            return None
        return "model: absent/failed, implementation: %s" % (impl[0],)
    if impl[0] != "OK":
        return "model: value, implementation: %s %s" % (impl[0], impl[1] if len(impl) > 1 else "")
    if case.ty == "q":
        return compare_exact(impl[1], model[1])
    return compare_values(case.ty, impl[1], model[1], tol, scale)


# --------------------------------------------------------------- proof audit

def audit_sources():
    """forbidden constructs anywhere in the development"""
    bad = []
    for root, _, files in os.walk(COQ):
        for f in files:
            if not f.endswith(".v"):
                continue
            p = os.path.join(root, f)
            txt = open(p).read()
            # strip comments (nested)
            out = []
            depth = 0
            i = 0
            while i < len(txt):
                if txt.startswith("(*", i):
                    depth += 1
                    i += 2
                elif txt.startswith("*)", i) and depth > 0:
                    depth -= 1
                    i += 2
                else:
                    if depth == 0:
                        out.append(txt[i])
                    i += 1
            code = "".join(out)
            for m in FORBIDDEN.finditer(code):
                line = code.count("\n", 0, m.start()) + 1
                bad.append("%s:%d: %s" % (os.path.relpath(p, VERIF), line, m.group(0)))
            # a Variable / Hypothesis outside a section declares an axiom
            depth_sec = 0
            for ln, l in enumerate(code.splitlines(), 1):
                s = l.strip()
                if re.match(r"Section\s+\w+", s):
                    depth_sec += 1
                elif re.match(r"End\s+\w+", s) and depth_sec > 0:
                    depth_sec -= 1
                elif re.match(r"(Variable|Variables|Hypothesis|Hypotheses|Context)\b", s) and depth_sec == 0:
                    bad.append("%s:%d: %s outside a section" % (os.path.relpath(p, VERIF), ln, s.split()[0]))
    return bad


def prop_files(pid):
    """Props/<pid>.v plus continuation files Props/<pid>b.v, <pid>c.v ..."""
    d = os.path.join(COQ, "Props")
    out = []
    if os.path.isdir(d):
        for f in sorted(os.listdir(d)):
            if re.fullmatch(re.escape(pid) + r"[a-z]?\.v", f):
                out.append("Props/" + f)
    return out


# ------------------------------------------------ translated part of the model

GEN_THEOREMS = {
    # property -> generated-code equivalence theorems (coq/Gen/BiGenEq.v) its binomial operators rest on
    "C01": ["gen_check_simplex_eq", "gen_check_base_rate_eq", "gen_sx_try_new_eq", "gen_sx_new_eq", "gen_try_new_eq", "gen_new_eq"],
    "C10": ["gen_trans_unc_eq", "gen_trans_opp_eq", "gen_trans_bsr_eq"],
    "C12": ["gen_mul_eq", "gen_comul_eq", "gen_projection_eq"],
    "C13": ["gen_cfuse_eq", "gen_afuse_eq", "gen_wfuse_eq"],
    "C14": ["gen_deduce_eq", "gen_projection_eq"],
    "C19": ["gen_mul_eq", "gen_comul_eq", "gen_cfuse_eq", "gen_afuse_eq", "gen_wfuse_eq", "gen_deduce_eq",
            "gen_trans_unc_eq", "gen_trans_opp_eq", "gen_trans_bsr_eq"],
}
GEN_BASE = ["gen_check_simplex_eq", "gen_check_base_rate_eq", "gen_sx_try_new_eq", "gen_try_new_eq"]


GEN_CODE_THEOREMS = {
    # property -> property theorems restated for the generated definitions (coq/Gen/BiGenProps.v)
    "C10": ["code_trans_unc_spec", "code_trans_bsr_spec", "code_trans_opp_spec"],
    "C12": ["code_mul_spec", "code_comul_spec"],
    "C13": ["code_cfuse_spec"],
    "C14": ["code_deduce_wf"],
    "C19": ["code_mul_spec", "code_comul_spec", "code_cfuse_spec", "code_deduce_wf", "code_trans_unc_spec",
            "code_trans_bsr_spec", "code_trans_opp_spec"],
}
GEN_OPS = ["mul", "comul", "cfuse", "afuse", "wfuse", "trans_unc", "trans_opp", "trans_bsr"]


def _prove_blocks(d, fname, src, end_kw, only=None):
    """Compile <src> (a .v text whose statements start at column 0 with Theorem / Lemma and whose section ends
    with <end_kw>) statement by statement: a statement that fails is recorded and left out (with everything that then
    fails for lack of it), the others are still checked.  Returns (proved names, {failed name: message}, axioms)."""
    blocks = re.split(r"(?=^(?:Theorem|Lemma) )", src, flags=re.M)
    head, thms = blocks[0], blocks[1:]
    ti = thms[-1].index(end_kw)
    thms[-1] = thms[-1][:ti]
    names = [re.match(r"(?:Theorem|Lemma) (\w+)", t).group(1) for t in thms]
    alive = [i for i, n in enumerate(names) if only is None or n in only or thms[i].startswith("Lemma")]
    failed = {}
    for _ in range(len(thms) + 2):
        keep = [names[i] for i in alive]
        if not keep:
            return [], failed, set()
        body = head + "".join(thms[i] for i in alive)
        open(os.path.join(d, fname), "w").write(body + end_kw + "\n" + "\n".join("Print Assumptions %s." % n for n in keep) + "\n")
        rc, out = sh(["timeout", "900", "coqc", "-Q", COQ, "SL", "-Q", d, "SLGen", os.path.join(d, fname)], cwd=d, timeout=1000)
        if rc == 0:
            ax = set(re.findall(r"^([A-Za-z_][\w.']*)\s*:", out, re.M)) - {"Axioms"}
            return [n for n in keep if only is None or n in only], failed, ax
        m = re.search(r'line (\d+), characters[^\n]*\n(.*)', out, re.S)
        if not m:
            failed["*"] = "coqc failed: " + out[-600:]
            return [], failed, set()
        txt = body.splitlines()
        bad = None
        for ln in range(min(int(m.group(1)), len(txt)) - 1, -1, -1):
            mm = re.match(r"(?:Theorem|Lemma) (\w+)", txt[ln])
            if mm:
                bad = mm.group(1)
                break
        if bad is None:
            failed["*"] = "coqc failed before the first statement: " + out[-600:]
            return [], failed, set()
        failed[bad] = re.sub(r"\s+", " ", m.group(2).strip())[:400]
        alive = [i for i in alive if names[i] != bad]
    return [], failed, set()


def check_translation(pid):
    """Regenerate the Gallina translation of <repo>/src/bi.rs (tools/rs2v.py), compile it, re-prove that the
    hand-written model equals it (coq/Gen/BiGenEq.v; coq/Gen/BiGenSem.v where only the semantic tie holds) and
    re-derive the property theorems for the generated definitions (coq/Gen/BiGenProps.v).
    Returns {"theorems": [...], "errors": [...]} restricted to what property <pid> rests on."""
    import hashlib
    want = GEN_THEOREMS.get(pid)
    if not want:
        return {"theorems": [], "errors": []}
    want = list(dict.fromkeys(want + (GEN_BASE if pid != "C01" else [])))
    want_code = GEN_CODE_THEOREMS.get(pid, [])
    d = os.path.join(SCRATCH, "gen")
    os.makedirs(d, exist_ok=True)
    res = {"theorems": [], "errors": []}
    rd = lambda f: open(os.path.join(COQ, "Gen", f)).read()
    with Lock("gen" if not ISO else "gen-" + os.path.basename(ISO.rstrip("/"))):
        src = os.path.join(REPO, "src", "bi.rs")
        p = subprocess.run([sys.executable, os.path.join(VERIF, "tools", "rs2v.py"), src], stdout=subprocess.PIPE,
                           stderr=subprocess.PIPE)
        if p.returncode != 0:
            res["errors"].append("translation of src/bi.rs failed (%s): the model's tie to the binomial source "
                                 "(theorems %s) is not established" % (p.stderr.decode("utf-8", "replace").strip()[:400], ", ".join(want)))
            return res
        gen = os.path.join(d, "BiGen.v")
        new = p.stdout.decode()
        eq_src, sem_src, props_src = rd("BiGenEq.v"), rd("BiGenSem.v"), rd("BiGenProps.v")
        stamp = os.path.join(d, "ok.json")
        key = hashlib.sha256("\0".join([new, eq_src, sem_src, props_src]).encode()).hexdigest()
        cached = None
        if os.path.exists(stamp):
            try:
                cached = json.load(open(stamp))
            except ValueError:
                cached = None
        bivo = os.path.join(COQ, "Facts", "BiDeduce.vo")
        if not cached or cached.get("key") != key or not os.path.exists(bivo) or os.path.getmtime(bivo) > os.path.getmtime(stamp):
            open(gen, "w").write(new)
            rc, out = build_coq(["Facts/BiDeduce.vo", "Facts/BiFuse.vo", "Facts/BiMul.vo", "Facts/Discount.vo"])
            if rc != 0:
                res["errors"].append("model does not compile: " + out[-800:])
                return res
            rc, out = sh(["coqc", "-Q", COQ, "SL", "-Q", d, "SLGen", gen], cwd=d, timeout=600)
            failed, proved, sem, code = {}, [], {}, []
            if rc != 0:
                failed["*"] = "generated definitions do not type-check: " + out[-600:]
            else:
                proved, failed, ax = _prove_blocks(d, "BiGenEq.v", eq_src, "End Eq.")
                if ax:
                    failed["*"] = "BiGenEq.v: Print Assumptions reports " + ", ".join(sorted(ax))
                # fallback for operators whose generated definition is no longer syntactically the model's: equality
                # on the real instance for all finite operands (coq/Gen/BiGenSem.v)
                cand = {"sem_" + t[4:] for t in failed if t != "*"}
                if cand and "*" not in failed and all(b in proved for b in GEN_BASE):
                    sp, sf, ax = _prove_blocks(d, "BiGenSem.v", sem_src, "End Sem.", only=cand)
                    if ax <= ALLOWED_AXIOMS:
                        for n in sp:
                            sem["gen_" + n[4:]] = n
                    for t in sem:
                        del failed[t]
                        proved.append(t)
                if "*" not in failed:
                    # the property theorems for the generated definitions, along whichever tie holds
                    def tie(m):
                        op = m.group(1)
                        if ("gen_%s_eq" % op) in sem:
                            return "apply sem_%s_eq; apply fin_bopR." % op
                        return "apply gen_%s_eq." % op
                    ps = re.sub(r"\(\*TIE:(\w+):(\d)\*\)", tie, props_src).replace("(*SEM*)", " BiGenSem" if sem else "")
                    cp, cf, ax = _prove_blocks(d, "BiGenProps.v", ps, "End Code.")
                    if ax <= ALLOWED_AXIOMS:
                        code = [n for n in cp if n.startswith("code_")]
                    for n, msg in cf.items():
                        if n.startswith("code_"):
                            failed[n] = msg
            cached = {"key": key, "proved": proved, "failed": failed, "semantic": sem, "code": code}
            json.dump(cached, open(stamp, "w"))
    for t in want:
        if t in cached["proved"]:
            res["theorems"].append(cached.get("semantic", {}).get(t, t))
    res["theorems"] += [t for t in want_code if t in cached.get("code", [])]
    # operators whose generated definition equals the model only semantically (on the reals): their floating-point
    # behaviour may have changed, which the exact instances cannot see -> the driver searches harder (sl/deep.py)
    res["semantic_only"] = sorted(t[4:-3] for t in want if t in cached.get("semantic", {}))
    if "*" in cached["failed"]:
        res["errors"].append("the model's tie to src/bi.rs is broken: " + cached["failed"]["*"])
    for t in want:
        if t in cached["failed"]:
            res["errors"].append("the model no longer equals the translation of src/bi.rs: theorem %s (coq/Gen/BiGenEq.v) "
                                 "fails: %s" % (t, cached["failed"][t]))
        elif t not in cached["proved"] and "*" not in cached["failed"]:
            res["errors"].append("theorem %s (coq/Gen/BiGenEq.v) could not be checked because an earlier one failed: %s" % (
                t, "; ".join(cached["failed"])))
    if not res["errors"]:
        for t in want_code:
            if t not in cached.get("code", []):
                res["errors"].append("property theorem %s for the generated definitions (coq/Gen/BiGenProps.v) no longer "
                                     "checks: %s" % (t, cached["failed"].get(t, "a statement it depends on failed")))
    return res


SIDE_TRANSLATIONS = [
    # (key, rs2v arguments (relative to <repo>/src), generated file, proof file, theorems, properties, what)
    ("chk", ["--checks", "approx_ext.rs", "errors.rs"], "ChkGen.v", "ChkGenEq.v",
     ["gen_is_one_eq", "gen_is_zero_eq", "gen_check_is_one_eq", "gen_check_unit_interval_eq",
      "gen_in_unit_interval_eq", "gen_check_unit_interval_is_in_unit"], ("C01", "C19"),
     "the model's tolerance predicates / src/approx_ext.rs + src/errors.rs"),
    ("conv", ["--convert", "convert.rs"], "ConvGen.v", "ConvGenEq.v",
     ["gen_bop_to_mul_eq", "gen_mul_to_bop_eq", "gen_mul_to_bop_ref_eq", "gen_convert_roundtrip"], ("C13",),
     "the model's conversions / src/convert.rs"),
]


def check_translation_checks(pid):
    """The small translated files: src/approx_ext.rs + src/errors.rs -> ChkGen.v (C01, C19), src/convert.rs ->
    ConvGen.v (C13); each regenerated by tools/rs2v.py and proved equal to the model (coq/Gen/*Eq.v)."""
    import hashlib
    res = {"theorems": [], "errors": []}
    for key_, args, genf, eqf, thms, pids, what in SIDE_TRANSLATIONS:
        if pid not in pids:
            continue
        d = os.path.join(SCRATCH, "gen")
        os.makedirs(d, exist_ok=True)
        with Lock("gen" if not ISO else "gen-" + os.path.basename(ISO.rstrip("/"))):
            cmd = [sys.executable, os.path.join(VERIF, "tools", "rs2v.py"), args[0]] + [os.path.join(REPO, "src", a) for a in args[1:]]
            p = subprocess.run(cmd, stdout=subprocess.PIPE, stderr=subprocess.PIPE)
            if p.returncode != 0:
                res["errors"].append("translation failed (%s): %s is not tied to the source" % (
                    p.stderr.decode("utf-8", "replace").strip()[:400], what))
                continue
            new = p.stdout.decode()
            eq_src = open(os.path.join(COQ, "Gen", eqf)).read()
            stamp = os.path.join(d, key_ + "_ok.json")
            key = hashlib.sha256((new + "\0" + eq_src).encode()).hexdigest()
            cached = None
            if os.path.exists(stamp):
                try:
                    cached = json.load(open(stamp))
                except ValueError:
                    cached = None
            rb = os.path.join(COQ, "Facts", "RBase.vo")
            if not cached or cached.get("key") != key or not os.path.exists(rb) or os.path.getmtime(rb) > os.path.getmtime(stamp):
                open(os.path.join(d, genf), "w").write(new)
                rc, out = build_coq(["Facts/RBase.vo", "Model/Bi.vo"])
                if rc == 0:
                    rc, out = sh(["coqc", "-Q", COQ, "SL", "-Q", d, "SLGen", os.path.join(d, genf)], cwd=d, timeout=600)
                if rc != 0:
                    cached = {"key": key, "proved": [], "failed": {"*": "generated definitions do not type-check: " + out[-500:]}}
                else:
                    proved, failed, ax = _prove_blocks(d, eqf, eq_src, "(* END *)")
                    if not ax <= ALLOWED_AXIOMS:
                        failed["*"] = "unexpected axioms " + ", ".join(sorted(ax - ALLOWED_AXIOMS))
                    cached = {"key": key, "proved": proved, "failed": failed}
                json.dump(cached, open(stamp, "w"))
        for t in thms:
            if t in cached["proved"] and "*" not in cached["failed"]:
                res["theorems"].append(t)
            else:
                res["errors"].append("%s: theorem %s (coq/Gen/%s) fails: %s" % (
                    what, t, eqf, cached["failed"].get(t) or cached["failed"].get("*") or "an earlier statement failed"))
    return res


def check_proofs(pid):
    res = _check_proofs(pid)
    tr = check_translation(pid)
    tc = check_translation_checks(pid)
    tr = {"theorems": tr["theorems"] + tc["theorems"], "errors": tr["errors"] + tc["errors"],
          "semantic_only": tr.get("semantic_only", [])}
    res["semantic_only"] = tr.get("semantic_only", [])
    if tr["theorems"] or tr["errors"]:
        res["theorems"] = res.get("theorems", []) + tr["theorems"]
        res["obligations"] = res.get("obligations", 0) + len(tr["theorems"]) + len(tr["errors"])
        res["errors"] = res.get("errors", []) + tr["errors"]
        res["discharged"] = res["obligations"] if not res["errors"] else 0
        res["checker_cmd"] = res.get("checker_cmd", "") + "; tools/rs2v.py <repo>/src/bi.rs > BiGen.v && coqc BiGen.v BiGenEq.v (Print Assumptions: closed)"
        res["translated"] = "src/bi.rs -> SLGen.BiGen (regenerated this run); model = translation proved in coq/Gen/BiGenEq.v"
    return res


def _check_proofs(pid):
    """Rebuild the property files of <pid> (full .vo build of them and of everything they depend
    on), re-run coqc on each to collect Print Assumptions, audit the sources.  Returns dict."""
    t0 = time.time()
    files = prop_files(pid)
    if ISO and os.environ.get("VERIF_SKIP_PROOFS"):
        # evaluation of a changed tree: the development is the one already checked
        return {"file": ", ".join("coq/" + f for f in files), "theorems": [], "obligations": 0, "discharged": 0,
                "axioms": [], "errors": [], "checker_cmd": "skipped (isolated evaluation run)"}
    res = {"file": ", ".join("coq/" + f for f in files), "theorems": [], "obligations": 0, "discharged": 0,
           "axioms": [], "errors": [],
           "checker_cmd": "make -C coq %s && coqc -Q coq SL <each file> (Print Assumptions), Coq 8.16.1" % (
               " ".join(f[:-2] + ".vo" for f in files))}
    if not files:
        res["errors"].append("missing Props/%s.v" % pid)
        return res
    # Transfer.vo: the parametricity tie between the proved (real) and the executed (rational) instance
    rc, out = build_coq([f[:-2] + ".vo" for f in files] + ["Transfer.vo"])
    if rc != 0:
        m = re.search(r'File "([^"]+)", line (\d+)[^\n]*\n(.*?)(?:\nmake|\Z)', out, re.S)
        where = ("%s line %s: %s" % (m.group(1), m.group(2), m.group(3).strip()[:600])) if m else out[-1500:]
        res["errors"].append("proof no longer checks: " + where)
        res["wall_s"] = time.time() - t0
        return res
    os.makedirs(os.path.join(BUILD, "props"), exist_ok=True)
    axioms = set()
    for rel in files:
        text = open(os.path.join(COQ, rel)).read()
        thms = re.findall(r"^\s*Theorem\s+(\w+)", text, re.M)
        res["theorems"] += thms
        with Lock("coq"):
            rc, out = sh(["coqc", "-Q", ".", "SL", "-w",
                          "-notation-overridden,-deprecated-hint-without-locality,-deprecated-instance-without-locality",
                          rel, "-o", os.path.join(BUILD, "props", os.path.basename(rel) + "o")], cwd=COQ, timeout=1800)
        if rc != 0:
            res["errors"].append("coqc on %s failed: %s" % (rel, out[-1500:]))
            continue
        blocks = re.split(r"(?=Closed under the global context|Axioms:)", out)
        n_reports = 0
        for b in blocks:
            if b.startswith("Closed under the global context"):
                n_reports += 1
            elif b.startswith("Axioms:"):
                n_reports += 1
                for m in re.finditer(r"^([A-Za-z_][\w.']*)\s*:", b[len("Axioms:"):], re.M):
                    axioms.add(m.group(1))
        n_pa = len(re.findall(r"^\s*Print Assumptions\s+(\w+)", text, re.M))
        if n_pa < len(thms) or n_reports < len(thms):
            res["errors"].append("%s: %d theorems but %d Print Assumptions (%d reports)" % (rel, len(thms), n_pa, n_reports))
    res["obligations"] = len(res["theorems"])
    res["axioms"] = sorted(axioms)
    unknown = [a for a in axioms if a not in ALLOWED_AXIOMS]
    if unknown:
        res["errors"].append("axioms outside the allowlist: " + ", ".join(unknown))
    bad = audit_sources()
    if bad:
        res["errors"].append("forbidden constructs: " + "; ".join(bad[:10]))
    res["discharged"] = res["obligations"] if not res["errors"] else 0
    res["wall_s"] = time.time() - t0
    return res


# ----------------------------------------------------------------- reporting

def known_findings():
    p = os.path.join(VERIF, "known_findings.json")
    if not os.path.exists(p):
        return {"findings": [], "fixed": []}
    return json.load(open(p))


class Report:
    """collects what a check run found and turns it into exit code, lines and evidence"""

    def __init__(self, pid, tier, seed):
        self.pid = pid
        self.tier = tier
        self.seed = seed
        self.t0 = time.time()
        self.violations = []      # (kind, text, replay dict)
        self.known = []
        self.cov = {}
        self.samples = []
        self.assumptions = []
        self.notes = []

    def violation(self, kind, text, replay):
        """kind: 'predicate' (a failing input of the property), 'correspondence' or 'proof'"""
        self.violations.append((kind, text, replay))

    def finish(self, proof, streams, rule, extra=None):
        os.makedirs(os.path.join(OUT, "evidence"), exist_ok=True)
        for e in proof.get("errors", []):
            self.violation("proof", e, {"theorem_file": proof.get("file"), "error": e})
        lines = []
        pred = [v for v in self.violations if v[0] == "predicate"]
        other = [v for v in self.violations if v[0] != "predicate"]
        rc = 0
        if pred or other:
            rc = 1
            os.makedirs(os.path.join(OUT, "replay"), exist_ok=True)
            path = os.path.join(OUT, "replay", "%s.json" % self.pid)
            chosen = pred[0] if pred else other[0]
            with open(path, "w") as f:
                json.dump({"property": self.pid, "kind": chosen[0], "what": chosen[1], "replay": chosen[2],
                           "all": [{"kind": k, "what": t} for k, t, _ in (pred + other)[:50]]}, f, indent=1, default=str)
            if pred:
                lines.append("VIOLATION property=%s replay=%s" % (self.pid, path))
            else:
                lines.append("VIOLATION property=%s replay=%s no-failing-input-found" % (self.pid, path))
        for k in self.known:
            print("KNOWN-FINDING: property=%s %s" % (self.pid, k))
        n_eval = sum(s["cases"] for s in streams.values()) if streams else 0
        distinct = sum(s.get("distinct", 0) for s in streams.values()) if streams else 0
        cov = {
            "obligations": proof.get("obligations", 0),
            "discharged": proof.get("discharged", 0),
            "checker_cmd": proof.get("checker_cmd", ""),
            "trusted_base": [
                "Coq 8.16.1 kernel (coqc, vm_compute); no native_compute",
                "axioms reported by Print Assumptions: " + (", ".join(proof.get("axioms", [])) or "none"),
                "hand-written Gallina model (coq/Model) tied to /repo by the correspondence check",
                "extraction ExtrOcamlBasic + ocaml/run_model.ml driver, OCaml 4.13.1",
                "Rust harness (harness/), Python generator/comparator (tools/sl)",
            ] + (["tools/rs2v.py: translator of src/bi.rs to Gallina (parser, table of interpreted primitives: accessors, "
                  "check_unit_interval = Num.in_unit, check_is_one / ulps_eq!(e,1.0) = Num.is_one, ulps_eq!(e,0.0) = Num.is_zero)"]
                 if self.pid in GEN_THEOREMS else []) +
                (["harness/rat: exact rationals with a NaN as num_traits::Float / approx::UlpsEq (semantics of coq/Model/Num.v "
                  "by construction), the element type of the exact-rational streams q:*"]
                 if any(k.startswith("q:") for k in (streams or {})) else []),
            "theorems": proof.get("theorems", []),
            "evaluations": n_eval,
            "distinct_nontrivial": distinct,
            "rule": rule,
            "samples": self.samples[:6],
            "streams": streams,
        }
        cov.update(self.cov)
        if extra:
            cov.update(extra)
        ev = {
            "property_id": self.pid, "tier": self.tier, "seed": self.seed, "level": "proof",
            "coverage": cov,
            "assumptions": self.assumptions,
            "wall_s": round(time.time() - self.t0, 2),
            "violations": len(self.violations),
        }
        with open(os.path.join(OUT, "evidence", "%s.json" % self.pid), "w") as f:
            json.dump(ev, f, indent=1, default=str)
        for n in self.notes:
            print(n)
        print("%s %s: %d theorems checked, %d cases (%d distinct non-trivial), %d violations, %.1fs" % (
            self.pid, self.tier, proof.get("discharged", 0), n_eval, distinct, len(self.violations),
            time.time() - self.t0))
        for l in lines:
            print(l)
        return rc
