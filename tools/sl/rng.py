"""SplitMix64: every random choice of a run derives from one seeded state."""
MASK = (1 << 64) - 1


class Rng:
    def __init__(self, seed):
        self.s = seed & MASK

    def next(self):
        self.s = (self.s + 0x9E3779B97F4A7C15) & MASK
        z = self.s
        z = ((z ^ (z >> 30)) * 0xBF58476D1CE4E5B9) & MASK
        z = ((z ^ (z >> 27)) * 0x94D049BB133111EB) & MASK
        return z ^ (z >> 31)

    def below(self, n):
        return self.next() % n

    def unit(self):
        """uniform double in [0,1)"""
        return (self.next() >> 11) / float(1 << 53)

    def choice(self, seq):
        return seq[self.below(len(seq))]

    def chance(self, num, den):
        return self.below(den) < num

    def shuffle(self, l):
        l = list(l)
        for i in range(len(l) - 1, 0, -1):
            j = self.below(i + 1)
            l[i], l[j] = l[j], l[i]
        return l

    def fork(self, tag):
        h = self.next()
        for ch in str(tag):
            h = ((h ^ ord(ch)) * 0x100000001B3) & MASK
        return Rng(h)
