"""Generic check driver: proofs + correspondence + predicates for one property module."""
import json
import os
import struct
import subprocess
import sys
import time
from fractions import Fraction

from . import core, floatbits, num
from .core import Case, Report
from .rng import Rng


def case_to_json(c):
    return {"op": c.op, "ty": c.ty, "fam": c.fam, "style": c.style, "dims": c.dims,
            "mop": c.mop, "mdims": c.mdims, "bits": [num.enc(c.ty, x) for x in c.nums],
            "values": [repr(x) for x in c.nums], "tag": c.tag, "meta": c.meta,
            "impl_line": c.impl_line(), "model_line": c.model_line()}


def case_from_json(j):
    nums = [num.dec(j["ty"], b) for b in j["bits"]]
    return Case(j["op"], j["ty"], j["fam"], j["style"], j["dims"], nums, j["mop"], j["mdims"],
                j.get("tag", "replay"), j.get("meta") or {})


def load_corpus(pid):
    p = os.path.join(core.VERIF, "corpus", pid + ".jsonl")
    out = []
    if os.path.exists(p):
        for l in open(p):
            l = l.strip()
            if l:
                c = case_from_json(json.loads(l))
                c.tag = "corpus"
                out.append(c)
    return out


def load_known(pid):
    """concrete inputs of the known findings listed for this property (replayed on every run)"""
    out = []
    for f in core.known_findings().get("findings", []):
        if pid not in f.get("properties", []):
            continue
        for inp in f.get("inputs", []):
            t = inp["line"].split()
            op, ty, fam, style, nd = t[0], t[1], t[2], t[3], int(t[4])
            dims = [int(x) for x in t[5:5 + nd]]
            nn = int(t[5 + nd])
            nums = [num.dec(ty, x) for x in t[6 + nd:6 + nd + nn]]
            out.append(Case(op, ty, fam, style, dims, nums, mop=inp.get("mop", op), mdims=inp.get("mdims", dims),
                            tag="known_finding", meta={"known_finding": f["id"]}))
    return out


def q_twin(c):
    """The same case for the exact-rational element type (harness/src/rat.rs): the crate's *generic* code is run on
    the exact values of the f64 operands and must equal the model's rational instance, entry by entry."""
    if c.ty != "f64" or c.fam == "bi" or c.op.startswith(("new_", "arr_")) or c.mop == "-" or c.op == "eqv":
        return None
    return Case(c.op, "q", c.fam, c.style, c.dims, [num.exact(x) for x in c.nums], c.mop, c.mdims,
                "q:" + c.tag, dict(c.meta))


def nontrivial_key(c):
    return (c.mop, c.ty, tuple(c.mdims), tuple(num.key(c.ty, x) for x in c.nums))


def run_property(mod, pid, tier, seed, replay=None):
    rep = Report(pid, tier, seed)
    proof = core.check_proofs(pid)
    try:
        core.build_harness()
        core.build_model()
    except core.BuildError as e:
        rep.violation("correspondence", "build failed: " + str(e)[:2000], {"build_error": str(e)[-4000:]})
        return rep.finish(proof, {}, getattr(mod, "RULE", ""))
    rng = Rng(seed)
    if replay:
        j = json.load(open(replay))
        r = j.get("replay") or {}
        if "case" not in r:
            print("replay file names no concrete case: %s" % json.dumps(j.get("what")))
            cases = []
        else:
            cases = [case_from_json(r["case"])]
    else:
        cases = load_known(pid) + load_corpus(pid) + mod.gen(rng, tier)
        if getattr(mod, "Q_TWINS", True):
            cases += [t for t in (q_twin(c) for c in cases if c.tag != "known_finding") if t is not None]
        if hasattr(mod, "gen_q"):
            cases += mod.gen_q(rng, tier)
    impl = core.run_impl(cases)
    model, n_model = core.run_model(cases)
    streams = {}
    seen = set()
    none_kinds = getattr(mod, "NONE_KINDS", ("NONE",))
    nshown = 0
    q_pred_skipped = [0]
    for c, ri, rm in zip(cases, impl, model):
        st = streams.setdefault(c.tag, {"cases": 0, "distinct": 0, "impl_ok": 0, "impl_none": 0, "impl_fail": 0,
                                        "mismatch": 0, "predicate_failures": 0})
        st["cases"] += 1
        k = nontrivial_key(c)
        trivial = getattr(mod, "trivial", lambda c: False)(c)
        if k not in seen and not trivial:
            seen.add(k)
            st["distinct"] += 1
        st["impl_ok" if ri[0] == "OK" else "impl_none" if ri[0] == "NONE" else "impl_fail"] += 1
        scale = mod.scale(c, rm) if hasattr(mod, "scale") else 1
        if hasattr(mod, "compare") and c.ty != "q":
            mism = mod.compare(c, ri, rm)
        else:
            mism = core.compare(c, ri, rm, scale=scale, none_kinds=none_kinds)
        if ri[0] in ("HANG", "CRASH"):
            # non-termination / an abort is a concrete failing input of any property about this operation
            preds = ["the implementation %s on this input: %s" % (
                "did not terminate" if ri[0] == "HANG" else "aborted", ri[1])]
        elif c.tag == "q:exact_lattice" and not getattr(mod, "Q_LATTICE_PREDICATES", False):
            # operands with entries inside the code's tolerance bands ((0, eps], [1 - 2 eps, 1)), which the theorems
            # exclude by hypothesis and where a property may hold only up to the tolerance or not at all (DESIGN 5.3):
            # these cases are decided by the exact comparison with the proved model alone
            preds = []
        elif c.ty == "q":
            try:
                preds = mod.predicates(c, ri, rm) if hasattr(mod, "predicates") else []
            except (TypeError, ValueError, KeyError, OverflowError, struct.error) as e:
                # a predicate written for IEEE operands only: the exact comparison still decides
                preds = []
                q_pred_skipped[0] += 1
        else:
            preds = mod.predicates(c, ri, rm) if hasattr(mod, "predicates") else []
        if len(rep.samples) < 6 and (nshown % 7 == 0 or replay):
            rep.samples.append({"case": c.describe(),
                                "implementation": [repr(x) for x in ri[1]] if ri[0] == "OK" else list(map(str, ri)),
                                "model": [str(float(q)) if q is not None else "NaN" for q in rm[1]] if rm[0] == "OK" else "absent"})
        nshown += 1
        if preds:
            st["predicate_failures"] += 1
            for p in preds[:3]:
                kf = mod.known(c, ri, rm, p) if hasattr(mod, "known") else None
                if kf:
                    if kf not in rep.known:
                        rep.known.append(kf)
                else:
                    rep.violation("predicate", p, {"case": case_to_json(c), "implementation": list(map(str, ri)),
                                                   "model": [str(q) for q in rm[1]] if rm[0] == "OK" else "absent",
                                                   "failed_predicate": p})
        if mism:
            st["mismatch"] += 1
            kf = mod.known(c, ri, rm, mism) if hasattr(mod, "known") else None
            if kf:
                if kf not in rep.known:
                    rep.known.append(kf)
            elif not preds:
                rep.violation("correspondence", "model and implementation differ: " + mism,
                              {"case": case_to_json(c), "implementation": list(map(str, ri)),
                               "model": [str(q) for q in rm[1]] if rm[0] == "OK" else "absent",
                               "correspondence": mism, "stream": c.tag})
    if hasattr(mod, "cross") and not replay:
        keep = [i for i, c in enumerate(cases) if c.ty != "q"]
        fcases, fimpl, fmodel = [cases[i] for i in keep], [impl[i] for i in keep], [model[i] for i in keep]
        for idx, text in mod.cross(fcases, fimpl, fmodel):
            c, ri, rm = fcases[idx], fimpl[idx], fmodel[idx]
            kf = mod.known(c, ri, rm, text) if hasattr(mod, "known") else None
            if kf:
                if kf not in rep.known:
                    rep.known.append(kf)
                continue
            streams[c.tag]["predicate_failures"] += 1
            rep.violation("predicate", text, {"case": case_to_json(c), "implementation": list(map(str, ri)),
                                              "failed_predicate": text})
    if pid in floatbits.PIDS:
        # bit-level agreement of the translation of today's src/bi.rs, evaluated in IEEE-754 arithmetic by the kernel
        try:
            nb, same, bad = floatbits.check(cases, impl, len(cases) if replay else 1500 if tier == "quick" else 40000)
        except (RuntimeError, subprocess.SubprocessError, ValueError) as e:
            nb, same, bad = 0, 0, []
            rep.violation("correspondence", "bit-level evaluation of the translation failed: " + str(e)[:1500],
                          {"correspondence": str(e)[-3000:]})
        rep.cov["float_bit_level"] = {
            "cases": nb, "bit_identical": same,
            "what": "the Gallina translation of today's src/bi.rs (regenerated by tools/rs2v.py, proved equal to the model for "
                    "every number structure) instantiated at Flocq's IEEE-754 binary64 / binary32 operations (coq/Model/InstF.v) "
                    "and evaluated by the kernel must give the implementation's decision and floats bit for bit"}
        for c, text in bad[:20]:
            rep.violation("correspondence", "bit-level: " + text,
                          {"case": case_to_json(c), "correspondence": text, "stream": c.tag})
    sem_only = [o for o in proof.get("semantic_only", []) if ("gen_%s_eq" % o) in core.GEN_THEOREMS.get(pid, [])]
    if sem_only and not replay:
        # the source of these operators was rewritten in a way only the real-number tie survives: their rounding may have
        # changed; search their float behaviour much harder (see sl/deep.py)
        from . import deep
        from .props import c19 as _c19
        ndeep, hits = deep.search(rng, sem_only, 6000000 if tier == "quick" else 40000000)
        rep.cov["float_rewrite_search"] = {"operators": sem_only, "cases": ndeep, "rejections": len(hits)}
        if hits:
            hm, _ = core.run_model([c for c, _ in hits])
            for (c, r), m in zip(hits, hm):
                for p_ in (_c19.predicates(c, r, m) or [])[:1]:
                    rep.violation("predicate", p_, {"case": case_to_json(c), "implementation": list(map(str, r)),
                                                    "model": [str(q) for q in m[1]] if m[0] == "OK" else "absent",
                                                    "failed_predicate": p_})
    if replay:
        for c, ri, rm in zip(cases, impl, model):
            print("replay case:", c.impl_line())
            print("  implementation:", ri)
            print("  model:", rm if rm[0] != "OK" else [float(q) if q is not None else None for q in rm[1]])
    rep.cov["model_evaluations"] = n_model
    nq = sum(1 for c in cases if c.ty == "q")
    if nq:
        rep.cov["exact_rational_cases"] = nq
        rep.cov["exact_rational_note"] = (
            "streams 'q:*': the crate's generic code instantiated at the exact-rational element type Rat "
            "(harness/src/rat.rs, semantics = coq/Model/Num.v) on the exact values of the f64 operands; results must "
            "EQUAL the extracted model's (no tolerance); %d property predicates not applicable to that type" % q_pred_skipped[0])
    rep.assumptions = list(getattr(mod, "ASSUMPTIONS", [])) + [
        "float rounding of the numeric operators is not modelled: implementation results are compared with the exact "
        "rational model within 2^-30 (f64) / 2^-13 (f32)",
    ]
    return rep.finish(proof, streams, getattr(mod, "RULE", ""))
