"""C10: trust discounting (multinomial chains of 1..4 discounts, three binomial discounts)."""
from fractions import Fraction

from .. import gen as G, num
from ..core import Case, TOL, finite

RULE = ("simplexes on dyadic grids (den 4..64), random representable floats and an uncertainty sweep, sizes 1..5 and 7; "
        "trust levels 0, 1, dyadic and random floats, chains of 1..4 discounts; unlabelled, labelled (usize and newtype "
        "index) multi-arrays, Simplex / Opinion / OpinionRef receivers, f32 and f64; binomial trans_unc / trans_bsr / "
        "trans_opp on grid and float opinions; non-trivial = non-vacuous operand and not all trust levels in {0,1}")
NONE_KINDS = ("NONE", "PANIC", "ERR")


def trivial(c):
    if c.fam == "bi":
        return c.nums[2] == 1.0
    n, k = c.mdims
    return c.nums[n] == 1.0 or all(t in (0.0, 1.0) for t in c.nums[n + 1:])


def trust(rng, ty):
    r = rng.below(10)
    if r == 0:
        return 0.0
    if r == 1:
        return 1.0
    if r == 2:
        # almost full trust: 1 - 2^-k, well inside sqrt(machine epsilon) of 1 yet far above 1 - eps
        return 1.0 - 2.0 ** -(rng.choice([12, 13, 15, 18, 21]) if ty == "f32" else rng.choice([12, 20, 27, 30, 35, 45]))
    if r < 6:
        return rng.below(65) / 64.0
    return num.rnd(ty, rng.unit())


def gen(rng, tier):
    out = []
    nrand = 40 if tier == "quick" else 1200
    for ty in ("f64", "f32"):
        for n in (1, 2, 3, 4, 5, 7):
            ops = []
            for _ in range(nrand if n <= 4 else max(10, nrand // 3)):
                ops.append(("grid", G.grid_simplex(rng, n, rng.choice([4, 8, 16, 64]))))
            for _ in range(nrand // 2):
                ops.append(("float", G.float_simplex(rng, ty, n)))
            for u in G.sweep_u(ty):
                ops.append(("sweep", G.simplex_with_u(rng, ty, n, u)))
            for tag, (b, u) in ops:
                k = 1 + rng.below(4)
                ts = [trust(rng, ty) for _ in range(k)]
                fams = ["marr", "marrd"] + (["marrdn"] if n in (2, 3) else [])
                fam = rng.choice(fams)
                style = rng.choice(["spx", "own", "ref"])
                out.append(Case("disc", ty, fam, style, [n, k], b + [u] + ts, mop="discchain", tag=tag))
                if tier != "quick" or rng.chance(1, 5):
                    for f2 in fams:
                        for s2 in ("spx", "own", "ref"):
                            if (f2, s2) != (fam, style):
                                out.append(Case("disc", ty, f2, s2, [n, k], b + [u] + ts, mop="discchain", tag=tag))
        # binomial
        for _ in range(nrand * 2):
            if rng.chance(2, 3):
                tag = "grid"
                b, u = G.grid_simplex(rng, 2, rng.choice([8, 16, 64]))
                a = rng.below(65) / 64.0
            else:
                tag = "float"
                b, u = G.float_simplex(rng, ty, 2)
                a = num.rnd(ty, rng.unit())
            w = [b[0], b[1], u, a]
            t = trust(rng, ty)
            out.append(Case("btunc", ty, "bi", "-", [], w + [t], tag=tag))
            out.append(Case("btbsr", ty, "bi", "-", [], w + [t], tag=tag))
            # trans_opp: trust + distrust <= 1
            if tag == "grid":
                k = G.composition(rng, 64, 3)
                tt, ss = k[0] / 64.0, k[1] / 64.0
            else:
                tt = num.rnd(ty, rng.unit())
                ss = num.rnd(ty, rng.unit() * (1.0 - tt))
                if num.rnd(ty, num.rnd(ty, 1.0 - tt) - ss) < 0:
                    ss = 0.0
            out.append(Case("btopp", ty, "bi", "-", [], w + [tt, ss], tag=tag))
            if rng.chance(1, 6):
                # the corners of the trust / distrust triangle: no referral at all, pure trust, pure distrust
                for tt, ss in ((0.0, 0.0), (1.0, 0.0), (0.0, 1.0), (0.0, 0.5), (0.5, 0.0), (0.5, 0.5)):
                    out.append(Case("btopp", ty, "bi", "-", [], w + [tt, ss], tag="corner"))
    return out


def predicates(c, ri, rm):
    if ri[0] != "OK":
        return ["%s failed on a well-formed operand: %s" % (c.op, " ".join(map(str, ri[:2])))]
    vals = ri[1]
    if not all(finite(v) for v in vals):
        return ["non-finite result %r" % (vals,)]
    tol = TOL[c.ty] * 4
    eps = num.EPS[c.ty]
    out = []
    if c.fam == "bi":
        b, d, u, a = [Fraction(x) for x in c.nums[:4]]
        r = [Fraction(v) for v in vals]
        if c.op in ("btunc", "btbsr"):
            t = Fraction(c.nums[4])
            want = [t * b, t * d, 1 - t * (1 - u), a]
        else:
            t, s = Fraction(c.nums[4]), Fraction(c.nums[5])
            want = [t * b + s * d, t * d + s * b, 1 - (t + s) * (1 - u), a]
        if any(abs(x - y) > tol for x, y in zip(r, want)):
            out.append("%s result %r differs from the definition %r" % (c.op, vals, [float(x) for x in want]))
        if r[3] != a:
            out.append("base rate changed")
        return out
    n, k = c.mdims
    b = [Fraction(x) for x in c.nums[:n]]
    u = Fraction(c.nums[n])
    ts = [Fraction(x) for x in c.nums[n + 1:]]
    rb = [Fraction(v) for v in vals[:n]]
    ru = Fraction(vals[n])
    T = Fraction(1)
    for t in ts:
        T *= t
    slack = tol + 2 * eps * k
    # scaling is exact up to rounding: relative accuracy, plus the 2 eps the vacuous shortcut may cost per step
    if any(abs(x - T * y) > 2 * eps * k + 64 * eps * k * T * y for x, y in zip(rb, b)):
        out.append("belief masses are not the originals scaled by the product of the trust levels: %r" % (vals[:n],))
    if abs(ru - (1 - T * (1 - u))) > slack:
        out.append("uncertainty is not 1 - t(1-u)")
    if any(x < -tol for x in rb) or ru < -tol or abs(sum(rb) + ru - 1) > slack:
        out.append("discounted simplex is not well-formed")
    return out


def gen_q(rng, tier):
    """exact-rational cases: see qgen.py"""
    from . import qgen
    return qgen.discount(rng, tier)
