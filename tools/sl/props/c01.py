"""C01: checked constructors.  Bit-exact correspondence with the Flocq model (coq/Model/Chk.v),
evaluated inside Coq by vm_compute on a generated cases file."""
import math
import os
import re
import subprocess
import time
from concurrent.futures import ThreadPoolExecutor
from fractions import Fraction

from .. import core, gen as G, num
from ..core import Report
from ..rng import Rng

RULE = ("parameter tuples built from accepted tuples (dyadic grids, random floats) by replacing components with boundary "
        "values (0, 1, +-k ulps around them for k = 1..6, -0.0, NaN, +-inf, subnormals, machine epsilon multiples) and by "
        "violating each constraint singly and jointly with margins from 1 ulp to 0.5; element types f32/f64; binomial, "
        "plain array, unlabelled and labelled multi-array; sizes 1..5 and 7; every checked entry point (try_new, new, TryFrom "
        "tuple forms, simplex-to-opinion upgrade); plus the vacuous / dogmatic predicates around 0 and 1; the accept / "
        "reject decision must equal the Flocq model's bit for bit; non-trivial = tuple is not exactly well-formed")
COQ = core.COQ


def specials(ty):
    e = num.FEPS[ty]
    tiny = 5e-324 if ty == "f64" else 1.4e-45
    vals = [0.0, -0.0, 1.0, 0.5, math.nan, math.inf, -math.inf, tiny, -tiny, num.rnd(ty, 1e-310 if ty == "f64" else 1e-40),
            e, -e, e / 2, num.next_up(ty, e, 1), -num.next_up(ty, e, 1), 2 * e, -2 * e, num.rnd(ty, 1.0 + e), 2.0, -1.0]
    for k in range(1, 7):
        vals += [num.next_up(ty, 1.0, k), num.next_up(ty, 1.0, -k), num.next_up(ty, 0.0, k), num.next_up(ty, 0.0, -k)]
    return vals


def margins(ty):
    e = num.FEPS[ty]
    return [e / 2, e, 2 * e, 3 * e, 5 * e, 16 * e, 1e-9 if ty == "f64" else 1e-5, 1e-6 if ty == "f64" else 1e-4, 1e-3, 0.1, 0.5]


def base_tuple(rng, ty, n, kind):
    """(b list, u, a list) accepted or nearly so"""
    if rng.chance(1, 2):
        w = G.grid_opinion(rng, n, rng.choice([4, 8, 64]))
    else:
        w = G.float_opinion(rng, ty, n, positive=False)
    return list(w[0]), w[1], list(w[2])


def mutate(rng, ty, b, u, a, binomial):
    """returns a possibly ill-formed tuple"""
    b, a = list(b), list(a)
    n = len(b)
    r = rng.below(10)
    sp = specials(ty)
    if r == 0:
        return b, u, a
    if r <= 3:
        # replace 1..2 components by special values
        for _ in range(1 + rng.below(2)):
            k = rng.below(2 * n + 1)
            v = rng.choice(sp)
            if k < n:
                b[k] = v
            elif k == n:
                u = v
            else:
                a[k - n - 1] = v
        return b, u, a
    m = rng.choice(margins(ty)) * rng.choice([1, -1])
    if r <= 5:
        # violate (or stress) the sum constraint of the simplex only
        k = rng.below(n + 1)
        if k < n:
            b[k] = num.rnd(ty, b[k] + m)
        else:
            u = num.rnd(ty, u + m)
        return b, u, a
    if r <= 7:
        # violate the base rate only
        k = rng.below(n)
        a[k] = num.rnd(ty, a[k] + m)
        return b, u, a
    if r == 8 and n >= 2 and rng.chance(1, 2):
        # base-rate range violation with the sum (and possibly every prefix sum) kept in range
        i, j = rng.below(n), rng.below(n)
        if i != j:
            a[i] = num.rnd(ty, a[i] + abs(m) + a[j])
            a[j] = num.rnd(ty, -abs(m))
        return b, u, a
    if r == 8:
        # range violation with the sum kept: move mass from one component to another
        if n >= 2:
            i, j = rng.below(n), rng.below(n)
            if i != j:
                b[i] = num.rnd(ty, b[i] + abs(m) + b[j])
                b[j] = num.rnd(ty, -abs(m))
        else:
            b[0] = num.rnd(ty, b[0] + abs(m) + u)
            u = num.rnd(ty, -abs(m))
        return b, u, a
    # joint violations
    b[rng.below(n)] = num.rnd(ty, b[rng.below(n)] + m)
    a[rng.below(n)] = num.rnd(ty, a[rng.below(n)] - m)
    u = rng.choice([u, rng.choice(sp)])
    return b, u, a


def gen(rng, tier):
    cases = []  # dict: op fam style ty dims nums kind
    nrand = 60 if tier == "quick" else 3000
    for ty in ("f64", "f32"):
        for n in (1, 2, 3, 4, 5, 7):
            for i in range(nrand if n <= 4 else max(10, nrand // 4)):
                b, u, a = mutate(rng, ty, *base_tuple(rng, ty, n, None), binomial=False)
                for fam, styles_s, styles_o in (("arr", ["try_new", "new", "try_from"], ["try_new", "new", "into_opinion"]),
                                                ("marr", ["try_new", "new"], ["try_new", "new"]),
                                                ("marrd", ["try_new", "new", "try_from"], ["try_new", "new", "try_from"])):
                    if tier == "quick" and rng.chance(1, 2):
                        continue
                    for st in styles_s:
                        cases.append(dict(op="new_spx", ty=ty, fam=fam, style=st, dims=[n], nums=b + [u], kind="simplex"))
                    for st in styles_o:
                        cases.append(dict(op="new_op", ty=ty, fam=fam, style=st, dims=[n], nums=b + [u] + a, kind="opinion"))
        for i in range(nrand * 3):
            b, u, a = mutate(rng, ty, *base_tuple(rng, ty, 2, None), binomial=True)
            av = a[0] if rng.chance(2, 3) else rng.choice(specials(ty))
            for st in ("try_new", "new"):
                cases.append(dict(op="bnew", ty=ty, fam="bi", style=st, dims=[], nums=[b[0], b[1], u, av], kind="bop"))
                cases.append(dict(op="bnew", ty=ty, fam="bi", style="spx_" + st, dims=[], nums=[b[0], b[1], u], kind="bsimplex"))
        for v in specials(ty) + [num.rnd(ty, 1.0 - m) for m in margins(ty)] + [num.rnd(ty, m) for m in margins(ty)]:
            cases.append(dict(op="new_flags", ty=ty, fam="-", style="-", dims=[], nums=[v], kind="flags"))
    return cases


def impl_line(c):
    return "%s %s %s %s %d %s %d %s" % (c["op"], c["ty"], c["fam"], c["style"], len(c["dims"]),
                                        " ".join(map(str, c["dims"])), len(c["nums"]),
                                        " ".join("%x" % num.bits(c["ty"], x) for x in c["nums"]))


def coq_term(c):
    f = "F64" if c["ty"] == "f64" else "F32"
    z = lambda x: "0x%x" % num.bits(c["ty"], x)
    zl = lambda xs: "[" + "; ".join(z(x) for x in xs) + "]"
    x = c["nums"]
    k = c["kind"]
    if k == "bop":
        return "accept_bop %s %s %s %s %s" % (f, z(x[0]), z(x[1]), z(x[2]), z(x[3]))
    if k == "bsimplex":
        return "accept_bsimplex %s %s %s %s" % (f, z(x[0]), z(x[1]), z(x[2]))
    n = c["dims"][0] if c["dims"] else 0
    if k == "simplex":
        return "accept_simplex %s %s %s" % (f, zl(x[:n]), z(x[n]))
    if k == "opinion":
        return "accept_opinion %s %s %s %s" % (f, zl(x[:n]), z(x[n]), zl(x[n + 1:]))
    return None


def run_model_coq(terms):
    """evaluate boolean terms inside Coq (vm_compute), sharded over coqc processes"""
    d = os.path.join(core.SCRATCH, "c01cases")
    os.makedirs(d, exist_ok=True)
    # at most ~1000 terms per file: a list literal of a few MB overflows coqc's stack
    nsh = max(1, min(core.NPROC, len(terms) // 200), -(-len(terms) // 1000))
    shards = [terms[i::nsh] for i in range(nsh)]
    paths = []
    for i, sh in enumerate(shards):
        p = os.path.join(d, "cases_%d_%d.v" % (os.getpid(), i))
        with open(p, "w") as f:
            f.write("From Coq Require Import ZArith List Bool.\nImport ListNotations.\nOpen Scope Z_scope.\n"
                    "From SL Require Import Model.Chk.\n")
            f.write("Definition answers : list bool :=\n  [ %s ].\n" % ";\n    ".join(sh))
            f.write("Eval vm_compute in answers.\n")
        paths.append(p)

    def one(p):
        r = subprocess.run(["coqc", "-noglob", "-Q", COQ, "SL", p], stdout=subprocess.PIPE, stderr=subprocess.STDOUT,
                           timeout=3000, cwd=d)
        out = r.stdout.decode()
        if r.returncode != 0:
            raise RuntimeError("coqc failed on %s: %s" % (p, out[-2000:]))
        body = out[out.index("="):]
        return [t == "true" for t in re.findall(r"\b(true|false)\b", body)]

    with ThreadPoolExecutor(max_workers=min(nsh, core.NPROC)) as ex:
        outs = list(ex.map(one, paths))
    for p in paths:
        for ext in ("", "o", "ok", "os"):
            q = p + ext if ext else p
            if os.path.exists(q):
                os.unlink(q)
        g = p[:-2] + ".glob"
    res = [None] * len(terms)
    for i, o in enumerate(outs):
        if len(o) != len(shards[i]):
            raise RuntimeError("coq returned %d answers for %d terms" % (len(o), len(shards[i])))
        for j, v in enumerate(o):
            res[i + j * nsh] = v
    return res


def fin(x):
    return x == x and abs(x) != math.inf


def reference(c):
    """independent reference of the decision and the real-valued facts about the tuple"""
    ty = c["ty"]
    e = num.FEPS[ty]
    x = c["nums"]
    in_unit = lambda v: fin(v) and -e <= v <= 1 + 4 * e
    is_one = lambda v: fin(v) and 1 - 2 * e <= v <= 1 + 4 * e
    k = c["kind"]
    if k in ("bop", "bsimplex"):
        s = num.rnd(ty, num.rnd(ty, x[0] + x[1]) + x[2])
        ok = is_one(s) and all(in_unit(v) for v in x[:3]) and (k == "bsimplex" or in_unit(x[3]))
        sums = [x[:3]]
        comps = x[:3] + (x[3:4] if k == "bop" else [])
    else:
        n = c["dims"][0]
        sb = G.fsum(ty, x[:n])
        ok = all(in_unit(v) for v in x[:n + 1]) and is_one(num.rnd(ty, sb + x[n]))
        sums = [x[:n + 1]]
        comps = x[:n + 1]
        if k == "opinion":
            ok = ok and all(in_unit(v) for v in x[n + 1:]) and is_one(G.fsum(ty, x[n + 1:]))
            sums.append(x[n + 1:])
            comps = x
    return ok, sums, comps


def main(pid, tier, seed, replay):
    rep = Report(pid, tier, seed)
    proof = core.check_proofs(pid)
    try:
        core.build_harness()
    except core.BuildError as ex:
        rep.violation("correspondence", "build failed: " + str(ex)[:2000], {"build_error": str(ex)[-4000:]})
        return rep.finish(proof, {}, RULE)
    if replay:
        import json
        cases = [json.load(open(replay))["replay"]["case"]]
    else:
        cases = gen(Rng(seed), tier)
    lines = [impl_line(c) for c in cases]
    impl = core.run_impl_raw(lines)
    terms_idx = [i for i, c in enumerate(cases) if c["kind"] != "flags"]
    flag_idx = [i for i, c in enumerate(cases) if c["kind"] == "flags"]
    terms = [coq_term(cases[i]) for i in terms_idx]
    for i in flag_idx:
        f = "F64" if cases[i]["ty"] == "f64" else "F32"
        z = "0x%x" % num.bits(cases[i]["ty"], cases[i]["nums"][0])
        terms += ["vacuous %s %s" % (f, z), "dogmatic %s %s" % (f, z)]
    model = run_model_coq(terms)
    streams = {}
    seen = set()
    pairs = {}

    def viol(kind, text, c, line, ans):
        rep.violation(kind, text, {"case": c, "impl_line": line, "implementation": ans})

    for pos, i in enumerate(terms_idx):
        c, ans = cases[i], impl[i]
        st = streams.setdefault(c["kind"], {"cases": 0, "distinct": 0, "accepted": 0, "rejected": 0, "mismatch": 0,
                                            "predicate_failures": 0})
        st["cases"] += 1
        accepted = ans.startswith("OK")
        st["accepted" if accepted else "rejected"] += 1
        ok_ref, sums, comps = reference(c)
        exact_wf = all(fin(v) and 0 <= v <= 1 for v in comps) and all(
            all(fin(v) for v in s) and sum(Fraction(v) for v in s) == 1 for s in sums)
        key = (c["kind"], c["ty"], tuple(num.bits(c["ty"], v) for v in c["nums"]))
        if key not in seen and not exact_wf:
            seen.add(key)
            st["distinct"] += 1
        if ans.startswith("BAD"):
            viol("correspondence", "harness error: " + ans, c, lines[i], ans)
            continue
        m = model[pos]
        preds = []
        if any(not fin(v) for v in comps) and accepted:
            preds.append("a tuple containing NaN or an infinity was accepted")
        if exact_wf and not accepted and len(comps) <= 9:
            preds.append("an exactly well-formed tuple was rejected: " + ans[:120])
        margin = 1e-9 if c["ty"] == "f64" else 1e-4
        if all(fin(v) for v in comps):
            visible = any(v < -margin or v > 1 + margin for v in comps) or any(
                abs(sum(Fraction(v) for v in s) - 1) > margin for s in sums)
            if visible and accepted:
                preds.append("a tuple missing a constraint by a visible margin was accepted")
        if accepted:
            stored = [int(t, 16) for t in ans.split()[1:]]
            if stored != [num.bits(c["ty"], v) for v in c["nums"]]:
                preds.append("accepted opinion does not store the supplied numbers unchanged")
        # new panics exactly when try_new errs: group by tuple
        gk = key + (c["fam"],)
        fam_pairs = pairs.setdefault(gk, {})
        fam_pairs[c["style"]] = (accepted, ans.split()[0], i)
        if preds:
            st["predicate_failures"] += 1
            viol("predicate", preds[0], c, lines[i], ans)
        elif accepted != m:
            st["mismatch"] += 1
            viol("correspondence", "decision differs from the Flocq model (%s): implementation %s, model %s, "
                 "independent reference %s" % (coq_term(c), "accepts" if accepted else "rejects",
                                               "accepts" if m else "rejects", "accepts" if ok_ref else "rejects"),
                 c, lines[i], ans)
        elif accepted != ok_ref:
            rep.notes.append("note: python reference disagrees with both model and implementation on %s" % lines[i])
        if len(rep.samples) < 6 and pos % 97 == 0:
            rep.samples.append({"case": lines[i], "implementation": ans[:80], "model_accepts": m})
    for gk, d in pairs.items():
        kinds = {k: v[1] for k, v in d.items()}
        acc = {v[0] for v in d.values()}
        if len(acc) > 1:
            i = next(iter(d.values()))[2]
            st = streams[cases[i]["kind"]]
            st["predicate_failures"] += 1
            viol("predicate", "entry points disagree on the same tuple (new must panic exactly when try_new errs): %s" % kinds,
                 cases[i], lines[i], impl[i])
        for stl, (a, word, i) in d.items():
            if not a and ((stl in ("new", "spx_new")) != (word == "PANIC")):
                viol("predicate", "%s reported %s" % (stl, word), cases[i], lines[i], impl[i])
    base = len(terms_idx)
    st = streams.setdefault("flags", {"cases": 0, "distinct": 0, "mismatch": 0, "predicate_failures": 0})
    for k, i in enumerate(flag_idx):
        c, ans = cases[i], impl[i]
        st["cases"] += 1
        st["distinct"] += 1
        mv, md = model[base + 2 * k], model[base + 2 * k + 1]
        got = ans.split()[1:]
        want = ["1" if mv else "0", "1" if md else "0"] * 3
        u = c["nums"][0]
        e = num.FEPS[c["ty"]]
        ref = ["1" if (fin(u) and 1 - 2 * e <= u <= 1 + 4 * e) else "0", "1" if (fin(u) and abs(u) <= e) else "0"] * 3
        if got != ref:
            st["predicate_failures"] += 1
            viol("predicate", "vacuous / dogmatic predicates %s for u = %r, expected %s" % (got, u, ref), c, lines[i], ans)
        elif got != want:
            st["mismatch"] += 1
            viol("correspondence", "vacuous / dogmatic predicates differ from the Flocq model for u = %r" % u, c, lines[i], ans)
    rep.assumptions = ["the approx crate's ulps_eq / abs_diff_eq are modelled from their source (approx 0.5.1)",
                       "the model is evaluated inside Coq by vm_compute on Flocq's binary_float (bit-exact IEEE arithmetic)"]
    rep.cov["model_evaluations"] = len(terms)
    return rep.finish(proof, streams, RULE)
