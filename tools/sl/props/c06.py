"""C06: opinion products."""
from fractions import Fraction

from .. import gen as G, num
from ..core import Case, TOL, finite
from .common import flat_op, fr, split_op, wf_simplex_fail, wf_dist_fail, known_product_rounding

RULE = ("pairs and triples of well-formed opinions (zero base rates, vacuous and dogmatic factors included) on dyadic "
        "grids 1/8..1/64 and random floats, and factors whose tiny positive base-rate entries give a joint base rate around "
        "or below machine epsilon in the cell that bounds the uncertainty; factor sizes 2..4 (two factors) and 2..3 (three factors); unlabelled "
        "(validated) and labelled (usize and newtype index) implementations, owned and borrowed operands, f32/f64; "
        "each pair is also run with the factors exchanged (transposition); non-trivial = no vacuous factor")
NONE_KINDS = ("NONE", "PANIC")


def trivial(c):
    off = 0
    for n in c.dims:
        if c.nums[off + n] == 1.0:
            return True
        off += 2 * n + 1
    return False


def gen(rng, tier):
    out = []
    nrand = 25 if tier == "quick" else 1500
    gid = 0
    for ty in ("f64", "f32"):
        for n0 in (2, 3, 4):
            for n1 in (2, 3, 4):
                for i in range(nrand):
                    if i % 3 == 2:
                        tag = "float"
                        w0, w1 = G.float_opinion(rng, ty, n0, positive=False), G.float_opinion(rng, ty, n1, positive=False)
                    else:
                        tag = "grid"
                        den = rng.choice([8, 16, 64])
                        k0 = rng.choice([None, None, None, "vac", "dog"])
                        w0, w1 = G.grid_opinion(rng, n0, den, k0), G.grid_opinion(rng, n1, den, rng.choice([None, None, k0]))
                    gid += 1
                    fams = [("arr", 0), ("marrd", 1), ("marrdn", 1)]
                    for fam, lab in (fams if (tier != "quick" or i % 4 == 0) else [rng.choice(fams)]):
                        st = rng.choice(["own", "ref"])
                        out.append(Case("prod2", ty, fam, st, [n0, n1], flat_op(w0) + flat_op(w1), mdims=[n0, n1, lab],
                                        tag=tag, meta={"g": gid, "side": 0}))
                        out.append(Case("prod2", ty, fam, st, [n1, n0], flat_op(w1) + flat_op(w0), mdims=[n1, n0, lab],
                                        tag=tag, meta={"g": gid, "side": 1}))
        for sizes in [(2, 2), (2, 3), (3, 2), (3, 3), (2, 2, 2), (2, 3, 2), (3, 2, 3), (3, 3, 3)]:
            for i in range(6 if tier == "quick" else 200):
                ws = tiny_factors(rng, ty, sizes, sub=(i % 3 == 1))
                if ws is None:
                    continue
                nums = sum((flat_op(w) for w in ws), [])
                for fam, lab in [("arr", 0), ("marrd", 1)] + ([("marrdn", 1)] if len(sizes) == 2 else []):
                    out.append(Case("prod%d" % len(sizes), ty, fam, rng.choice(["own", "ref"]), list(sizes), nums,
                                    mdims=list(sizes) + [lab], tag="tiny_joint_base_rate"))
        # dogmatic factors whose belief masses add up to the float just above 1 (accepted by the constructors): every
        # joint projection lies a rounding residue below the product of the beliefs, the smallest quotient is negative
        for sizes in [(2, 3), (3, 3), (4, 3), (4, 4), (2, 3, 2), (3, 2, 3), (3, 3, 3)]:
            for i in range(6 if tier == "quick" else 300):
                ws = [G.overfull_dogmatic(rng, ty, n) if n >= 3 else G.float_opinion(rng, ty, n, u=0.0) for n in sizes]
                nums = sum((flat_op(w) for w in ws), [])
                for fam, lab in [("arr", 0), ("marrd", 1)] + ([("marrdn", 1)] if len(sizes) == 2 else []):
                    out.append(Case("prod%d" % len(sizes), ty, fam, rng.choice(["own", "ref"]), list(sizes), nums,
                                    mdims=list(sizes) + [lab], tag="overfull_dogmatic_product"))
        # every factor has a value of base rate exactly 0 that carries belief mass (random floats): the cells of such
        # values put no bound on the uncertainty, whatever the sign of their rounding residue P - b0 b1; all families
        for sizes in [(2, 2), (2, 3), (3, 2), (3, 3), (2, 2, 2), (2, 3, 2), (3, 2, 2)]:
            for i in range(8 if tier == "quick" else 300):
                ws = []
                for n in sizes:
                    b, u = G.float_simplex(rng, ty, n)
                    k = rng.below(n)
                    a = G.float_dist(rng, ty, n - 1, True)
                    ws.append((b, u, a[:k] + [0.0] + a[k:]))
                nums = sum((flat_op(w) for w in ws), [])
                for fam, lab in [("arr", 0), ("marrd", 1)] + ([("marrdn", 1)] if len(sizes) == 2 else []):
                    out.append(Case("prod%d" % len(sizes), ty, fam, rng.choice(["own", "ref"]), list(sizes), nums,
                                    mdims=list(sizes) + [lab], tag="zero_base_rate_float"))
        for n0 in (2, 3):
            for n1 in (2, 3):
                for n2 in (2, 3):
                    for i in range(nrand):
                        if i % 3 == 2:
                            tag = "float"
                            ws = [G.float_opinion(rng, ty, n, positive=False) for n in (n0, n1, n2)]
                        else:
                            tag = "grid"
                            den = rng.choice([8, 16, 64])
                            k0 = rng.choice([None, None, None, "vac", "dog"])
                            ws = [G.grid_opinion(rng, n, den, rng.choice([None, k0])) for n in (n0, n1, n2)]
                        nums = flat_op(ws[0]) + flat_op(ws[1]) + flat_op(ws[2])
                        for fam, lab in [("arr", 0), ("marrd", 1)]:
                            out.append(Case("prod3", ty, fam, rng.choice(["own", "ref"]), [n0, n1, n2], nums,
                                            mdims=[n0, n1, n2, lab], tag=tag + "3"))
    return out


def tiny_factors(rng, ty, sizes, sub=False):
    """factors with one tiny positive base-rate entry each, such that the joint base rate of that cell lies around or
    below machine epsilon (sub: in the subnormal range of the element type) yet is not zero: the cell still bounds
    the uncertainty"""
    k = len(sizes)
    if sub:
        # just below the normal range: the joint base rate 2^-(k e) is exact and the joint projection keeps >= 40 (f64)
        # / 17 (f32) significant bits; deeper in the subnormal range the quotient (P - b0 b1)/a is inaccurate by IEEE
        # design (gradual underflow) and no formula could do better
        e = -(-(rng.choice([1028, 1034]) if ty == "f64" else rng.choice([128, 132])) // k)
    elif ty == "f64":
        e = rng.choice([52, 54, 60, 80]) // k + rng.below(3)
    else:
        e = rng.choice([23, 25, 30]) // k + rng.below(3)
    ws = [G.tiny_base_rate_opinion(rng, ty, n, 2.0 ** -e) for n in sizes]
    return None if any(w is None for w in ws) else ws


def factors(c):
    off = 0
    fs = []
    for n in c.dims:
        b, u, a, off = split_op(c.nums, n, off)
        fs.append((b, u, a))
    return fs


def outer(vs):
    out = [Fraction(1)]
    for v in vs:
        out = [x * y for x in out for y in v]
    return out


def known(c, ri, rm, text):
    return known_product_rounding(c, ri)


def predicates(c, ri, rm):
    if ri[0] != "OK":
        return ["%s failed on well-formed factors: %s" % (c.op, " ".join(map(str, ri[:2])))]
    vals = ri[1]
    if not all(finite(v) for v in vals):
        return ["non-finite result"]
    fs = factors(c)
    cells = 1
    for n in c.dims:
        cells *= n
    tol = TOL[c.ty] * 4
    b = fr(vals[:cells]); u = Fraction(vals[cells]); a = fr(vals[cells + 1:])
    A = outer([f[2] for f in fs])
    P = outer([[bi + ai * f[1] for bi, ai in zip(f[0], f[2])] for f in fs])
    Bm = outer([f[0] for f in fs])
    pos = [i for i in range(cells) if A[i] > 0]
    kappa = max([1] + [1 / A[i] for i in pos])
    t = tol * min(kappa, 1 << 18)
    out = []
    if u < 0:
        out.append("the uncertainty of the product is negative (%r)" % vals[cells])
    e = wf_simplex_fail(b, u, t) or wf_dist_fail(a, tol)
    if e:
        out.append("product is not well-formed: " + e)
    if any(abs(x - y) > tol for x, y in zip(a, A)):
        out.append("base rate is not the outer product of the factors' base rates")
    if any(abs(bi + ai * u - p) > t for bi, ai, p in zip(b, a, P)):
        out.append("projection is not the outer product of the factors' projections")
    if any(bi < bm - t for bi, bm in zip(b, Bm)):
        out.append("a joint belief mass is below the product of the factors' belief masses")
    want = min((P[i] - Bm[i]) / A[i] for i in pos)
    if abs(u - want) > t:
        out.append("uncertainty %r is not the maximal one %s" % (vals[cells], float(want)))
    if all(f[1] == 1 for f in fs) and (abs(u - 1) > tol or any(abs(x) > tol for x in b)):
        out.append("product of vacuous factors is not vacuous")
    if all(f[1] == 0 for f in fs) and abs(u) > tol:
        out.append("product of dogmatic factors is not dogmatic")
    return out


def scale(c, rm):
    fs = factors(c)
    A = outer([f[2] for f in fs])
    return min(max([1] + [1 / x for x in A if x > 0]), 1 << 18)


def cross(cases, impl, model):
    """swapping the factors transposes the result"""
    by = {}
    for i, c in enumerate(cases):
        if c.op == "prod2" and "g" in c.meta:
            by.setdefault((c.meta["g"], c.ty, c.fam, c.style), {})[c.meta["side"]] = i
    out = []
    for key, d in by.items():
        if 0 in d and 1 in d:
            i, j = d[0], d[1]
            if impl[i][0] != "OK" or impl[j][0] != "OK":
                continue
            n0, n1 = cases[i].dims
            x, y = impl[i][1], impl[j][1]
            tol = float(TOL[cases[i].ty]) * 4 * float(scale(cases[i], None))
            cells = n0 * n1
            def cell(v, base, r, c_, ncol):
                return v[base + r * ncol + c_]
            bad = False
            for base in (0, cells + 1):
                for r in range(n0):
                    for cc in range(n1):
                        if abs(cell(x, base, r, cc, n1) - cell(y, base, cc, r, n0)) > tol:
                            bad = True
            if abs(x[cells] - y[cells]) > tol:
                bad = True
            if bad:
                out.append((i, "exchanging the factors does not transpose the product"))
    return out


def gen_q(rng, tier):
    """exact-rational cases: see qgen.py"""
    from . import qgen
    return qgen.products(rng, tier)
