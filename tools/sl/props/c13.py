"""C13: binomial opinions are the binary case of multinomial ones."""
from fractions import Fraction

from .. import gen as G, num
from ..core import Case, TOL, finite
from .common import fr

RULE = ("pairs of well-formed binomial opinions: 1/8 grid incl. vacuous / dogmatic / 0-1 base rates (exhaustive in the "
        "thorough tier), random 1/64 grid, nearly vacuous (1-u = 1e-3..1e-15) and nearly dogmatic (u = 1e-3..1e-12) "
        "operands, both operands on the lattice u = 1 or 1 - k ulps (k = 5..10, just outside the vacuity tolerance) with "
        "different base rates, one object passed as both operands (binomial x.op(&x) and multinomial fuse(&w, &w)); uncertainties in "
        "(0, eps] excluded; each pair is run through the binomial operator and through the "
        "multinomial operator on the converted operands (both compared with the model and with each other), plus the "
        "conversions themselves; f32/f64; non-trivial = neither operand vacuous")
NONE_KINDS = ("NONE", "ERR", "PANIC")
BOPS = {"bcfuse": 0, "bafuse": 2, "bwfuse": 3}


def trivial(c):
    return c.nums[2] == 1.0 or (len(c.nums) > 6 and c.nums[6] == 1.0 and c.fam == "bi")


def conv(x):
    return [x[0], x[1], x[2], x[3], 1.0 - x[3]]


def near(rng, ty, kind):
    e = num.FEPS[ty]
    if kind == "vac":
        t = num.rnd(ty, 10.0 ** -(3 + rng.below(13 if ty == "f64" else 4)))
        u = num.rnd(ty, 1.0 - t)
    else:
        u = num.rnd(ty, 10.0 ** -(3 + rng.below(10 if ty == "f64" else 3)))
    if not (u == 0.0 or u > e):
        u = 4 * e
    s = G.simplex_with_u(rng, ty, 2, u)
    return [s[0][0], s[0][1], s[1], rng.below(9) / 8.0]


def gen(rng, tier):
    out = []
    grid8 = G.all_grid_bops(8)
    gid = 0
    for ty in ("f64", "f32"):
        pairs = []
        if tier == "thorough" and ty == "f64":
            pairs = [("grid8", x, y) for x in grid8 for y in grid8]
        else:
            for _ in range(500 if tier == "quick" else 30000):
                pairs.append(("grid8", rng.choice(grid8), rng.choice(grid8)))
        for _ in range(300 if tier == "quick" else 20000):
            pairs.append(("grid64", G.grid_bop(rng, 64), G.grid_bop(rng, 64)))
        for _ in range(200 if tier == "quick" else 10000):
            k = rng.choice(["vac", "dog"])
            pairs.append(("near_" + k, near(rng, ty, k), near(rng, ty, rng.choice([k, k, "vac", "dog"]))))
        # both operands vacuous or as nearly so as the property admits: u = 1 or u = 1 - k ulps just outside the
        # tolerance of the vacuity test (k <= 4 is vacuous by the crate's tolerance: there the two families
        # deliberately differ and the property excludes it), different base rates
        lat = [1.0] + [num.next_up(ty, 1.0, -k) for k in range(5, 11)]
        for u1 in lat:
            for u2 in lat:
                if tier == "quick" and not (u1 == 1.0 or u2 == 1.0 or rng.chance(1, 3)):
                    continue
                sx, sy = G.simplex_with_u(rng, ty, 2, u1), G.simplex_with_u(rng, ty, 2, u2)
                a1 = rng.below(9) / 8.0
                a2 = rng.choice([a for a in range(9) if a / 8.0 != a1]) / 8.0
                pairs.append(("vacuous_lattice", [sx[0][0], sx[0][1], sx[1], a1], [sy[0][0], sy[0][1], sy[1], a2]))
        npairs = len(pairs)
        for i in range(0, npairs, 7):
            # one and the same object on both sides, through both APIs
            pairs.append(("same_object", pairs[i][1], pairs[i][1]))
        for tag, x, y in pairs:
            gid += 1
            same = tag == "same_object"
            for op, opk in BOPS.items():
                g = [0.5] if op != "bcfuse" else []
                m = {"g": gid, "op": op}
                out.append(Case(op, ty, "bi", "alias" if same else "-", [], x + y + g, tag=tag, meta=dict(m, side="bi")))
                cx, cy = conv(x), conv(y)
                # the conversion 1 - a must be exact for the multinomial side to see the same operand
                # the multinomial operator through every call form (by value, by reference, in place)
                st = "self" if same else rng.choice(["own", "ref", "assign", "assign_ref"])
                out.append(Case("fuse", ty, rng.choice(["arr", "marr", "marrd"]), st, [2, opk, 1 if same else 0], cx + cy, tag=tag,
                                meta=dict(m, side="mul")))
            if gid % 5 == 0:
                out.append(Case("b2m", ty, "bi", "-", [], x, tag=tag))
                out.append(Case("b2m2b", ty, "bi", "-", [], x, mop="-", tag=tag))
                out.append(Case("bmproj", ty, "bi", "-", [], x, mop="-", tag=tag))
    return out


def predicates(c, ri, rm):
    out = []
    tol = TOL[c.ty] * 4
    if c.op == "b2m2b":
        if ri[0] != "OK" or [num.bits(c.ty, v) for v in ri[1]] != [num.bits(c.ty, v) for v in c.nums]:
            out.append("conversion to a two-state opinion and back is not lossless: %r" % (ri,))
    elif c.op == "bmproj":
        b, d, u, a = fr(c.nums)
        if ri[0] != "OK" or abs(Fraction(ri[1][0]) - (b + a * u)) > tol or abs(Fraction(ri[1][1]) - (d + (1 - a) * u)) > tol:
            out.append("conversion does not preserve the projected probability")
    elif c.fam == "bi" and c.op in BOPS:
        x, y = fr(c.nums[:4]), fr(c.nums[4:8])
        both_dog = x[2] == 0 and y[2] == 0
        if c.op == "bcfuse":
            if both_dog and ri[0] == "OK":
                pass  # the property only says an error is legitimate here
            if not both_dog and ri[0] != "OK":
                out.append("cfuse reports an error although the operands are not both dogmatic: %s" % (ri[1],))
        elif ri[0] != "OK":
            out.append("%s failed on well-formed operands: %s" % (c.op, ri[1]))
    return out


def cross(cases, impl, model):
    """binomial result == multinomial result on the converted operands"""
    by = {}
    for i, c in enumerate(cases):
        if "side" in c.meta:
            by.setdefault((c.meta["g"], c.meta["op"], c.ty), {})[c.meta["side"]] = i
    out = []
    for key, d in by.items():
        if "bi" not in d or "mul" not in d:
            continue
        i, j = d["bi"], d["mul"]
        rb, rmul = impl[i], impl[j]
        if rb[0] != "OK" or rmul[0] != "OK":
            continue
        c = cases[i]
        x, y = fr(c.nums[:4]), fr(c.nums[4:8])
        if x[2] == 0 and y[2] == 0 and key[1] == "bcfuse":
            continue
        tol = float(TOL[c.ty]) * 4
        # conditioning of the base-rate formula: 1 / (u1(1-u2) + u2(1-u1)) (cumulative), 1/((1-u1)+(1-u2)) (weighted)
        u1, u2 = x[2], y[2]
        den = u1 * (1 - u2) + u2 * (1 - u1)
        kap = float(max(1, 1 / den)) if den > 0 else 1.0
        b = rb[1]
        m = rmul[1]  # b0 b1 u a0 a1
        pairs = [(b[0], m[0]), (b[1], m[1]), (b[2], m[2]), (b[3], m[3])]
        for k, (p, q) in enumerate(pairs):
            lim = tol + 2 * num.FEPS[c.ty]
            if abs(p - q) > lim:
                out.append((i, "%s differs from the multinomial operator on the converted operands: %r vs %r" % (
                    key[1], b, m[:4])))
                break
    return out


def scale(c, rm):
    # the implementation evaluates its denominators without cancellation, so no conditioning
    # factor is granted: a loss of accuracy for nearly vacuous operands must show up
    return 1
