"""C09: projection is b + a*u; uncertainty maximisation preserves it."""
from fractions import Fraction

from .. import gen as G, num
from ..core import Case, TOL, finite
from .common import qtol

RULE = ("opinions on dyadic grids (den 4..64, zero beliefs / zero base rates / vacuous / dogmatic / absolute mixed in), "
        "random representable floats and an uncertainty sweep; sizes 1..5, 7 and 2-D domains; every container family and "
        "call style, f32 and f64; a case is non-trivial unless the opinion is vacuous; distinct = distinct "
        "(operator, type, size, operand bits)")
ASSUMPTIONS = ["base-rate entries are 0 or > machine epsilon (entries in (0, eps] are covered by the tolerance version only)"]

FAMS1 = ["arr", "marr", "marrd", "marrdn"]


def trivial(c):
    n = c.mdims[0]
    return c.nums[n] == 1.0


def gen(rng, tier):
    out = []
    nrand = 60 if tier == "quick" else 1500
    for ty in ("f64", "f32"):
        for n in (1, 2, 3, 4, 5, 7):
            ops = []
            for i in range(nrand if n <= 4 else max(10, nrand // 3)):
                den = rng.choice([4, 8, 16, 64])
                ops.append(("grid", G.grid_opinion(rng, n, den)))
            for i in range(nrand // 2):
                ops.append(("float", G.float_opinion(rng, ty, n, positive=rng.chance(1, 2))))
            for u in G.sweep_u(ty):
                s = G.simplex_with_u(rng, ty, n, u)
                ops.append(("sweep", (s[0], s[1], G.float_dist(rng, ty, n, positive=False))))
            # tiny but positive base-rate entries (far above machine epsilon) that decide the minimum of P/a
            if n >= 2:
                for t in ([1e-4, 1e-6, 1e-9, 1e-12, 3e-15] if ty == "f64" else [1e-3, 1e-4, 1e-5, 3e-6]):
                    for _ in range(2):
                        t_ = num.rnd(ty, t)
                        k = rng.below(n)
                        a = G.float_dist(rng, ty, n - 1, positive=True)
                        a = [num.rnd(ty, x * (1.0 - t_)) for x in a]
                        a.insert(k, t_)
                        if not G.is_one(ty, G.fsum(ty, a)):
                            continue
                        s = G.float_simplex(rng, ty, n)
                        b = list(s[0])
                        if rng.chance(2, 3):
                            # zero belief on the tiny-base-rate value: P/a = u there, the minimiser
                            j = (k + 1) % n
                            b[j] = num.rnd(ty, b[j] + b[k])
                            b[k] = 0.0
                            if not G.is_one(ty, num.rnd(ty, G.fsum(ty, b) + s[1])):
                                continue
                        ops.append(("tiny_base_rate", (b, s[1], a)))
            for tag, (b, u, a) in ops:
                nums = b + [u] + a
                fam = rng.choice(FAMS1)
                for op in ("proj", "maxu", "umax"):
                    style = rng.choice(["own", "ref", "spx"]) if op == "proj" else "spx"
                    out.append(Case(op, ty, fam, style, [n], nums, tag=tag))
                if tier != "quick" or rng.chance(1, 4) or tag in ("sweep", "tiny_base_rate"):
                    for fam2 in FAMS1:
                        if fam2 != fam:
                            out.append(Case("umax", ty, fam2, "spx", [n], nums, tag=tag))
                            out.append(Case("proj", ty, fam2, rng.choice(["own", "ref", "spx"]), [n], nums, tag=tag))
        # 2-D domains
        for (n0, n1) in ((2, 3), (3, 2), (2, 2)):
            for i in range(nrand // 3):
                b, u, a = G.grid_opinion(rng, n0 * n1, rng.choice([8, 16, 64]))
                fam = rng.choice(["marr", "marrd", "marrdn"])
                for op in ("proj", "maxu", "umax"):
                    out.append(Case(op + "2d", ty, fam, "own" if op == "proj" else "spx", [n0, n1], b + [u] + a,
                                    mop=op, mdims=[n0 * n1], tag="grid2d"))
    return out



def predicates(c, ri, rm):
    """property predicates evaluated exactly on the implementation's output"""
    if ri[0] != "OK":
        return ["%s failed on a well-formed opinion: %s" % (c.op, ri[:2])]
    n = c.mdims[0]
    tol = TOL[c.ty] * 4
    vals = ri[1]
    if not all(finite(v) for v in vals):
        return ["non-finite result %r" % (vals,)]
    b = [Fraction(x) for x in c.nums[:n]]
    u = Fraction(c.nums[n])
    a = [Fraction(x) for x in c.nums[n + 1:]]
    s0 = sum(b) + u
    P = [(bi + ai * u) for bi, ai in zip(b, a)]
    sp = sum(P)
    P = [p / sp for p in P]
    out = []
    if c.mop == "proj":
        p = [Fraction(v) for v in vals]
        if any(abs(x - y) > tol for x, y in zip(p, P)):
            out.append("projection differs from b + a*u: %r" % (vals,))
        if abs(sum(p) - 1) > tol:
            out.append("projection does not sum to 1")
    elif c.mop == "umax":
        b2 = [Fraction(v) for v in vals[:n]]
        u2 = Fraction(vals[n])
        if any(x < -tol for x in b2) or u2 < -tol or u2 > 1 + tol:
            out.append("maximised opinion has a mass outside [0,1]: %r" % (vals,))
        if abs(sum(b2) + u2 - 1) > tol:
            out.append("maximised masses do not sum to 1")
        P2 = [x + ai * u2 for x, ai in zip(b2, a)]
        if any(abs(x - y) > tol for x, y in zip(P2, P)):
            out.append("uncertainty maximisation changed the projected probability")
        if u2 < u / s0 - tol:
            out.append("uncertainty decreased")
        pos = [i for i in range(n) if a[i] > num.EPS[c.ty]]
        if pos:
            want = min([Fraction(1)] + [P[i] / a[i] for i in pos])
            kappa = max(1, max(1 / a[i] for i in pos))
            if abs(u2 - want) > qtol(c.ty, kappa):
                out.append("maximal uncertainty %r is not min(1, min P/a) = %s" % (vals[n], float(want)))
            if u2 < 1 - tol and not any(abs(b2[i]) <= qtol(c.ty, kappa) for i in pos):
                out.append("no belief mass was driven to zero")
    elif c.mop == "maxu":
        pos = [i for i in range(n) if a[i] > num.EPS[c.ty]]
        want = min([Fraction(1)] + [P[i] / a[i] for i in pos])
        kappa = max([1] + [1 / a[i] for i in pos])
        if abs(Fraction(vals[0]) - want) > qtol(c.ty, kappa):
            out.append("max_uncertainty %r is not min(1, min P/a) = %s" % (vals[0], float(want)))
    return out


def scale(c, rm):
    n = c.mdims[0]
    a = [Fraction(x) for x in c.nums[n + 1:]]
    pos = [x for x in a if x > num.EPS[c.ty]]
    return max([1] + [1 / x for x in pos]) if c.mop != "proj" else 1


def gen_q(rng, tier):
    """exact-rational cases: see qgen.py"""
    from . import qgen
    return qgen.unary(rng, tier)
