"""C18: index enumeration."""
from .. import num
from ..core import Case
from . import c17

RULE = ("exhaustive: every shape with dimensions 0..5 and rank 1..3, unlabelled and labelled families (usize index), "
        "newtype-indexed labelled arrays where instantiated; the enumeration, two further next() calls after its end, "
        "and (rank 1) the keys of the domain with their integer / sibling-domain round trip; the enumeration consumed "
        "through nth / skip / step_by / count / last / size_hint / fold (jumps across row boundaries and past the end) "
        "must agree with repeated next(); logs compared exactly with "
        "the model, which is proved equal to the lexicographic product; non-trivial = total cells > 1")
NONE_KINDS = ()
trivial = c17.trivial


def compare(c, ri, rm):
    if c.op == "arr_adapt":
        return ("harness error: " + ri[1]) if ri[0] == "BAD" else None   # no model run: decided by the predicate
    return c17.compare(c, ri, rm)


def gen(rng, tier):
    out = []
    for dims in c17.shapes(5):
        for fam in c17.fams_for(dims) if max(dims) <= 4 or len(dims) == 1 else ["unl", "lab"]:
            code = [5]
            if fam != "unl" and len(dims) == 1:
                code = [10, 7, 0, 0, 3, 5, 14]      # from_fn, indexes (= keys), conv + as_ref through round-tripped keys
            out.append(Case("arr_prog", "i64", fam, "-", dims, code, mop="arr",
                            mdims=[0 if fam == "unl" else 1] + dims, tag="rank%d_%s" % (len(dims), fam)))
    # the same enumeration consumed through the Iterator methods an implementation may override
    # (nth, skip, step_by, count, last, size_hint, fold): each must agree with repeated next()
    for dims in c17.shapes(4 if tier == "quick" else 5):
        total = 1
        for d in dims:
            total *= d
        for fam in (c17.fams_for(dims) if max(dims) <= 4 or len(dims) == 1 else ["unl", "lab"]):
            mid = [k for k in (1, 2, dims[-1] + 1, total - 1) if 0 < k <= total]
            probes = [(4, 0), (5, 0), (6, 0), (7, 0), (8, 0)] + [(kd, k) for kd in (4, 5, 7, 8) for k in sorted(set(mid))]
            ks = sorted(set([0, 1, 2, 3, dims[-1], dims[-1] + 1, 2 * dims[-1], 2 * dims[-1] + 1, total - 1, total, total + 1])
                        & set(range(0, total + 2)))
            probes += [(1, k) for k in ks] + [(2, k) for k in ks if k > 0] + [(3, s) for s in (1, 2, 3, dims[-1] + 1) if s >= 1]
            if tier == "quick" and len(dims) > 1:
                probes = [pr for i, pr in enumerate(probes) if (pr[0] in (4, 5, 6) and pr[1] == 0) or rng.chance(1, 2)]
            for kind, k in probes:
                out.append(Case("arr_adapt", "i64", fam, "-", dims, [kind, k], mop="-",
                                tag="adaptors_rank%d_%s" % (len(dims), fam)))
    return out


def lex(dims):
    out = [[]]
    for d in dims:
        out = [k + [i] for k in out for i in range(d)]
    return out


ADAPT_NAMES = {1: "nth(%d) then next()", 2: "skip(%d)", 3: "step_by(%d)", 4: "%d x next() then count()", 5: "%d x next() then last()",
               6: "size_hint() then next()", 7: "%d x next() then fold", 8: "%d x next() then reduce"}


def adapt_predicates(c, ri):
    if ri[0] != "OK":
        return ["index enumeration failed: %s" % (ri,)]
    log = [int(v) for v in ri[1]]
    kind, k = int(c.nums[0]), int(c.nums[1])
    L = lex(c.dims)
    flat = lambda ks: [x for t in ks for x in t]
    tail = [-2, 1, 1]
    if kind == 1:
        want = (L[k] if k < len(L) else [-2]) + flat(L[k + 1:]) + tail
    elif kind == 2:
        want = flat(L[k:]) + tail
    elif kind == 3:
        want = flat(L[::max(k, 1)]) + tail
    elif kind == 4:
        want = [len(L[k:])]
    elif kind == 5:
        want = L[-1] if L[k:] else [-2]
    elif kind == 8:
        rest = L[k:]
        want = (max(rest) if rest else [-2]) + [max(len(rest) - 1, 0)]
    elif kind == 6:
        if len(log) < 2:
            return ["indexes().size_hint() followed by the enumeration gave the truncated log %s" % log]
        lo, hi = log[0], log[1]
        if lo > len(L) or (hi != -1 and hi < len(L)):
            return ["indexes().size_hint() = (%d, %s) excludes the actual length %d" % (lo, hi, len(L))]
        log = log[2:]
        want = flat(L) + tail
    else:
        want = flat(L[k:])
    if log != want:
        name = ADAPT_NAMES[kind] % k if "%d" in ADAPT_NAMES[kind] else ADAPT_NAMES[kind]
        return ["indexes() consumed through %s does not yield the lexicographic product of the dimensions %s: got %s, "
                "the enumeration requires %s" % (name, c.dims, log[:30], want[:30])]
    return []


def predicates(c, ri, rm):
    if c.op == "arr_adapt":
        return adapt_predicates(c, ri)
    if ri[0] != "OK":
        return ["index enumeration failed: %s" % (ri,)]
    log = [int(v) for v in ri[1]]
    if c.nums[0] != 5:
        log = log[1:]  # from_fn's 0
    want = [x for k in lex(c.dims) for x in k] + [-2, 1, 1]
    if log[:len(want)] != want:
        return ["indexes() is not the lexicographic product of the dimensions followed by None, None: %s" % log[:40]]
    return []
