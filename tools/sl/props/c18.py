"""C18: index enumeration."""
from .. import num
from ..core import Case
from . import c17

RULE = ("exhaustive: every shape with dimensions 0..5 and rank 1..3, unlabelled and labelled families (usize index), "
        "newtype-indexed labelled arrays where instantiated; the enumeration, two further next() calls after its end, "
        "and (rank 1) the keys of the domain with their integer / sibling-domain round trip; logs compared exactly with "
        "the model, which is proved equal to the lexicographic product; non-trivial = total cells > 1")
NONE_KINDS = ()
trivial = c17.trivial
compare = c17.compare


def gen(rng, tier):
    out = []
    for dims in c17.shapes(5):
        for fam in c17.fams_for(dims) if max(dims) <= 4 or len(dims) == 1 else ["unl", "lab"]:
            code = [5]
            if fam != "unl" and len(dims) == 1:
                code = [10, 7, 0, 0, 3, 5, 14]      # from_fn, indexes (= keys), conv + as_ref through round-tripped keys
            out.append(Case("arr_prog", "i64", fam, "-", dims, code, mop="arr",
                            mdims=[0 if fam == "unl" else 1] + dims, tag="rank%d_%s" % (len(dims), fam)))
    return out


def lex(dims):
    out = [[]]
    for d in dims:
        out = [k + [i] for k in out for i in range(d)]
    return out


def predicates(c, ri, rm):
    if ri[0] != "OK":
        return ["index enumeration failed: %s" % (ri,)]
    log = [int(v) for v in ri[1]]
    if c.nums[0] != 5:
        log = log[1:]  # from_fn's 0
    want = [x for k in lex(c.dims) for x in k] + [-2, 1, 1]
    if log[:len(want)] != want:
        return ["indexes() is not the lexicographic product of the dimensions followed by None, None: %s" % log[:40]]
    return []
