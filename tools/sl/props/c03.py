"""C03: fusion computes the evidence combination it is defined as (independent exact oracle)."""
from fractions import Fraction

from .. import gen as G, num
from ..core import Case, TOL, finite
from .common import flat_op, fr, split_op
from .c02 import all_grid_opinions, FAMS, OPS

RULE = ("all four operators x pairs of well-formed opinions on dyadic grids (den-4 grid on 2 states exhaustive in the "
        "thorough tier, random grids up to 1/64), domain sizes 2..4, dogmatic and vacuous operands included, f32/f64; the "
        "implementation is compared with an exact-rational evaluation of the evidence-space definition written "
        "independently of the model (and with the model); non-trivial = both operands non-dogmatic and non-vacuous")
NONE_KINDS = ()
W = Fraction(2)


def trivial(c):
    n = c.mdims[0]
    if c.op == "fuse_ss":
        return c.nums[n] in (0.0, 1.0)
    u1, u2 = c.nums[n], c.nums[3 * n + 1]
    return u1 in (0.0, 1.0) or u2 in (0.0, 1.0)


def gen(rng, tier):
    out = []
    nrand = 60 if tier == "quick" else 4000
    for ty in ("f64", "f32"):
        if tier == "thorough" and ty == "f64":
            g4 = all_grid_opinions(2, 4)
            for w1 in g4:
                for w2 in g4:
                    for opk in range(4):
                        out.append(Case("fuse", ty, "arr", "own", [2, opk, 0], flat_op(w1) + flat_op(w2), tag="grid4_exhaustive"))
        for n in (2, 3, 4, 5, 7):
            for i in range(nrand if n <= 4 else max(8, nrand // 4)):
                den = rng.choice([4, 8, 16, 64])
                k1 = rng.choice([None, None, None, "part", "part", "dog", "vac"])
                w1 = G.grid_opinion(rng, n, den, k1)
                w2 = G.grid_opinion(rng, n, den, rng.choice([None, "part", "part", k1]))
                for opk in range(4):
                    out.append(Case("fuse", ty, rng.choice(FAMS), rng.choice(["own", "ref", "assign"]),
                                    [n, opk, 0], flat_op(w1) + flat_op(w2), tag="grid"))
                if i % 3 == 0:
                    # an opinion fused with itself, passed as one object (cumulative fusion doubles the evidence)
                    for opk in range(4):
                        out.append(Case("fuse", ty, rng.choice(FAMS), rng.choice(["self", "self_ref"]),
                                        [n, opk, 1], flat_op(w1) + flat_op(w1), tag="self"))
                        if opk != 1:
                            out.append(Case("fuse_ss", ty, rng.choice(FAMS), "self", [n, opk],
                                            list(w1[0]) + [w1[1]] + list(w1[0]) + [w1[1]], tag="self_simplex"))
    return out


def maxu(b, u, a):
    p = [x + y * u for x, y in zip(b, a)]
    um = min([Fraction(1)] + [pi / ai for pi, ai in zip(p, a) if ai > 0])
    return [pi - ai * um for pi, ai in zip(p, a)], um


def oracle(opk, w1, w2):
    """the definition, in evidence space / by its stated limits; returns (b, u, a)"""
    (b1, u1, a1), (b2, u2, a2) = w1, w2
    n = len(b1)
    mean = lambda x, y: [(p + q) / 2 for p, q in zip(x, y)]
    ev = lambda b, u: [W * x / u for x in b]
    back = lambda r: ([x / (W + sum(r)) for x in r], W / (W + sum(r)))
    if u1 == 0 and u2 == 0:
        b, u, a = mean(b1, b2), Fraction(0), mean(a1, a2)
        if opk == 1:
            b, u = maxu(b, u, a)
        return b, u, a
    if opk in (0, 1):
        if u1 == 1 and u2 == 1:
            b, u, a = [Fraction(0)] * n, Fraction(1), mean(a1, a2)
        elif u1 == 0:
            b, u, a = b1, u1, a1          # a single dogmatic operand wins
        elif u2 == 0:
            b, u, a = b2, u2, a2
        elif u1 == 1:
            b, u, a = b2, u2, a2          # a vacuous operand is neutral
        elif u2 == 1:
            b, u, a = b1, u1, a1
        else:
            b, u = back([p + q for p, q in zip(ev(b1, u1), ev(b2, u2))])
            w_1, w_2 = u2 * (1 - u1), u1 * (1 - u2)
            a = [(w_1 * p + w_2 * q) / (w_1 + w_2) for p, q in zip(a1, a2)]
        if opk == 1:
            b, u = maxu(b, u, a)
        return b, u, a
    if opk == 2:
        a = mean(a1, a2)
        if u1 == 0:
            return b1, u1, a
        if u2 == 0:
            return b2, u2, a
        b, u = back([(p + q) / 2 for p, q in zip(ev(b1, u1), ev(b2, u2))])
        return b, u, a
    # weighted
    if u1 == 1 and u2 == 1:
        return [Fraction(0)] * n, Fraction(1), mean(a1, a2)
    if u1 == 1 or u2 == 0:
        return b2, u2, (a2 if u1 == 1 else [((1 - u1) * p + (1 - u2) * q) / (2 - u1 - u2) for p, q in zip(a1, a2)])
    if u2 == 1 or u1 == 0:
        return b1, u1, (a1 if u2 == 1 else [((1 - u1) * p + (1 - u2) * q) / (2 - u1 - u2) for p, q in zip(a1, a2)])
    c1, c2 = 1 - u1, 1 - u2
    b, u = back([(c1 * p + c2 * q) / (c1 + c2) for p, q in zip(ev(b1, u1), ev(b2, u2))])
    a = [(c1 * p + c2 * q) / (c1 + c2) for p, q in zip(a1, a2)]
    return b, u, a


def predicates(c, ri, rm):
    n, opk = c.mdims[0], c.mdims[1]
    if c.op == "fuse_ss":
        if ri[0] != "OK":
            return ["%s of simplexes failed: %s" % (OPS[opk], ri[:2])]
        b1, u1 = fr(c.nums[:n]), Fraction(c.nums[n])
        z = [Fraction(1, n)] * n
        wb, wu, _ = oracle(opk, (b1, u1, z), (b1, u1, z))
        got = fr(ri[1])
        if any(abs(g - w) > TOL[c.ty] * 4 for g, w in zip(got, wb + [wu])):
            return ["%s of a simplex with itself is %r, the evidence-space definition gives %s" % (
                OPS[opk], ri[1], [float(x) for x in wb + [wu]])]
        return []
    if ri[0] != "OK":
        return ["%s failed: %s" % (OPS[opk], ri[:2])]
    vals = ri[1]
    if not all(finite(v) for v in vals):
        return ["non-finite result"]
    b1, u1, a1, off = split_op(c.nums, n)
    b2, u2, a2, _ = split_op(c.nums, n, off)
    wb, wu, wa = oracle(opk, (b1, u1, a1), (b2, u2, a2))
    tol = TOL[c.ty] * 4
    kappa = 1
    if opk == 1:
        pos = [x for x in wa if x > 0]
        kappa = max([1] + [1 / x for x in pos])
    got = fr(vals)
    want = wb + [wu] + wa
    for i, (g, w) in enumerate(zip(got, want)):
        lim = tol * (kappa if i <= n else 1)
        if abs(g - w) > lim:
            part = "belief mass" if i < n else "uncertainty" if i == n else "base rate"
            return ["%s: %s %d is %r, the evidence-space definition gives %s" % (OPS[opk], part, i % (n + 1), vals[i], float(w))]
    return []


def scale(c, rm):
    if c.mdims[1] == 1 and rm[0] == "OK":
        n = c.mdims[0]
        a = [q for q in rm[1][n + 1:] if q is not None and q > 0]
        return min(max([1] + [1 / q for q in a]), 1 << 16)
    return 1


Q_LATTICE_PREDICATES = False


def gen_q(rng, tier):
    """exact-rational cases: see qgen.py"""
    from . import qgen
    return qgen.fusion(rng, tier)
