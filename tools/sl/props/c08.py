"""C08: marginal base rate."""
from fractions import Fraction

from .. import gen as G, num
from ..core import Case, TOL, finite
from .common import flat_op, flat_sx, fr, split_op, split_sx, wf_dist_fail

RULE = ("base rates on X (zero entries included) x tables mixing vacuous, dogmatic and partially informative "
        "conditionals, |X| 2..4, |Y| 2..3, dyadic grids and random floats, including tables whose only informative "
        "conditionals sit at zero-base-rate values of X, all-vacuous tables, tables of tiny total weight (down to the bottom "
        "of the exponent range); mbr, deduce, deduce_with (fallback "
        "flag observed through the closure) and abduce, every container family and call style, f32/f64; non-trivial "
        "= at least one non-vacuous conditional")
NONE_KINDS = ("NONE",)
FAMS = ["arr", "marr", "marrd", "marrdn"]


def table(rng, ty, nx, ny, mode):
    cs = []
    for _ in range(nx):
        r = rng.below(10)
        if mode == "float" and r >= 3:
            cs.append(G.float_simplex(rng, ty, ny))
        else:
            kind = "vac" if r < 3 else "dog" if r < 5 else "part"
            cs.append(G.grid_simplex(rng, ny, rng.choice([8, 16, 64]), kind))
    return cs


SPECIAL = ["all_vacuous", "informative_at_zero_base_rate", "tiny_total_weight", "extreme_tiny_weight"]


def special_table(rng, ty, nx, ny, den, r, cs=None):
    """(ax, conditionals, tag): tables at the edges of mbr's domain; r indexes SPECIAL"""
    if cs is None:
        cs = table(rng, ty, nx, ny, "grid")
    if r == 0:
        return G.grid_dist(rng, nx, den), [([0.0] * ny, 1.0)] * nx, SPECIAL[0]
    if r == 1:
        # informative conditionals only where the base rate is 0
        k = rng.below(nx)
        ax = [0.0] * nx
        rest = [j for j in range(nx) if j != k]
        for j, v in zip(rest, G.grid_dist(rng, len(rest), den, positive=True)):
            ax[j] = v
        cs = [c if j == k else ([0.0] * ny, 1.0) for j, c in enumerate(cs)]
        if cs[k][1] == 1.0:
            cs[k] = G.grid_simplex(rng, ny, den, "part")
        return ax, cs, SPECIAL[1]
    k = rng.below(nx)
    rest = G.grid_dist(rng, nx - 1, den, positive=True) if nx > 1 else []
    if r == 2:
        # tiny but positive total weight: the only informative conditional has a tiny base rate
        # and / or tiny belief masses
        t = num.rnd(ty, rng.choice([1e-9, 1e-12, 1e-20, 1e-30] if ty == "f64" else [1e-4, 1e-6, 1e-10, 1e-20]))
        small = num.rnd(ty, rng.choice([1.0, 1e-3, 1e-8] if ty == "f64" else [1.0, 1e-3]))
        bb = [0.0] * ny
        bb[rng.below(ny)] = small
    else:
        # total weight near the bottom of the exponent range (its reciprocal overflows); powers of two and short
        # dyadic masses, so that every product is exact even where it is subnormal
        t = 2.0 ** -(rng.choice([1010, 1018, 1020]) if ty == "f64" else rng.choice([110, 118, 120]))
        q = 2.0 ** -(rng.choice([4, 8, 10]) if ty == "f64" else rng.choice([4, 6, 8]))
        bb = [q * rng.below(4) for _ in range(ny)]
        if sum(bb) == 0:
            bb[rng.below(ny)] = q
        small = sum(bb)
    ax = list(rest)
    ax.insert(k, t)
    cs = [(bb, num.rnd(ty, 1.0 - small)) if j == k else ([0.0] * ny, 1.0) for j in range(nx)]
    return ax, cs, SPECIAL[r]


def trivial(c):
    nx, ny = c.mdims[0], c.mdims[1]
    off = {"mbr": nx, "deduce": 2 * nx + 1, "deduce_with": 2 * nx + 1, "abduce": ny + 1}[c.mop]
    return all(c.nums[off + i * (ny + 1) + ny] == 1.0 for i in range(nx))


def gen(rng, tier):
    out = []
    nrand = 40 if tier == "quick" else 2500
    gid = 0
    for ty in ("f64", "f32"):
        for nx, ny in [(2, 2), (2, 3), (3, 2), (3, 3), (4, 2), (4, 3), (5, 2), (2, 5)]:
            if True:
                for i in range(nrand if nx + ny <= 7 and max(nx, ny) <= 4 else max(6, nrand // 4)):
                    mode = "float" if i % 4 == 3 else "grid"
                    den = rng.choice([8, 16, 64])
                    cs = table(rng, ty, nx, ny, mode)
                    ax = G.float_dist(rng, ty, nx, positive=False) if mode == "float" else G.grid_dist(rng, nx, den)
                    tag = mode
                    r = rng.below(9)
                    if r < 4:
                        ax, cs, tag = special_table(rng, ty, nx, ny, den, r, cs)
                    gid += 1
                    cn = sum((flat_sx(c) for c in cs), [])
                    w = G.grid_opinion(rng, nx, den)
                    wn = w[0] + [w[1]] + ax
                    fb = G.grid_dist(rng, ny, den, positive=True)
                    wy = G.grid_simplex(rng, ny, den)
                    m = {"g": gid}
                    # the tables at the edge of the domain go through every container family and call form
                    special = tag in SPECIAL
                    for fam in (FAMS if special else [rng.choice(FAMS)]):
                        out.append(Case("mbr", ty, fam, "-", [nx, ny], ax + cn, tag=tag, meta=m))
                        for st in (["own", "ref", "borrowed"] if special else [rng.choice(["own", "ref", "borrowed"])]):
                            out.append(Case("deduce", ty, fam, st, [nx, ny], wn + cn, tag=tag, meta=m))
                            out.append(Case("deduce_with", ty, fam, st, [nx, ny], wn + cn + fb, tag=tag, meta=m))
                        if all(a > 0 for a in ax):
                            for st in (["spx", "ref", "own"] if special else [rng.choice(["spx", "ref", "own"])]):
                                out.append(Case("abduce", ty, fam, st, [nx, ny], flat_sx(wy) + cn + ax, tag=tag, meta=m))
    return out


def exact_mbr(c, ax, cs):
    """None or the exact marginal base rate; cs = list of (b, u)"""
    e = num.EPS[c.ty]
    if all(u >= 1 - 2 * e and u <= 1 + 4 * e for _, u in cs):
        return None
    ny = len(cs[0][0])
    ay = [sum(a * b[y] for a, (b, u) in zip(ax, cs)) for y in range(ny)]
    s = sum(ay)
    if s == 0:
        return None
    return [v / s for v in ay]


def parts(c):
    nx, ny = c.mdims[0], c.mdims[1]
    if c.mop == "mbr":
        ax = fr(c.nums[:nx]); off = nx
    elif c.mop in ("deduce", "deduce_with"):
        ax = fr(c.nums[nx + 1:2 * nx + 1]); off = 2 * nx + 1
    else:
        off = ny + 1
        ax = fr(c.nums[off + nx * (ny + 1):off + nx * (ny + 1) + nx])
    cs = []
    for _ in range(nx):
        b, u, off = split_sx(c.nums, ny, off)
        cs.append((b, u))
    return ax, cs


def predicates(c, ri, rm):
    out = []
    ax, cs = parts(c)
    want = exact_mbr(c, ax, cs)
    tol = TOL[c.ty] * 4
    if ri[0] not in ("OK", "NONE"):
        return ["%s failed: %s" % (c.op, " ".join(map(str, ri[:2])))]
    if ri[0] == "OK" and not all(finite(v) for v in ri[1]):
        return ["%s returned NaN / infinite entries: %r" % (c.op, ri[1])]
    ny = c.mdims[1]
    if c.mop == "mbr":
        if (ri[0] == "NONE") != (want is None):
            out.append("mbr is %s but the marginal base rate is %s" % (
                "absent" if ri[0] == "NONE" else "present", "undefined" if want is None else "defined"))
        elif ri[0] == "OK":
            ay = fr(ri[1])
            s = sum(a * (1 - u) for a, (b, u) in zip(ax, cs))
            kappa = max(1, 1 / s)
            e = wf_dist_fail(ay, tol * kappa)
            if e:
                out.append("mbr is not a distribution: " + e)
            for y in range(ny):
                fp = sum(a * (b[y] + ay[y] * u) for a, (b, u) in zip(ax, cs))
                if abs(ay[y] - fp) > tol * kappa:
                    out.append("mbr is not a fixed point at y=%d" % y)
                    break
    elif c.mop in ("deduce", "abduce"):
        if (ri[0] == "NONE") != (want is None):
            out.append("%s returned %s although the marginal base rate is %s" % (
                c.op, "nothing" if ri[0] == "NONE" else "a value", "undefined" if want is None else "defined"))
    elif c.mop == "deduce_with":
        if ri[0] != "OK":
            out.append("deduce_with returned nothing")
        else:
            used = ri[1][0] == 1.0
            if used != (want is None):
                out.append("fallback %s although the marginal base rate is %s" % (
                    "evaluated" if used else "not evaluated", "undefined" if want is None else "defined"))
            a = fr(ri[1][-ny:])
            ref = fr(c.nums[-ny:]) if want is None else want
            if any(abs(p - q) > tol * 64 for p, q in zip(a, ref)):
                out.append("deduce_with carries the wrong base rate")
    return out


def scale(c, rm):
    ax, cs = parts(c)
    s = sum(a * (1 - u) for a, (b, u) in zip(ax, cs))
    base = max(1, 1 / s) if s > 0 else 1
    if c.mop in ("deduce", "deduce_with", "abduce") and rm[0] == "OK":
        ay = [q for q in rm[1][-c.mdims[1 if c.mop != "abduce" else 0]:] if q]
        base *= max([1] + [1 / q for q in ay if q > 0])
    return min(base, 1 << 20)


def gen_q(rng, tier):
    """exact-rational cases: see qgen.py"""
    from . import qgen
    return qgen.conditionals(rng, tier, ops=('mbr', 'deduce', 'deduce_with', 'abduce'))
