"""C17: multi-arrays - random programs of reads, writes, iterations, clones, conversions and
constructors, observation logs compared exactly with the model (which is proved to refine a
flat-vector spec)."""
from fractions import Fraction

from .. import num
from ..core import Case

RULE = ("every shape with dimensions 0..4 of rank 1..3, unlabelled and labelled (usize index) families, plus labelled "
        "arrays with newtype indices (rank 1 all sizes, rank 2 sizes 0..3, selected rank-3 shapes); random programs of "
        "20..60 operations (get / set in and out of shape, shared / mutable / index-paired iteration, indexes, down / "
        "down_mut, clone + ==, from_fn with distinct strides, from_iter (also too short), zeros/default, element-wise "
        "try_from with negative cells, conv + as_ref, outer products); logs must be identical; the shared iteration "
        "consumed through nth / skip / step_by / count / last / size_hint / fold must agree with repeated next(); non-trivial = total "
        "cells > 1")
NONE_KINDS = ()
TOTAL = lambda dims: __import__("functools").reduce(lambda a, b: a * b, dims, 1)


def trivial(c):
    return TOTAL(c.dims) <= 1


def rand_index(rng, dims, out_of_shape_chance=5):
    k = []
    for d in dims:
        if d > 0 and not rng.chance(1, out_of_shape_chance * len(dims)):
            k.append(rng.below(d))
        else:
            k.append(d + rng.below(2))
    return k


def program(rng, fam, dims, nops):
    rank = len(dims)
    tot = TOTAL(dims)
    lab = fam != "unl"
    code = []
    for _ in range(nops):
        r = rng.below(100)
        if r < 14:
            code += [0] + rand_index(rng, dims)
        elif r < 28:
            code += [1] + rand_index(rng, dims) + [rng.below(1000)]
        elif r < 36:
            code += [2]
        elif r < 44:
            code += [3, rng.below(50)]
        elif r < 50:
            code += [4]
        elif r < 53:
            code += [5]
        elif r < 59 and lab and rank >= 2:
            code += [6, rng.below(dims[0] + 1)]
        elif r < 65 and lab and rank >= 2:
            code += [7, rng.below(dims[0] + 1)] + rand_index(rng, dims[1:]) + [rng.below(1000)]
        elif r < 69:
            code += [8]
        elif r < 74:
            code += [9] + rand_index(rng, dims)
        elif r < 82:
            # strides chosen so that every cell is distinct and a wrong stride shows
            code += [10, 1 + rng.below(3) + 100, 10 + rng.below(3), 1 + rng.below(2), rng.below(7)]
        elif r < 88:
            n = tot
            if not (fam == "unl" and rank == 1):
                n = tot + rng.choice([0, 0, 0, 1, 3, -1]) if tot > 0 else tot + rng.choice([0, 2])
                n = max(n, 0)
            code += [11, n] + [rng.below(500) for _ in range(n)]
        elif r < 91:
            code += [12]
        elif r < 96:
            ok_unl = tot > 0 or dims[0] == 0
            if fam == "unl" and not ok_unl:
                code += [2]
                continue
            n = tot
            if lab and rng.chance(1, 5):
                n = max(0, tot + rng.choice([-1, 1, dims[-1] if dims[-1] else 1]))
            vs = [rng.below(400) for _ in range(n)]
            if vs and rng.chance(1, 2):
                for _ in range(1 + rng.below(2)):
                    vs[rng.below(len(vs))] = -1 - rng.below(50)
            code += [13, n] + vs
        elif r < 98 and lab and rank == 1:
            code += [14]
        elif rank >= 2:
            vs = [[1 + rng.below(9) for _ in range(d)] for d in dims] + ([[]] if rank == 2 else [])
            code += [15]
            for v in vs[:3]:
                code += [len(v)] + v
        else:
            code += [2]
    return code


def shapes(maxd):
    r = range(maxd + 1)
    return [[a] for a in r] + [[a, b] for a in r for b in r] + [[a, b, c] for a in r for b in r for c in r]


LABN3 = [[2, 3, 2], [3, 2, 1], [1, 2, 3], [2, 2, 2], [0, 2, 3], [2, 0, 1], [4, 3, 2]]


def fams_for(dims):
    f = ["unl", "lab"]
    if len(dims) == 1 or (len(dims) == 2 and max(dims) <= 3) or dims in LABN3:
        f.append("labn")
    return f


def gen(rng, tier):
    out = []
    reps = 3 if tier == "quick" else 40
    for dims in shapes(4):
        for fam in fams_for(dims):
            for _ in range(reps):
                nops = 20 + rng.below(41)
                code = program(rng, fam, dims, nops)
                out.append(Case("arr_prog", "i64", fam, "-", dims, code, mop="arr",
                                mdims=[0 if fam == "unl" else 1] + dims, tag="rank%d_%s" % (len(dims), fam)))
    # shared iteration consumed through the Iterator methods an implementation may override
    # (nth, skip, step_by, count, last, size_hint, fold): each must agree with repeated next()
    for dims in shapes(4 if tier != "quick" else 3):
        tot = TOTAL(dims)
        for fam in fams_for(dims):
            coef = [1 + rng.below(7), 10 + rng.below(7), 100 + rng.below(7), rng.below(5)]
            probes = [(4, 0), (5, 0), (6, 0), (7, 0)] + [(kd, k) for kd in (4, 5, 7) for k in sorted({1, dims[-1] + 1} & set(range(1, tot + 1)))]
            ks = sorted({0, 1, 2, dims[-1], dims[-1] + 1, 2 * dims[-1], tot - 1, tot, tot + 1} & set(range(0, tot + 2)))
            probes += [(1, k) for k in ks] + [(2, k) for k in ks if k > 0] + [(3, st) for st in (2, 3, dims[-1] + 1)]
            if tier == "quick":
                probes = [pr for pr in probes if (pr[0] in (4, 5, 6) and pr[1] == 0) or rng.chance(1, 2)]
            for kind, k in probes:
                out.append(Case("arr_iter_adapt", "i64", fam, "-", dims, coef + [kind, k], mop="-",
                                tag="iter_adaptors_rank%d_%s" % (len(dims), fam)))
    # labelled construction from a NESTED sequence (from_multi_iter, the marr_d2! / marr_d3! macros): the nesting must be
    # the shape; a transposed, ragged, short or over-long nesting is refused (model: Arr.from_nested, theorem
    # labelled_shape_inv), never re-cut into the declared shape
    for dims in shapes(4 if tier != "quick" else 3):
        if len(dims) == 1:
            continue
        for fam in [f for f in fams_for(dims) if f != "unl"]:
            for spec in nestings(rng, dims, 4 if tier == "quick" else 12):
                out.append(Case("arr_nested", "i64", fam, "-", dims, spec, mop="-",
                                tag="nested_input_rank%d_%s" % (len(dims), fam)))
    return out


def nest2(rows):
    return [len(rows)] + list(rows)


def nestings(rng, dims, nbad):
    """the well-shaped nesting of `dims` and malformed ones with (mostly) the same or a larger number of cells"""
    def good2(n0, n1):
        return [n1] * n0

    def bad2(n0, n1):
        out = [[n0] * n1]                                         # transposed
        if n0 >= 1:
            out.append([n1] * (n0 + 1))                            # a surplus row
            out.append([n1 + 1] * n0)                              # over-long rows
            out.append([n1] * (n0 - 1))                            # a row short
        if n0 >= 2:
            r = [n1] * n0
            r[0] += 1
            r[-1] = max(r[-1] - 1, 0)
            out.append(r)                                          # ragged, same number of cells
            out.append([n0 * n1] + [0] * (n0 - 1))                 # everything in the first row
        out.append([1] * (n0 * n1))                                # one cell per row
        return [r for r in out if r != good2(n0, n1)]
    if len(dims) == 2:
        n0, n1 = dims
        specs = [nest2(good2(n0, n1))] + [nest2(r) for r in bad2(n0, n1)]
    else:
        n0, n1, n2 = dims
        good = [good2(n1, n2)] * n0
        specs = [[n0] + sum((nest2(r) for r in good), [])]
        bads = []
        for r in bad2(n1, n2):
            if n0 >= 1:
                k = rng.below(n0)
                bads.append(good[:k] + [r] + good[k + 1:])         # one malformed slab
        bads.append([good2(n1, n2)] * (n0 + 1))                    # a surplus slab
        if n0 >= 1:
            bads.append([good2(n1, n2)] * (n0 - 1))                # a slab short
        bads.append([good2(n0, n2)] * n1)                          # outer levels exchanged
        bads.append([good2(n1, n0)] * n2)                          # outermost and innermost exchanged
        for b in bads:
            if b != good:
                specs.append([len(b)] + sum((nest2(r) for r in b), []))
    seen, uniq = set(), []
    for sp in specs:
        if tuple(sp) not in seen:
            seen.add(tuple(sp))
            uniq.append(sp)
    head, rest = uniq[:1], uniq[1:]
    if len(rest) > nbad:
        rest = rng.shuffle(rest)[:nbad]
    return head + rest


def nested_predicates(c, ri):
    if ri[0] != "OK":
        return ["construction from a nested sequence failed: %s" % (ri,)]
    log = [int(v) for v in ri[1]]
    dims, spec = c.dims, [int(v) for v in c.nums]
    if len(dims) == 2:
        nesting = spec[1:1 + spec[0]]
        wellshaped = spec[0] == dims[0] and all(r == dims[1] for r in nesting)
        cells = sum(nesting)
    else:
        p, slabs = 1, []
        for _ in range(spec[0]):
            n = spec[p]
            slabs.append(spec[p + 1:p + 1 + n])
            p += 1 + n
        wellshaped = len(slabs) == dims[0] and all(len(sl) == dims[1] and all(r == dims[2] for r in sl) for sl in slabs)
        cells = sum(sum(sl) for sl in slabs)
    if wellshaped:
        if log != list(range(1, cells + 1)):
            return ["a %s array of shape %s built from a well-shaped nested sequence holds %s instead of its cells in "
                    "row-major order" % (c.fam, dims, log[:30])]
        return []
    if log != [-1]:
        return ["a %s array of shape %s was built from a nested sequence of another shape (nesting %s) instead of being "
                "refused: cells %s" % (c.fam, dims, spec, log[:30])]
    return []


def lex(dims):
    out = [[]]
    for d in dims:
        out = [k + [i] for k in out for i in range(d)]
    return out


ADAPT_NAMES = {1: "nth(%d) then next()", 2: "skip(%d)", 3: "step_by(%d)", 4: "%d x next() then count()", 5: "%d x next() then last()",
               6: "size_hint() then next()", 7: "%d x next() then fold"}


def adapt_predicates(c, ri):
    if ri[0] != "OK":
        return ["iteration failed: %s" % (ri,)]
    log = [int(v) for v in ri[1]]
    a, b, cc, d, kind, k = [int(x) for x in c.nums]
    g = lambda key, i: key[i] if i < len(key) else 0
    L = [a * g(key, 0) + b * g(key, 1) + cc * g(key, 2) + d for key in lex(c.dims)]
    tail = [-2, 1]
    if kind == 1:
        want = ([L[k]] if k < len(L) else [-2]) + L[k + 1:] + tail
    elif kind == 2:
        want = L[k:] + tail
    elif kind == 3:
        want = L[::max(k, 1)] + tail
    elif kind == 4:
        want = [len(L[k:])]
    elif kind == 5:
        want = [L[-1]] if L[k:] else [-2]
    elif kind == 6:
        if len(log) < 2:
            return ["iter().size_hint() followed by the cells gave the truncated log %s" % log]
        lo, hi = log[0], log[1]
        if lo > len(L) or (hi != -1 and hi < len(L)):
            return ["iter().size_hint() = (%d, %s) excludes the actual number of cells %d" % (lo, hi, len(L))]
        log = log[2:]
        want = L + tail
    else:
        want = L[k:]
    if log != want:
        name = ADAPT_NAMES[kind] % k if "%d" in ADAPT_NAMES[kind] else ADAPT_NAMES[kind]
        return ["the cells of a %s array of shape %s iterated through %s are not the row-major cells: got %s, the "
                "flat specification requires %s" % (c.fam, c.dims, name, log[:30], want[:30])]
    return []


def compare(c, ri, rm):
    if ri[0] == "BAD":
        return "harness error: " + ri[1]
    if c.op in ("arr_iter_adapt", "arr_nested"):
        return None    # no model run: decided by the predicate
    if ri[0] != "OK" or rm[0] != "OK":
        return "run failed: %s / %s" % (ri[0], rm[0])
    a = [int(v) for v in ri[1]]
    b = [int(q) for q in rm[1]]
    if a != b:
        n = min(len(a), len(b))
        i = next((j for j in range(n) if a[j] != b[j]), n)
        return "observation logs differ at position %d: implementation %s..., model %s... (lengths %d / %d)" % (
            i, a[max(0, i - 3):i + 4], b[max(0, i - 3):i + 4], len(a), len(b))
    return None


def predicates(c, ri, rm):
    # the spec-level predicates are the model's theorems; a divergence of the logs is itself a
    # concrete failing history of the property (the model is proved equal to the flat-vector spec)
    if c.op == "arr_iter_adapt":
        return adapt_predicates(c, ri)
    if c.op == "arr_nested":
        return nested_predicates(c, ri)
    m = compare(c, ri, rm)
    return ["array history diverges from the flat row-major specification: " + m] if m else []
