"""C16: results do not depend on how operands are stored or passed."""
from fractions import Fraction

from .. import gen as G, num
from ..core import Case, TOL, finite
from .common import flat_op, flat_sx
from .c08 import table

RULE = ("operand tuples on dyadic grids for fusion (opinion x opinion, opinion x simplex, simplex x simplex, folds), "
        "projection, uncertainty maximisation, discounting, marginal base rate, deduction, inversion, abduction, products "
        "and merging, each executed through every instantiated container family ([V;N], MArr1, MArrD1 with usize and "
        "newtype index), receiver (Opinion, OpinionRef, Simplex), owned / borrowed conditional tables, fuse / "
        "fuse_assign, and in f32 and f64; all variants are compared with the single model answer, with each other (within "
        "4 ulps of 1) and across precisions (to single-precision accuracy); non-trivial = operands not vacuous")
NONE_KINDS = ("NONE", "PANIC")
FAM4 = ["arr", "marr", "marrd", "marrdn"]


def trivial(c):
    return False


def variants(op, sizes):
    """(harness op, family, style, dims, model dims) for every way the crate offers to run `op`"""
    nx, ny, nz = sizes.get("X"), sizes.get("Y"), sizes.get("Z")
    out = []
    if op == "proj":
        out = [("proj", f, st, [nx], None) for f in FAM4 for st in ("own", "ref", "spx")]
    elif op in ("maxu", "umax"):
        out = [(op, f, "spx", [nx], None) for f in FAM4]
    elif op == "disc":
        out = [("disc", f, st, [nx, 2], None) for f in ["marr", "marrd"] + (["marrdn"] if nx in (2, 3) else [])
               for st in ("spx", "own", "ref")]
    elif op.startswith("fuse:"):
        k = int(op[5:])
        out = [("fuse", f, st, [nx, k, 0], None) for f in FAM4 for st in ("own", "ref", "assign", "assign_ref")]
    elif op.startswith("fuse_s:"):
        k = int(op[7:])
        out = [("fuse_s", f, st, [nx, k], None) for f in FAM4 for st in ("own", "ref", "assign")]
    elif op.startswith("fuse_ss:"):
        k = int(op[8:])
        out = [("fuse_ss", f, st, [nx, k], None) for f in FAM4 for st in ("own", "assign")]
    elif op.startswith("fold:"):
        k = int(op[5:])
        out = [("fold", f, st, [nx, k, 3], None) for f in FAM4 for st in ("own", "ref", "assign")]
    elif op == "mbr":
        out = [("mbr", f, "-", [nx, ny], None) for f in FAM4]
    elif op in ("deduce", "deduce_with"):
        out = [(op, f, st, [nx, ny], None) for f in FAM4 for st in ("own", "ref", "borrowed")]
    elif op == "inverse":
        out = [("inverse", f, "-", [nx, ny], None) for f in FAM4]
    elif op == "abduce_with":
        out = [("abduce_with", f, st, [nx, ny], None) for f in FAM4 for st in ("spx", "ref", "own")]
    elif op == "abduce":
        out = [("abduce", f, st, [nx, ny], None) for f in FAM4 for st in ("spx", "ref", "own")]
    elif op == "prod2":
        out = [("prod2", f, st, [nx, nz], [nx, nz, lab]) for f, lab in (("arr", 0), ("marrd", 1), ("marrdn", 1))
               for st in ("own", "ref")]
    elif op == "prod3":
        out = [("prod3", f, st, [nx, nz, ny], [nx, nz, ny, lab]) for f, lab in (("arr", 0), ("marrd", 1))
               for st in ("own", "ref")]
    elif op == "merge":
        out = [("merge", f, st, [nx, nz, ny], [nx, nz, ny, lab]) for f, lab in (("arr", 0), ("marrd", 1))
               for st in ("own", "borrowed")]
    return out


def build(rng, op, sizes, den, r=0):
    # r: repetition index; the edge-case operands are placed deterministically so that every seed contains them
    nx, ny, nz = sizes.get("X"), sizes.get("Y"), sizes.get("Z")
    f = lambda cs: sum((flat_sx(c) for c in cs), [])
    tb = lambda n, m: table(rng, "f64", n, m, "grid")
    if op in ("proj", "maxu", "umax"):
        return flat_op(G.grid_opinion(rng, nx, den))
    if op == "disc":
        return flat_sx(G.grid_simplex(rng, nx, den)) + [rng.below(65) / 64.0, rng.below(65) / 64.0]
    # vacuous / dogmatic operands are frequent here: the forwarding impls are most likely to differ on them
    kind = lambda: rng.choice([None, None, None, "part", "vac", "vac", "dog"])
    if op.startswith("fuse:"):
        return flat_op(G.grid_opinion(rng, nx, den, kind())) + flat_op(G.grid_opinion(rng, nx, den, kind()))
    if op.startswith("fuse_s:"):
        return flat_op(G.grid_opinion(rng, nx, den, kind())) + flat_sx(G.grid_simplex(rng, nx, den, kind()))
    if op.startswith("fuse_ss:"):
        return flat_sx(G.grid_simplex(rng, nx, den, kind())) + flat_sx(G.grid_simplex(rng, nx, den, kind()))
    if op.startswith("fold:"):
        return sum((flat_op(G.grid_opinion(rng, nx, den)) for _ in range(3)), [])
    if op in ("mbr", "deduce", "deduce_with", "abduce") and r % 4 == 1:
        # tables without a marginal base rate (all conditionals vacuous; informative only at zero base rates): every
        # receiver and family must report the absence alike
        from .c08 import special_table
        ax, cs, _ = special_table(rng, "f64", nx, ny, den, 0 if op == "abduce" else rng.below(2))
        if op == "mbr":
            return ax + f(cs)
        if op == "abduce":
            return flat_sx(G.grid_simplex(rng, ny, den)) + f(cs) + G.grid_dist(rng, nx, den, True)
        w = G.grid_opinion(rng, nx, den)
        base = list(w[0]) + [w[1]] + ax + f(cs)
        return base if op == "deduce" else base + G.grid_dist(rng, ny, den, True)
    if op in ("mbr", "deduce", "deduce_with", "abduce") and r % 4 == 2:
        # tiny but positive total weight (exact dyadic values, the same for both element types): below the single-
        # precision epsilon, far above the double-precision one
        k = rng.below(nx)
        t = 2.0 ** -rng.choice([10, 12, 14, 20])
        small = 2.0 ** -rng.choice([10, 12, 14])
        ax = G.grid_dist(rng, nx - 1, 8, True)
        i = rng.below(nx - 1)
        ax[i] -= t
        ax.insert(k, t)
        bb = [0.0] * ny
        bb[rng.below(ny)] = small
        cs = [(bb, 1.0 - small) if j == k else ([0.0] * ny, 1.0) for j in range(nx)]
        if op == "mbr":
            return ax + f(cs)
        if op == "abduce":
            return flat_sx(G.grid_simplex(rng, ny, den)) + f(cs) + ax
        w = G.grid_opinion(rng, nx, den)
        base = list(w[0]) + [w[1]] + ax + f(cs)
        return base if op == "deduce" else base + G.grid_dist(rng, ny, den, True)
    if op == "mbr":
        return G.grid_dist(rng, nx, den) + f(tb(nx, ny))
    if op == "deduce":
        return flat_op(G.grid_opinion(rng, nx, den)) + f(tb(nx, ny))
    if op == "deduce_with":
        return flat_op(G.grid_opinion(rng, nx, den)) + f(tb(nx, ny)) + G.grid_dist(rng, ny, den, True)
    if op == "inverse":
        return f(tb(nx, ny)) + G.grid_dist(rng, nx, den, True) + G.grid_dist(rng, ny, den, True)
    if op == "abduce_with":
        return flat_sx(G.grid_simplex(rng, ny, den)) + f(tb(nx, ny)) + G.grid_dist(rng, nx, den, True) + G.grid_dist(rng, ny, den, True)
    if op == "abduce":
        return flat_sx(G.grid_simplex(rng, ny, den)) + f(tb(nx, ny)) + G.grid_dist(rng, nx, den, True)
    if op in ("prod2", "prod3") and r % 3 == 1:
        # tiny positive base-rate entries (exact dyadic operands, used for both element types): the joint base rate
        # of the cell that bounds the uncertainty lies around or below machine epsilon but is not zero
        e = rng.choice([8, 9, 12, 18, 20] if op == "prod3" else [12, 13, 24, 27, 30])
        e = min(e, 20)
        ws = [G.tiny_base_rate_grid_opinion(rng, n, den, e) for n in ((nx, nz) if op == "prod2" else (nx, nz, ny))]
        return sum((flat_op(w) for w in ws), [])
    if op == "prod2":
        return flat_op(G.grid_opinion(rng, nx, den)) + flat_op(G.grid_opinion(rng, nz, den))
    if op == "prod3":
        return flat_op(G.grid_opinion(rng, nx, den)) + flat_op(G.grid_opinion(rng, nz, den)) + flat_op(G.grid_opinion(rng, ny, den))
    if op == "merge":
        return f(tb(nx, ny)) + f(tb(nz, ny)) + G.grid_dist(rng, nx, 8, True) + G.grid_dist(rng, nz, 8, True) + G.grid_dist(rng, ny, 8, True)
    raise KeyError(op)


def gen(rng, tier):
    out = []
    reps = 4 if tier == "quick" else 60
    plan = []
    for n in (2, 3, 4):
        plan += [(op, {"X": n}) for op in ["proj", "umax", "maxu", "disc"] + ["fuse:%d" % k for k in range(4)] +
                 ["fuse_s:%d" % k for k in range(4)] + ["fuse_ss:%d" % k for k in range(4)] + ["fold:0", "fold:2", "fold:3"]]
    for nx, ny in ((2, 3), (3, 2), (4, 3)):
        plan += [(op, {"X": nx, "Y": ny}) for op in ("mbr", "deduce", "deduce_with", "inverse", "abduce", "abduce_with")]
    plan += [("prod2", {"X": 2, "Z": 3}), ("prod2", {"X": 3, "Z": 2}), ("prod3", {"X": 2, "Z": 3, "Y": 2}),
             ("merge", {"X": 2, "Z": 3, "Y": 2}), ("merge", {"X": 3, "Z": 2, "Y": 3})]
    gid = 0
    for op, sizes in plan:
        for r in range((reps if op != "merge" else 1) * (3 if op in ("prod2", "prod3") else 1)):
            nums = build(rng, op, sizes, rng.choice([8, 16, 64]), r)
            gid += 1
            vs = variants(op, sizes)
            if tier == "quick" and len(vs) > 6:
                vs = rng.shuffle(vs)[:6]
            for ty in ("f64", "f32"):
                for hop, fam, st, dims, mdims in vs:
                    mop = "discchain" if hop == "disc" else hop
                    out.append(Case(hop, ty, fam, st, dims, nums, mop=mop, mdims=mdims if mdims else dims,
                                    tag=op.split(":")[0], meta={"g": gid, "lop": op}))
                if op.startswith("fuse_s:"):
                    # the same fusion written with an opinion that carries (points to) the left operand's base rate
                    nx = sizes["X"]
                    k = int(op[7:])
                    nums2 = nums + nums[nx + 1:2 * nx + 1]
                    out.append(Case("fuse", ty, rng.choice(FAM4), "ref", [nx, k, 1], nums2, tag="fuse_s",
                                    meta={"g": gid, "lop": op}))
                if op.startswith("fuse_ss:") and not op.endswith(":1"):
                    # simplex x simplex = the belief part of opinion fusion (any base rate)
                    nx = sizes["X"]
                    k = int(op[8:])
                    a = G.grid_dist(rng, nx, 8, True)
                    nums2 = nums[:nx + 1] + a + nums[nx + 1:] + a
                    out.append(Case("fuse", ty, rng.choice(FAM4), "own", [nx, k, 0], nums2, tag="fuse_ss",
                                    meta={"g": gid, "lop": op, "belief_part": nx + 1}))
    return out


def scale(c, rm):
    return 1 << 10 if c.meta["lop"] in ("merge", "inverse", "abduce", "abduce_with", "umax", "maxu", "deduce", "deduce_with",
                                         "prod2", "prod3", "fuse:1", "fuse_s:1", "mbr") else 1


def predicates(c, ri, rm):
    lop = c.meta["lop"]
    if lop.startswith("fuse_ss:1"):
        return [] if ri[0] == "PANIC" else ["epistemic fusion of two bare simplexes was not refused"]
    if lop.startswith("fuse_s:") and ri[0] == "OK":
        n = c.dims[0]
        if [num.bits(c.ty, v) for v in ri[1][n + 1:]] != [num.bits(c.ty, v) for v in c.nums[n + 1:2 * n + 1]]:
            return ["fusing with a bare simplex changed the left operand's base rate"]
    return []


def cross(cases, impl, model):
    out = []
    groups = {}
    for i, c in enumerate(cases):
        groups.setdefault(c.meta["g"], []).append(i)
    for g, idx in groups.items():
        by_ty = {}
        for i in idx:
            by_ty.setdefault(cases[i].ty, []).append(i)
        ref = {}
        for ty, ii in by_ty.items():
            kinds = {impl[i][0] for i in ii}
            if len(kinds) > 1:
                i = ii[0]
                out.append((i, "the same operands succeed through one storage / calling style and fail through another: %s" % (
                    {(cases[k].fam, cases[k].style): impl[k][0] for k in ii},)))
                continue
            if "OK" not in kinds:
                continue
            base = impl[ii[0]][1]
            ref[ty] = (ii[0], base)
            lim = 4 * num.FEPS[ty] * float(scale(cases[ii[0]], None))
            for i in ii[1:]:
                r = impl[i][1]
                bp = cases[i].meta.get("belief_part")
                if bp:
                    r = r[:bp]
                if len(r) != len(base) or any(abs(p - q) > lim for p, q in zip(r, base)):
                    out.append((i, "%s (%s, %s) and (%s, %s) disagree beyond a few ulps: %r vs %r" % (
                        cases[i].meta["lop"], cases[ii[0]].fam, cases[ii[0]].style, cases[i].fam, cases[i].style, base, r)))
                    break
        if "f32" in ref and "f64" in ref and cases[idx[0]].meta["lop"] != "merge":
            i, a = ref["f32"]
            j, b = ref["f64"]
            lim = float(TOL["f32"]) * float(scale(cases[i], None))
            if len(a) != len(b) or any(abs(p - q) > lim for p, q in zip(a, b)):
                out.append((i, "single and double precision disagree beyond single-precision accuracy: %r vs %r" % (a, b)))
    return out
