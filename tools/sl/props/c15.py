"""C15: renaming the values of a domain only renames the result."""
from fractions import Fraction

from .. import gen as G, num
from ..core import Case, TOL, finite
from .common import flat_op, flat_sx
from .c08 import table

RULE = ("for fusion (4 operators), discounting, projection, uncertainty maximisation, marginal base rate, deduction, "
        "inversion, abduction, product and merging: well-formed operand tuples on dyadic grids with asymmetric shapes "
        "(|X| != |Y|, |X1| != |X2|) and non-symmetric tables, run once as generated and once with the value order of every "
        "domain permuted consistently (all 2!, 3!, 4! permutations in the thorough tier, random non-identity ones in "
        "quick; each variable independently); both runs are compared with the model and the second with the permuted "
        "first; every container family, f32/f64; non-trivial = a non-identity permutation")
NONE_KINDS = ("NONE", "PANIC")

# layouts: ("v", D) vector over D; ("s",) scalar; ("t", DX, DY) |DX| rows of (vector over DY, scalar)
LAYOUT = {
    "proj": ([("v", "X"), ("s",), ("v", "X")], [("v", "X")]),
    "umax": ([("v", "X"), ("s",), ("v", "X")], [("v", "X"), ("s",)]),
    "disc": ([("v", "X"), ("s",), ("s",)], [("v", "X"), ("s",)]),
    "fuse": ([("v", "X"), ("s",), ("v", "X"), ("v", "X"), ("s",), ("v", "X")], [("v", "X"), ("s",), ("v", "X")]),
    # joint domains of two / three variables used as one domain: each variable is renamed independently
    "proj2": ([("v", "X*Z"), ("s",), ("v", "X*Z")], [("v", "X*Z")]),
    "umax2": ([("v", "X*Z"), ("s",), ("v", "X*Z")], [("v", "X*Z"), ("s",)]),
    "fuse2": ([("v", "X*Z"), ("s",), ("v", "X*Z"), ("v", "X*Z"), ("s",), ("v", "X*Z")], [("v", "X*Z"), ("s",), ("v", "X*Z")]),
    "proj3": ([("v", "X*Y*Z"), ("s",), ("v", "X*Y*Z")], [("v", "X*Y*Z")]),
    "umax3": ([("v", "X*Y*Z"), ("s",), ("v", "X*Y*Z")], [("v", "X*Y*Z"), ("s",)]),
    "fuse3": ([("v", "X*Y*Z"), ("s",), ("v", "X*Y*Z"), ("v", "X*Y*Z"), ("s",), ("v", "X*Y*Z")], [("v", "X*Y*Z"), ("s",), ("v", "X*Y*Z")]),
    "mbr": ([("v", "X"), ("t", "X", "Y")], [("v", "Y")]),
    "deduce": ([("v", "X"), ("s",), ("v", "X"), ("t", "X", "Y")], [("v", "Y"), ("s",), ("v", "Y")]),
    "inverse": ([("t", "X", "Y"), ("v", "X"), ("v", "Y")], [("t", "Y", "X")]),
    "abduce_with": ([("v", "Y"), ("s",), ("t", "X", "Y"), ("v", "X"), ("v", "Y")], [("v", "X"), ("s",), ("v", "X")]),
    "prod2": ([("v", "X"), ("s",), ("v", "X"), ("v", "Z"), ("s",), ("v", "Z")], [("v", "X*Z"), ("s",), ("v", "X*Z")]),
    "prod3": ([("v", "X"), ("s",), ("v", "X"), ("v", "Y"), ("s",), ("v", "Y"), ("v", "Z"), ("s",), ("v", "Z")],
              [("v", "X*Y*Z"), ("s",), ("v", "X*Y*Z")]),
    "merge": ([("t", "X", "Y"), ("t", "Z", "Y"), ("v", "X"), ("v", "Z"), ("v", "Y")], [("t", "X*Z", "Y")]),
}


def dom_perm(perms, sizes, d):
    out = [0]
    for a in d.split("*"):
        out = [o * sizes[a] + pa for o in out for pa in perms[a]]
    return out


def dom_size(sizes, d):
    n = 1
    for a in d.split("*"):
        n *= sizes[a]
    return n


def apply_layout(layout, vals, perms, sizes):
    out = []
    off = 0
    for item in layout:
        if item[0] == "s":
            out.append(vals[off]); off += 1
        elif item[0] == "v":
            n = dom_size(sizes, item[1])
            p = dom_perm(perms, sizes, item[1])
            seg = vals[off:off + n]; off += n
            out += [seg[p[i]] for i in range(n)]
        else:
            nx, ny = dom_size(sizes, item[1]), dom_size(sizes, item[2])
            px, py = dom_perm(perms, sizes, item[1]), dom_perm(perms, sizes, item[2])
            rows = [vals[off + r * (ny + 1):off + (r + 1) * (ny + 1)] for r in range(nx)]
            off += nx * (ny + 1)
            for i in range(nx):
                row = rows[px[i]]
                out += [row[py[j]] for j in range(ny)] + [row[ny]]
    assert off == len(vals), (off, len(vals))
    return out


def rand_perm(rng, n, allow_id=False):
    while True:
        p = rng.shuffle(list(range(n)))
        if allow_id or p != list(range(n)) or n == 1:
            return p


def trivial(c):
    return all(p == sorted(p) for p in c.meta["perms"].values())


def zero_column(cs, k):
    """the same table with no belief mass on value k of Y in any row (the mass goes to the uncertainty)"""
    out = []
    for b, u in cs:
        b = list(b)
        u = u + b[k]
        b[k] = 0.0
        out.append((b, u))
    return out


def build(rng, ty, op, sizes, den, r=0):
    nx, ny, nz = sizes.get("X"), sizes.get("Y"), sizes.get("Z")
    f = lambda cs: sum((flat_sx(c) for c in cs), [])
    if r % 4 == 1 and op in ("mbr", "deduce", "inverse", "abduce_with", "merge"):
        # a value of Y that no conditional supports (placed deterministically, so that every seed contains it): its
        # marginal base rate is 0 and the bounds P(y|x)/a(y) are 0/0 there; wherever a renaming puts that value the
        # result must only be renamed
        k = rng.below(ny)
        tb = lambda n: zero_column(table(rng, ty, n, ny, "grid"), k)
        ay0 = G.grid_dist(rng, ny - 1, den, True)
        ay0.insert(k, 0.0)
        if op == "mbr":
            return G.grid_dist(rng, nx, den, True) + f(tb(nx))
        if op == "deduce":
            w = G.grid_opinion(rng, nx, den, "part", positive=True)
            return flat_op(w) + f(tb(nx))
        if op == "inverse":
            return f(tb(nx)) + G.grid_dist(rng, nx, den, True) + ay0
        if op == "abduce_with":
            return flat_sx(G.grid_simplex(rng, ny, den)) + f(tb(nx)) + G.grid_dist(rng, nx, den, True) + ay0
        return f(tb(nx)) + f(tb(nz)) + G.grid_dist(rng, nx, 8, True) + G.grid_dist(rng, nz, 8, True) + G.grid_dist(rng, ny, 8, True)
    if op in ("proj2", "umax2", "fuse2", "proj3", "umax3", "fuse3"):
        n = nx * nz * (ny if op.endswith("3") else 1)
        w = G.grid_opinion(rng, n, den)
        return flat_op(w) + (flat_op(G.grid_opinion(rng, n, den)) if op.startswith("fuse") else [])
    if op in ("proj", "umax", "fuse") and rng.chance(1, 3):
        # a value with a tiny projected probability: wherever the renaming puts it, the result must only be renamed
        w = G.tiny_projection_opinion(rng, ty, nx)
        if op == "fuse":
            return flat_op(w) + flat_op(([0.0] * nx, 1.0, w[2]) if rng.chance(1, 2) else G.grid_opinion(rng, nx, den))
        return flat_op(w)
    if op in ("proj", "umax"):
        return flat_op(G.grid_opinion(rng, nx, den))
    if op == "disc":
        s = G.grid_simplex(rng, nx, den, "part")
        return flat_sx(s) + [rng.below(65) / 64.0]
    if op == "fuse":
        return flat_op(G.grid_opinion(rng, nx, den)) + flat_op(G.grid_opinion(rng, nx, den))
    if op == "mbr":
        return G.grid_dist(rng, nx, den) + f(table(rng, ty, nx, ny, "grid"))
    if op == "deduce":
        return flat_op(G.grid_opinion(rng, nx, den)) + f(table(rng, ty, nx, ny, "grid"))
    if op == "inverse":
        return f(table(rng, ty, nx, ny, "grid")) + G.grid_dist(rng, nx, den, True) + G.grid_dist(rng, ny, den, True)
    if op == "abduce_with":
        return flat_sx(G.grid_simplex(rng, ny, den)) + f(table(rng, ty, nx, ny, "grid")) + \
            G.grid_dist(rng, nx, den, True) + G.grid_dist(rng, ny, den, True)
    if op in ("prod2", "prod3"):
        ws = [G.grid_opinion(rng, n, den) for n in ([nx, nz] if op == "prod2" else [nx, ny, nz])]
        if r % 2 == 1:
            # a value with base rate exactly 0 in every factor, anywhere in the value order (placed deterministically):
            # its joint cells put no bound on the uncertainty, wherever a renaming moves them
            ws2 = []
            for b, u, a in ws:
                k = rng.below(len(a))
                rest = G.grid_dist(rng, len(a) - 1, den, True)
                ws2.append((b, u, rest[:k] + [0.0] + rest[k:]))
            ws = ws2
        return sum((flat_op(w) for w in ws), [])
    if op == "merge":
        return f(table(rng, ty, nx, ny, "grid")) + f(table(rng, ty, nz, ny, "grid")) + \
            G.grid_dist(rng, nx, 8, True) + G.grid_dist(rng, nz, 8, True) + G.grid_dist(rng, ny, 8, True)
    raise KeyError(op)


def mkcase(rng, ty, op, sizes, nums, opk, perms, gid, side):
    nx, ny, nz = sizes.get("X"), sizes.get("Y"), sizes.get("Z")
    meta = {"g": gid, "side": side, "perms": perms, "sizes": sizes, "lop": op}
    fam4 = ["arr", "marr", "marrd", "marrdn"]
    if op in ("proj2", "umax2", "fuse2"):
        n = nx * nz
        hop = {"proj2": "proj2d", "umax2": "umax2d", "fuse2": "fuse2d"}[op]
        mop = op[:-1]
        st = "own" if op == "proj2" else "spx" if op == "umax2" else rng.choice(["own", "ref"])
        return Case(hop, ty, rng.choice(["marr", "marrd", "marrdn"]), st, [nx, nz] + ([opk] if op == "fuse2" else []), nums,
                    mop=mop, mdims=[n] + ([opk, 0] if op == "fuse2" else []), tag=op, meta=meta)
    if op in ("proj3", "umax3", "fuse3"):
        n = nx * ny * nz
        hop = {"proj3": "proj3d", "umax3": "umax3d", "fuse3": "fuse3d"}[op]
        mop = op[:-1]
        st = "own" if op == "proj3" else "spx" if op == "umax3" else rng.choice(["own", "ref"])
        return Case(hop, ty, rng.choice(["marr", "marrd"]), st, [nx, ny, nz] + ([opk] if op == "fuse3" else []), nums,
                    mop=mop, mdims=[n] + ([opk, 0] if op == "fuse3" else []), tag=op, meta=meta)
    if op in ("proj", "umax"):
        return Case(op, ty, rng.choice(fam4), "own" if op == "proj" else "spx", [nx], nums, tag=op, meta=meta)
    if op == "disc":
        return Case("disc", ty, rng.choice(["marr", "marrd"]), "spx", [nx, 1], nums, mop="discchain", tag=op, meta=meta)
    if op == "fuse":
        meta["lop"] = "fuse"
        return Case("fuse", ty, rng.choice(fam4), rng.choice(["own", "ref"]), [nx, opk, 0], nums, tag="fuse%d" % opk, meta=meta)
    if op in ("mbr", "inverse"):
        return Case(op, ty, rng.choice(fam4), "-", [nx, ny], nums, tag=op, meta=meta)
    if op == "deduce":
        return Case(op, ty, rng.choice(fam4), rng.choice(["own", "ref"]), [nx, ny], nums, tag=op, meta=meta)
    if op == "abduce_with":
        return Case(op, ty, rng.choice(fam4), rng.choice(["spx", "ref", "own"]), [nx, ny], nums, tag=op, meta=meta)
    if op == "prod2":
        fam, lab = rng.choice([("arr", 0), ("marrd", 1)])
        return Case(op, ty, fam, "ref", [nx, nz], nums, mdims=[nx, nz, lab], tag=op, meta=meta)
    if op == "prod3":
        fam, lab = rng.choice([("arr", 0), ("marrd", 1), ("marrd", 1)])
        return Case(op, ty, fam, rng.choice(["own", "ref"]), [nx, ny, nz], nums, mdims=[nx, ny, nz, lab], tag=op, meta=meta)
    fam, lab = rng.choice([("arr", 0), ("marrd", 1)])
    return Case("merge", ty, fam, "own", [nx, nz, ny], nums, mdims=[nx, nz, ny, lab], tag=op, meta=meta)


def gen(rng, tier):
    out = []
    reps = 4 if tier == "quick" else 60
    gid = 0
    shapes = {
        "proj": [{"X": n} for n in (2, 3, 4)], "umax": [{"X": n} for n in (2, 3, 4)], "disc": [{"X": n} for n in (2, 3, 4)],
        "fuse": [{"X": n} for n in (2, 3, 4)],
        "proj2": [{"X": 2, "Z": 3}, {"X": 3, "Z": 2}], "umax2": [{"X": 2, "Z": 3}, {"X": 3, "Z": 2}],
        "fuse2": [{"X": 2, "Z": 3}, {"X": 3, "Z": 2}],
        "proj3": [{"X": 2, "Y": 3, "Z": 4}, {"X": 3, "Y": 2, "Z": 2}, {"X": 2, "Y": 2, "Z": 3}],
        "umax3": [{"X": 2, "Y": 3, "Z": 4}, {"X": 3, "Y": 2, "Z": 2}],
        "fuse3": [{"X": 2, "Y": 3, "Z": 4}, {"X": 2, "Y": 2, "Z": 3}],
        "mbr": [{"X": 3, "Y": 2}, {"X": 2, "Y": 3}, {"X": 4, "Y": 3}],
        "deduce": [{"X": 3, "Y": 2}, {"X": 2, "Y": 3}, {"X": 4, "Y": 3}],
        "inverse": [{"X": 3, "Y": 2}, {"X": 2, "Y": 3}, {"X": 4, "Y": 3}],
        "abduce_with": [{"X": 3, "Y": 2}, {"X": 2, "Y": 3}],
        "prod2": [{"X": 2, "Z": 3}, {"X": 3, "Z": 2}, {"X": 3, "Z": 4}],
        "prod3": [{"X": 3, "Y": 2, "Z": 2}, {"X": 2, "Y": 3, "Z": 2}, {"X": 3, "Y": 2, "Z": 3}],
        "merge": [{"X": 2, "Z": 3, "Y": 2}, {"X": 3, "Z": 2, "Y": 3}],
    }
    for ty in ("f64", "f32"):
        for op, shs in shapes.items():
            for sizes in shs:
                for r in range(reps if op != "merge" else max(2, reps // 3)):
                    den = rng.choice([8, 16, 64])
                    for opk in (range(4) if op in ("fuse", "fuse2", "fuse3") else [0]):
                        nums = build(rng, ty, op, sizes, den, r)
                        gid += 1
                        ident = {d: list(range(n)) for d, n in sizes.items()}
                        out.append(mkcase(rng, ty, op, sizes, nums, opk, ident, gid, 0))
                        import itertools
                        if tier == "thorough" and op != "merge":
                            allp = list(itertools.product(*[list(itertools.permutations(range(n))) for n in sizes.values()]))
                            chosen = [dict(zip(sizes.keys(), map(list, p))) for p in allp if any(list(q) != sorted(q) for q in p)]
                            if len(chosen) > 24:
                                chosen = [rng.choice(chosen) for _ in range(24)]
                        else:
                            chosen = [{d: rand_perm(rng, n) for d, n in sizes.items()} for _ in range(2)]
                        for perms in chosen:
                            pn = apply_layout(LAYOUT[op][0], nums, perms, sizes)
                            c = mkcase(rng, ty, op, sizes, pn, opk, perms, gid, 1)
                            out.append(c)
    return out


def scale(c, rm):
    return 1 << 10 if c.meta["lop"] in ("merge", "inverse", "abduce_with", "umax", "umax2", "umax3", "deduce", "prod2", "prod3") else 1


def cross(cases, impl, model):
    out = []
    base = {}
    for i, c in enumerate(cases):
        if c.meta["side"] == 0:
            base[c.meta["g"]] = i
    for i, c in enumerate(cases):
        if c.meta["side"] != 1:
            continue
        j = base.get(c.meta["g"])
        if j is None or impl[i][0] != "OK" or impl[j][0] != "OK":
            if j is not None and impl[i][0] != impl[j][0]:
                out.append((i, "renaming the domain values changed the outcome from %s to %s" % (impl[j][0], impl[i][0])))
            continue
        op = c.meta["lop"]
        want = apply_layout(LAYOUT[op][1], impl[j][1], c.meta["perms"], c.meta["sizes"])
        tol = float(TOL[c.ty]) * 4 * float(scale(c, None))
        got = impl[i][1]
        if len(got) != len(want) or any(abs(p - q) > tol for p, q in zip(got, want)):
            out.append((i, "%s on renamed operands is not the renamed result: got %r, expected %r (permutations %s)" % (
                op, got, want, c.meta["perms"])))
    return out


def predicates(c, ri, rm):
    if ri[0] == "OK" and not all(finite(v) for v in ri[1]):
        return ["non-finite result"]
    return []
