"""C02: fusion is closed over well-formed opinions and never panics."""
from fractions import Fraction

from .. import gen as G, num
from ..core import Case, TOL, finite
from .common import flat_op, flat_sx, fr, split_op, wf_simplex_fail, wf_dist_fail

RULE = ("all four operators x pairs of well-formed opinions: den-4 grid on 2 states (exhaustive in the thorough tier), "
        "random grids up to 1/64, random floats, and the full guard lattice / sweep (each operand's uncertainty through "
        "0, tiny values up to 1e-3, 1-1e-3 .. 1-2e-16, 1 - k ulps, 1); zero base-rate entries, shared base-rate vector "
        "(pointer-equal), opinion x simplex and simplex x simplex forms; domain sizes 2..4, all container families and "
        "call styles, f32/f64; non-trivial = neither operand vacuous")
NONE_KINDS = ("PANIC",)   # only simplex x simplex ECm panics by design
FAMS = ["arr", "marr", "marrd", "marrdn"]
OPS = {0: "ACm", 1: "ECm", 2: "Avg", 3: "Wgh"}


def trivial(c):
    n = c.mdims[0]
    return c.nums[n] == 1.0


def all_grid_opinions(n, den):
    import itertools
    def comps(total, parts):
        if parts == 1:
            yield [total]
            return
        for k in range(total + 1):
            for r in comps(total - k, parts - 1):
                yield [k] + r
    sx = [([k / den for k in c[:n]], c[n] / den) for c in comps(den, n + 1)]
    ds = [[k / den for k in c] for c in comps(den, n)]
    return [(b, u, a) for (b, u) in sx for a in ds]


def pair_cases(rng, tier, ty, n, w1, w2, tag, full=False):
    out = []
    nums = flat_op(w1) + flat_op(w2)
    for opk in range(4):
        fam = rng.choice(FAMS)
        st = rng.choice(["own", "ref", "assign", "assign_ref"])
        out.append(Case("fuse", ty, fam, st, [n, opk, 0], nums, tag=tag))
        if full or rng.chance(1, 6):
            out.append(Case("fuse", ty, rng.choice(FAMS), "ref", [n, opk, 1], nums, tag=tag + "_shared"))
            out.append(Case("fuse_s", ty, rng.choice(FAMS), rng.choice(["own", "ref", "assign"]), [n, opk],
                            flat_op(w1) + flat_sx((w2[0], w2[1])), tag=tag + "_simplex"))
            out.append(Case("fuse_ss", ty, rng.choice(FAMS), rng.choice(["own", "assign"]), [n, opk],
                            flat_sx((w1[0], w1[1])) + flat_sx((w2[0], w2[1])), tag=tag + "_simplexes"))
    return out


def gen(rng, tier):
    out = []
    nrand = 30 if tier == "quick" else 2000
    for ty in ("f64", "f32"):
        if tier == "thorough" and ty == "f64":
            g4 = all_grid_opinions(2, 4)
            for w1 in g4:
                for w2 in g4:
                    nums = flat_op(w1) + flat_op(w2)
                    for opk in range(4):
                        out.append(Case("fuse", ty, "arr", "own", [2, opk, 0], nums, tag="grid4_exhaustive"))
        for n in (2, 3, 4, 5, 7):
            for i in range(nrand if n <= 4 else max(8, nrand // 4)):
                den = rng.choice([4, 8, 16, 64])
                w1 = G.grid_opinion(rng, n, den)
                w2 = G.grid_opinion(rng, n, den)
                if rng.chance(1, 4):
                    w2 = (w2[0], w2[1], w1[2])
                out += pair_cases(rng, tier, ty, n, w1, w2, "grid")
            for i in range(nrand // 2):
                out += pair_cases(rng, tier, ty, n, G.float_opinion(rng, ty, n, positive=False),
                                  G.float_opinion(rng, ty, n, positive=False), "float")
            # guard lattice and sweeps: every pair of sweep uncertainties
            sw = G.sweep_u(ty)
            pairs = [(u1, u2) for u1 in sw for u2 in sw]
            if tier == "quick":
                pairs = [rng.choice(pairs) for _ in range(60)]
            for u1, u2 in pairs:
                s1 = G.simplex_with_u(rng, ty, n, u1)
                s2 = G.simplex_with_u(rng, ty, n, u2)
                a1 = G.float_dist(rng, ty, n, positive=False) if rng.chance(1, 2) else G.grid_dist(rng, n, 8)
                a2 = G.float_dist(rng, ty, n, positive=False) if rng.chance(1, 2) else G.grid_dist(rng, n, 8)
                out += pair_cases(rng, tier, ty, n, (s1[0], s1[1], a1), (s2[0], s2[1], a2), "sweep")
        # joint (2-D) domains used as one domain, rectangular shapes included; every guard of the ladder is hit
        # deterministically (both vacuous, both dogmatic, one of each, ordinary)
        for (n0, n1) in ((2, 3), (3, 2), (2, 2)):
            n = n0 * n1
            for k1, k2 in (("vac", "vac"), ("dog", "dog"), ("vac", "part"), ("part", "dog"), ("part", "part"), (None, None)):
                for rep in range(1 if tier == "quick" else 20):
                    w1 = G.grid_opinion(rng, n, 16, k1)
                    w2 = G.grid_opinion(rng, n, 16, k2)
                    for fam in ("marr", "marrd", "marrdn"):
                        for opk in range(4):
                            out.append(Case("fuse2d", ty, fam, rng.choice(["own", "ref", "assign"]), [n0, n1, opk],
                                            flat_op(w1) + flat_op(w2), mop="fuse", mdims=[n, opk, 0], tag="joint_domain"))
        # the property's own example (nearly vacuous operands, distinct base rates)
        for t1, t2 in ((5.7e-16, 6.1e-16), (1e-12, 3e-13), (2.2e-16, 1.1e-16)) if ty == "f64" else ((1.2e-7, 2.4e-7), (6e-8, 6e-8)):
            u1, u2 = num.rnd(ty, 1.0 - t1), num.rnd(ty, 1.0 - t2)
            s1 = G.simplex_with_u(rng, ty, 2, u1)
            s2 = G.simplex_with_u(rng, ty, 2, u2)
            out += pair_cases(rng, tier, ty, 2, (s1[0], s1[1], [0.25, 0.75]), (s2[0], s2[1], [0.625, 0.375]),
                              "nearly_vacuous", full=True)
    return out


def predicates(c, ri, rm):
    n = c.mdims[0]
    opk = c.mdims[1]
    if ri[0] == "BAD" and "panicked" in str(ri[1]):
        return ["fusion result cannot be read back: %s" % (ri[1],)]
    if c.op == "fuse_ss" and opk == 1:
        return [] if ri[0] == "PANIC" else ["epistemic fusion of two bare simplexes was not refused"]
    if ri[0] != "OK":
        return ["%s %s failed on well-formed operands: %s" % (OPS[opk], c.op, " ".join(map(str, ri[:2])))]
    vals = ri[1]
    if not all(finite(v) for v in vals):
        return ["%s returned NaN / infinite entries: %r" % (OPS[opk], vals)]
    tol = TOL[c.ty] * 4
    out = []
    b = fr(vals[:n]); u = Fraction(vals[n])
    e = wf_simplex_fail(b, u, tol)
    if e:
        out.append("%s result is not a well-formed simplex: %s (%r)" % (OPS[opk], e, vals))
    if c.op in ("fuse", "fuse_s"):
        a = fr(vals[n + 1:])
        a1 = fr(c.nums[n + 1:2 * n + 1])
        a2 = fr(c.nums[3 * n + 2:4 * n + 2]) if c.op == "fuse" and not c.mdims[2] else a1
        e = wf_dist_fail(a, tol)
        if e:
            out.append("%s fused base rate is not a distribution: %s (%r)" % (OPS[opk], e, vals[n + 1:]))
        for x, p, q in zip(a, a1, a2):
            if x < min(p, q) - tol or x > max(p, q) + tol:
                out.append("a fused base-rate entry lies outside the operands' entries: %r" % (vals[n + 1:],))
                break
        if a1 == a2 and any(abs(x - p) > tol for x, p in zip(a, a1)):
            out.append("shared base rate was not kept")
    return out


def gen_q(rng, tier):
    """exact-rational cases: see qgen.py"""
    from . import qgen
    return qgen.fusion(rng, tier)
