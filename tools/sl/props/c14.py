"""C14: binomial deduction."""
from fractions import Fraction

from .. import gen as G, num
from ..core import Case, TOL, finite

RULE = ("antecedent, two conditionals and consequent base rate in the open domain (0 < a_x, P(x), a_y < 1): 1/8 grid, "
        "random 1/16 and 1/64 grids, random floats; the nine case branches are counted; the two label symmetries are "
        "evaluated on the implementation; f32 and f64; non-trivial = u_x > 0 and Case II or III (K may be non-zero)")
NONE_KINDS = ("NONE", "PANIC", "ERR")


def branch(nums):
    bx, dx, ux, ax, b0, d0, u0, b1, d1, u1, ay = [Fraction(v) for v in nums]
    bp, dp = b0 > b1, d0 > d1
    if bp == dp:
        return "I"
    pyx = b0 * ax + b1 * (1 - ax) + ay * (u0 * ax + u1 * (1 - ax))
    px = bx + ax * ux
    r = b1 + ay * (1 - b1 - d0) if bp else b0 + ay * (1 - b0 - d1)
    return ("II" if bp else "III") + (".B" if pyx > r else ".A") + (".2" if px > ax else ".1")


def trivial(c):
    return c.nums[2] == 0.0 or branch(c.nums[:11]) == "I"


def in_domain(x, ay):
    bx, dx, ux, ax = [Fraction(v) for v in x]
    px = bx + ax * ux
    return 0 < ax < 1 and 0 < px < 1 and 0 < Fraction(ay) < 1


def tied_conditionals(rng, ty, i):
    """Conditionals tied in the component that bounds K (Case II with d(y|x) = d(y|~x), Case III with b(y|x) = b(y|~x)):
    K = 0 exactly.  The A/B threshold difference is (1 - a_y) a_x (b0 - b1) resp. -a_y a_x (d0 - d1); a_x (and 1 - a_y
    resp. a_y) are drawn so small that it lies far below one ulp of the compared sums and its computed sign is decided
    by rounding; the branch on the wrong side divides by the tied difference.  Returns the 11 numbers or None."""
    def small():
        e = (6 + rng.below(11)) if ty == "f64" else (4 + rng.below(4))
        return num.rnd(ty, 10.0 ** -e * (0.5 + rng.unit()))
    x = G.float_bop(rng, ty, a_open=True) if rng.chance(1, 2) else G.grid_bop(rng, 8, a_open=True)
    mode = i % 4                    # 0: Case II tie, 1: Case III tie, 2 / 3: Case I with one component tied (see below)
    if mode >= 2:
        return tied_case_one(rng, ty, x, mode == 2, small)
    case2 = mode == 0
    hot = rng.chance(2, 3)          # Case III: the sign is open only for small a_x, small a_y and a non-dyadic tied mass
    if hot or rng.chance(1, 2):
        x[3] = small()
    t = rng.choice([0.0, 0.0, 0.125, num.rnd(ty, 0.4 * rng.unit()), num.rnd(ty, 0.4 * rng.unit())])     # the tied mass
    if hot and not case2:
        t = num.rnd(ty, 0.4 * rng.unit())
    if rng.chance(1, 2) and t in (0.0, 0.125):
        k = sorted(rng.below(int((1 - t) * 64) + 1) for _ in range(2))
        if k[0] == k[1]:
            return None
        lo, hi = k[0] / 64.0, k[1] / 64.0
        ulo, uhi = 1.0 - t - lo, 1.0 - t - hi                      # exact (dyadic)
    else:
        lo, hi = sorted(num.rnd(ty, (1 - t) * rng.unit()) for _ in range(2))
        if lo == hi:
            return None
        ulo, uhi = num.rnd(ty, num.rnd(ty, 1.0 - t) - lo), num.rnd(ty, num.rnd(ty, 1.0 - t) - hi)
        if ulo < 0 or uhi < 0:
            return None
    if case2:
        c0, c1 = [hi, t, uhi], [lo, t, ulo]                        # b0 > b1, d0 = d1
        ay = num.rnd(ty, 1.0 - small()) if rng.chance(2, 3) else num.rnd(ty, 0.02 + 0.96 * rng.unit())
    else:
        c0, c1 = [t, hi, uhi], [t, lo, ulo]                        # b0 = b1, d0 > d1
        ay = small() if hot or rng.chance(1, 3) else num.rnd(ty, 0.02 + 0.96 * rng.unit())
    if not in_domain(x, ay):
        return None
    return x + c0 + c1 + [ay]


def tied_case_one(rng, ty, x, d_tied, small):
    """Case I with one component tied: d(y|x) = d(y|~x) and b(y|x) < b(y|~x) (d_tied), or b tied and d(y|x) < d(y|~x).
    K = 0 by the case split alone; a classification that sends the tie to Case III resp. II meets an A/B threshold
    difference (1 - a_y)(1 - a_x)(b1 - b0) resp. a_y (1 - a_x)(d1 - d0), drawn here below one ulp, and a zero divisor."""
    t = rng.choice([0.0, 0.0, 0.125, num.rnd(ty, 0.4 * rng.unit())])
    if t in (0.0, 0.125) and rng.chance(1, 2):
        k = sorted(rng.below(int((1 - t) * 64) + 1) for _ in range(2))
        if k[0] == k[1]:
            return None
        lo, hi = k[0] / 64.0, k[1] / 64.0
        ulo, uhi = 1.0 - t - lo, 1.0 - t - hi
    else:
        lo, hi = sorted(num.rnd(ty, (1 - t) * rng.unit()) for _ in range(2))
        if lo == hi:
            return None
        ulo, uhi = num.rnd(ty, num.rnd(ty, 1.0 - t) - lo), num.rnd(ty, num.rnd(ty, 1.0 - t) - hi)
        if ulo < 0 or uhi < 0:
            return None
    x = list(x)
    x[3] = num.rnd(ty, 1.0 - small()) if rng.chance(2, 3) else x[3]
    if d_tied:
        c0, c1 = [lo, t, ulo], [hi, t, uhi]
        ay = num.rnd(ty, 1.0 - small()) if rng.chance(2, 3) else num.rnd(ty, 0.02 + 0.96 * rng.unit())
    else:
        c0, c1 = [t, lo, ulo], [t, hi, uhi]
        ay = small() if rng.chance(2, 3) else num.rnd(ty, 0.02 + 0.96 * rng.unit())
    if not in_domain(x, ay):
        return None
    return x + c0 + c1 + [ay]


def gen(rng, tier):
    out = []
    n = 2500 if tier == "quick" else 150000
    for ty in ("f64", "f32"):
        for i in range(800 if tier == "quick" else 60000):
            nums = tied_conditionals(rng, ty, i)
            if nums is not None:
                out.append(Case("bdeduce", ty, "bi", "-", [], nums, tag="tied_conditionals", meta={"branch": branch(nums)}))
    for ty in ("f64", "f32"):
        k = 0
        while k < n:
            r = rng.below(10)
            if r < 7:
                den = rng.choice([8, 8, 16, 64])
                tag = "grid%d" % den
                x = G.grid_bop(rng, den, a_open=True)
                c0 = G.grid_simplex(rng, 2, den)
                c1 = G.grid_simplex(rng, 2, den)
                ay = (1 + rng.below(den - 1)) / den
            else:
                tag = "float"
                x = G.float_bop(rng, ty, a_open=True)
                c0 = G.float_simplex(rng, ty, 2)
                c1 = G.float_simplex(rng, ty, 2)
                ay = num.rnd(ty, 0.02 + 0.96 * rng.unit())
            if r == 9 and rng.chance(1, 2):
                # nearly dogmatic antecedent: u_x far below the grid but far above machine epsilon
                tag = "near_dogmatic_antecedent"
                uu = num.rnd(ty, rng.choice([1e-5, 1e-7, 1e-9, 1e-10, 1e-12, 4e-14] if ty == "f64" else [1e-3, 1e-4, 1e-5, 3e-6]))
                sx = G.simplex_with_u(rng, ty, 2, uu)
                x = [sx[0][0], sx[0][1], sx[1], x[3]]
            if not in_domain(x, ay):
                continue
            k += 1
            nums = x + c0[0] + [c0[1]] + c1[0] + [c1[1]] + [ay]
            br = branch(nums)
            out.append(Case("bdeduce", ty, "bi", "-", [], nums, tag=tag, meta={"branch": br}))
            if rng.chance(1, 3):
                out.append(Case("bdeduce_swapx", ty, "bi", "-", [], nums, mop="-", tag="swap_x", meta={"branch": br}))
                out.append(Case("bdeduce_negy", ty, "bi", "-", [], nums, mop="-", tag="negate_y", meta={"branch": br}))
    return out


def predicates(c, ri, rm):
    if ri[0] != "OK":
        return ["deduce failed inside its domain (case %s): %s" % (c.meta.get("branch"), " ".join(map(str, ri[:3])))]
    vals = ri[1]
    if not all(finite(v) for v in vals):
        return ["non-finite result %r" % (vals,)]
    tol = TOL[c.ty] * 4
    bx, dx, ux, ax, b0, d0, u0, b1, d1, u1, ay = [Fraction(v) for v in c.nums[:11]]
    px = bx + ax * ux
    kappa = max(1, 1 / (px * ay), 1 / ((1 - px) * ay), 1 / (px * (1 - ay)), 1 / ((1 - px) * (1 - ay)))
    t = tol * min(kappa, 1 << 16)
    r = [Fraction(v) for v in vals]
    out = []
    if c.op != "bdeduce":
        if any(abs(p - q) > t * 4 for p, q in zip(r[:4], r[4:])):
            out.append("%s: results differ: %r vs %r (case %s)" % (c.op, vals[:4], vals[4:], c.meta.get("branch")))
        return out
    b, d, u, a = r
    if min(b, d, u) < -t or abs(b + d + u - 1) > t:
        out.append("deduced opinion is not well-formed: %r (case %s)" % (vals, c.meta.get("branch")))
    if a != ay:
        out.append("base rate is not the supplied one")
    want = px * (b0 + ay * u0) + (1 - px) * (b1 + ay * u1)
    if abs(b + a * u - want) > t:
        out.append("projection %s violates total probability %s" % (float(b + a * u), float(want)))
    if ux == 0 and (abs(b - (bx * b0 + dx * b1)) > t or abs(d - (bx * d0 + dx * d1)) > t):
        out.append("dogmatic antecedent does not give the mixture of the conditionals")
    return out


def scale(c, rm):
    if c.mop == "-":
        return 1
    bx, dx, ux, ax = [Fraction(v) for v in c.nums[:4]]
    ay = Fraction(c.nums[10])
    px = bx + ax * ux
    kappa = max(1, 1 / (px * ay), 1 / ((1 - px) * ay), 1 / (px * (1 - ay)), 1 / ((1 - px) * (1 - ay)))
    return min(kappa, 1 << 16)
