"""C12: binomial multiplication / comultiplication."""
from fractions import Fraction

from .. import gen as G, num
from ..core import Case, TOL, finite

RULE = ("pairs of well-formed binomial opinions: the 1/8 grid (exhaustive in the thorough tier, sampled in quick), "
        "random 1/64 grid, random floats (base rates stratified towards 0 and 1); triples for associativity and pairs "
        "for De Morgan evaluated on the implementation; f32 and f64; non-trivial = neither operand vacuous and the "
        "admissibility condition holds")
NONE_KINDS = ("NONE", "PANIC", "ERR")


def trivial(c):
    return c.nums[2] == 1.0 or c.nums[6] == 1.0


def admissible(op, x, y):
    ax, ay = Fraction(x[3]), Fraction(y[3])
    return ax * ay != 1 if "comul" not in op else ax + ay - ax * ay != 0


def gen(rng, tier):
    out = []
    grid8 = G.all_grid_bops(8)
    for ty in ("f64", "f32"):
        pairs = []
        if tier == "thorough" and ty == "f64":
            for x in grid8:
                for y in grid8:
                    pairs.append(("grid8", x, y))
        else:
            for _ in range(600 if tier == "quick" else 20000):
                pairs.append(("grid8", rng.choice(grid8), rng.choice(grid8)))
        for _ in range(400 if tier == "quick" else 20000):
            pairs.append(("grid64", G.grid_bop(rng, 64), G.grid_bop(rng, 64)))
        for _ in range(400 if tier == "quick" else 20000):
            x, y = G.float_bop(rng, ty), G.float_bop(rng, ty)
            if rng.chance(1, 2):
                # base rates close to 1 (mul) / 0 (comul): the divisors nearly vanish, down to the machine epsilon scale
                e = num.rnd(ty, 10.0 ** -(1 + rng.below(7))) if rng.chance(1, 2) else \
                    num.rnd(ty, 2.0 ** -(rng.choice([20, 22, 23, 24, 25, 30]) if ty == "f32" else rng.choice([40, 50, 51, 52, 53, 54, 60])))
                x[3], y[3] = (num.rnd(ty, 1.0 - e), num.rnd(ty, 1.0 - e * rng.unit())) if rng.chance(1, 2) else (e, num.rnd(ty, e * rng.unit()))
            pairs.append(("float", x, y))
        for _ in range(20 if tier == "quick" else 1000):
            t = 2.0 ** -(rng.choice([1030, 1040, 1060]) if ty == "f64" else rng.choice([130, 135, 140]))
            x, y = G.grid_bop(rng, 8), G.grid_bop(rng, 8)
            x[3], y[3] = t, rng.choice([0.0, t, 2 * t])
            pairs.append(("subnormal_base_rate", x, y))
        for i, (tag, x, y) in enumerate(pairs):
            for op in ("bmul", "bcomul"):
                if i % 5 == 0 and admissible(op, x, x):
                    # one object as receiver and argument (x AND x is NOT x: the operands count as independent)
                    out.append(Case(op, ty, "bi", "alias", [], x + x, tag="same_object"))
                if admissible(op, x, y):
                    out.append(Case(op, ty, "bi", "-", [], x + y, tag=tag))
                    if tag != "float" or True:
                        out.append(Case(op, ty, "bi", "-", [], y + x, tag=tag, meta={"swap": True}))
        for _ in range(300 if tier == "quick" else 10000):
            den = rng.choice([8, 64])
            x, y, z = G.grid_bop(rng, den), G.grid_bop(rng, den), G.grid_bop(rng, den)
            if rng.chance(1, 4):
                k = (rng.choice([22, 23, 24, 25]) if ty == "f32" else rng.choice([51, 52, 53, 54]))
                for w in (x, y, z):
                    w[3] = 2.0 ** -(k + rng.below(2)) if rng.chance(1, 2) else 1.0 - 2.0 ** -(k - 30 if ty == "f64" else k - 12)
            if all(0 < w[3] < 1 for w in (x, y, z)):
                out.append(Case("bassoc_mul", ty, "bi", "-", [], x + y + z, mop="-", tag="assoc"))
                out.append(Case("bassoc_comul", ty, "bi", "-", [], x + y + z, mop="-", tag="assoc"))
            if admissible("bmul", x, y):
                out.append(Case("bdemorgan", ty, "bi", "-", [], x + y, mop="-", tag="demorgan"))
    return out


def predicates(c, ri, rm):
    if ri[0] != "OK":
        return ["%s failed on well-formed operands inside its domain: %s" % (c.op, " ".join(map(str, ri[:3])))]
    vals = ri[1]
    if not all(finite(v) for v in vals):
        return ["non-finite result %r" % (vals,)]
    tol = TOL[c.ty] * 4
    out = []
    r = [Fraction(v) for v in vals]
    if c.op in ("bassoc_mul", "bassoc_comul", "bdemorgan"):
        if any(abs(p - q) > tol * 16 for p, q in zip(r[:4], r[4:])):
            out.append("%s: the two sides differ: %r vs %r" % (c.op, vals[:4], vals[4:]))
        return out
    bx, dx, ux, ax, by, dy, uy, ay = [Fraction(v) for v in c.nums]
    b, d, u, a = r
    px, py = bx + ax * ux, by + ay * uy
    if c.op == "bmul":
        wa, wp = ax * ay, px * py
        scale = max(1, 1 / (1 - ax * ay))
    else:
        wa, wp = ax + ay - ax * ay, px + py - px * py
        scale = max(1, 1 / (ax + ay - ax * ay))
    t = tol
    if min(b, d, u) < -t or abs(b + d + u - 1) > t:
        out.append("%s result is not well-formed: %r" % (c.op, vals))
    if abs(a - wa) > tol:
        out.append("%s base rate %r is not %s" % (c.op, vals[3], float(wa)))
    if abs(b + a * u - wp) > t:
        out.append("%s projection %s is not %s" % (c.op, float(b + a * u), float(wp)))
    return out


def scale(c, rm):
    # both operators are evaluated with cancellation-free divisors: no conditioning allowance
    return 1
