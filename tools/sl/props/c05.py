"""C05: inversion (Bayes) and abduction."""
from fractions import Fraction

from .. import gen as G, num
from ..core import Case, TOL, finite
from .common import flat_op, flat_sx, fr, split_op, split_sx, wf_simplex_fail
from .c08 import table, exact_mbr

RULE = ("conditional tables X->Y (vacuous / dogmatic / partial rows, zero belief masses, all-zero likelihood columns, "
        "equally likely outcomes) x strictly positive base rates on X x observed opinions on Y, |X| 2..4, |Y| 2..3, "
        "dyadic grids and random floats; inverse, abduce, abduce_with through every container family and receiver, "
        "f32/f64; non-trivial = table not all vacuous")
NONE_KINDS = ("NONE",)
FAMS = ["arr", "marr", "marrd", "marrdn"]


def trivial(c):
    nx, ny = c.mdims[0], c.mdims[1]
    off = 0 if c.mop == "inverse" else ny + 1
    return all(c.nums[off + i * (ny + 1) + ny] == 1.0 for i in range(nx))


def gen(rng, tier):
    out = []
    nrand = 40 if tier == "quick" else 2500
    for ty in ("f64", "f32"):
        for nx, ny in [(2, 2), (2, 3), (3, 2), (3, 3), (4, 2), (4, 3), (5, 2), (2, 5)]:
            if True:
                for i in range(nrand if max(nx, ny) <= 4 else max(3, nrand // 12)):
                    mode = "float" if i % 4 == 3 else "grid"
                    den = rng.choice([8, 16, 64])
                    cs = table(rng, ty, nx, ny, mode)
                    tag = mode
                    r = rng.below(10)
                    if r == 0 and mode == "grid":
                        # an outcome y with zero likelihood under every x (dogmatic rows, zero mass at y)
                        y0 = rng.below(ny)
                        cs2 = []
                        for _ in range(nx):
                            k = G.composition(rng, den, ny - 1, zero_bias=0)
                            b = k[:y0] + [0] + k[y0:]
                            cs2.append(([v / den for v in b], 0.0))
                        cs = cs2
                        tag = "zero_column"
                    elif r == 1 and mode == "grid":
                        # an outcome equally likely under every x
                        s0 = G.grid_simplex(rng, ny, den, "part")
                        cs = [s0] * nx
                        tag = "irrelevant"
                    ax = G.float_dist(rng, ty, nx, True) if mode == "float" else G.grid_dist(rng, nx, den, True)
                    ay = G.float_dist(rng, ty, ny, True) if mode == "float" else G.grid_dist(rng, ny, den, True)
                    cn = sum((flat_sx(c) for c in cs), [])
                    fam = rng.choice(FAMS)
                    out.append(Case("inverse", ty, fam, "-", [nx, ny], cn + ax + ay, tag=tag))
                    wy = G.float_simplex(rng, ty, ny) if mode == "float" else G.grid_simplex(rng, ny, den)
                    for st in (["spx", "ref", "own"] if i % 3 == 0 else [rng.choice(["spx", "ref", "own"])]):
                        out.append(Case("abduce", ty, fam, st, [nx, ny], flat_sx(wy) + cn + ax, tag=tag))
                    if i % 5 == 0:
                        # all conditionals vacuous: the marginal base rate is undefined, abduction returns nothing
                        vac = sum(([0.0] * ny + [1.0] for _ in range(nx)), [])
                        for st in ("spx", "ref", "own"):
                            out.append(Case("abduce", ty, rng.choice(FAMS), st, [nx, ny], flat_sx(wy) + vac + ax, tag="all_vacuous"))
                    out.append(Case("abduce_with", ty, fam, rng.choice(["spx", "ref", "own"]), [nx, ny],
                                    flat_sx(wy) + cn + ax + ay, tag=tag))
                    if tier != "quick" or i % 6 == 0:
                        for f2 in FAMS:
                            if f2 != fam:
                                out.append(Case("inverse", ty, f2, "-", [nx, ny], cn + ax + ay, tag=tag))
        # a rare outcome of a rare cause: P(y0|x0) = c and a(x0) = a are both far above the tolerance, their product
        # a c is below it (2^-54 / 2^-25), every other cause rules y0 out: Bayes gives P(x0|y0) = 1, and the likelihood
        # column of y0 is NOT all zero although its weighted sum is "zero" for the tolerance test.  All numbers dyadic.
        ea, ec = (27, 27) if ty == "f64" else (12, 13)
        for nx, ny in [(2, 2), (3, 2), (2, 3), (3, 3)]:
            for i in range(2 if tier == "quick" else 40):
                a0, c0 = 2.0 ** -(ea + rng.below(2)), 2.0 ** -(ec + rng.below(2))
                x0, y0 = rng.below(nx), rng.below(ny)
                cs = []
                for x in range(nx):
                    k = G.composition(rng, 8, ny - 1, zero_bias=0)
                    b = [v / 8.0 for v in k]
                    j = max(range(ny - 1), key=lambda t: b[t])
                    if x == x0:
                        b[j] -= c0
                    b = b[:y0] + [c0 if x == x0 else 0.0] + b[y0:]
                    cs.append((b, 0.0))
                rest = G.composition(rng, 8 - (nx - 1), nx - 1, zero_bias=0)
                ax = [(v + 1) / 8.0 for v in rest]            # strictly positive base rates
                j = max(range(nx - 1), key=lambda t: ax[t])
                ax[j] -= a0
                ax = ax[:x0] + [a0] + ax[x0:]
                ay = G.grid_dist(rng, ny, 8, True)
                cn = sum((flat_sx(c) for c in cs), [])
                for fam in (FAMS if i == 0 else [rng.choice(FAMS)]):
                    out.append(Case("inverse", ty, fam, "-", [nx, ny], cn + ax + ay, tag="rare_outcome_of_rare_cause"))
                wy = ([1.0 if y == y0 else 0.0 for y in range(ny)], 0.0)
                out.append(Case("abduce", ty, rng.choice(FAMS), rng.choice(["spx", "ref", "own"]), [nx, ny],
                                flat_sx(wy) + cn + ax, tag="rare_outcome_of_rare_cause"))
    return out


def parts(c):
    nx, ny = c.mdims[0], c.mdims[1]
    off = 0
    wy = None
    if c.mop != "inverse":
        b, u, off = split_sx(c.nums, ny, 0)
        wy = (b, u)
    cs = []
    for _ in range(nx):
        cb, cu, off = split_sx(c.nums, ny, off)
        cs.append((cb, cu))
    ax = fr(c.nums[off:off + nx]); off += nx
    ay = fr(c.nums[off:off + ny]) if c.mop != "abduce" else None
    return wy, cs, ax, ay


def kappa_of(cs, ax, ay):
    nx, ny = len(cs), len(ay)
    p = [[cs[x][0][y] + ay[y] * cs[x][1] for y in range(ny)] for x in range(nx)]
    q = [sum(ax[x] * p[x][y] for x in range(nx)) for y in range(ny)]
    k = max([1] + [1 / v for v in q if v > 0] + [1 / a for a in ax] + [1 / a for a in ay if a > 0])
    return p, q, k


def predicates(c, ri, rm):
    wy, cs, ax, ay = parts(c)
    nx, ny = c.mdims[0], c.mdims[1]
    tol = TOL[c.ty] * 4
    out = []
    if c.mop == "abduce":
        want = exact_mbr(c, ax, cs)
        if (ri[0] == "NONE") != (want is None):
            return ["abduce returned %s although the marginal base rate is %s" % (
                "nothing" if ri[0] == "NONE" else "a value", "undefined" if want is None else "defined")]
        if ri[0] == "NONE":
            return []
        ay = want
    if ri[0] != "OK":
        return ["%s failed: %s" % (c.op, " ".join(map(str, ri[:2])))]
    vals = ri[1]
    if not all(finite(v) for v in vals):
        return ["%s returned NaN / infinite entries" % c.op]
    p, q, k = kappa_of(cs, ax, ay)
    t = tol * min(k * k, 1 << 20)
    eps = num.EPS[c.ty]
    if c.mop == "inverse":
        for y in range(ny):
            b = fr(vals[y * (nx + 1):y * (nx + 1) + nx]); u = Fraction(vals[y * (nx + 1) + nx])
            e = wf_simplex_fail(b, u, t)
            if e:
                out.append("inverted conditional for y=%d is not well-formed: %s" % (y, e)); break
            if all(abs(p[x][y]) <= eps for x in range(nx)):
                if abs(u - 1) > t:
                    out.append("an outcome of zero likelihood does not invert to the vacuous opinion"); break
                continue
            for x in range(nx):
                if abs(b[x] + ax[x] * u - ax[x] * p[x][y] / q[y]) > t:
                    out.append("inverted projection violates Bayes' theorem at (x=%d, y=%d)" % (x, y)); break
            uhat = min(p[x][y] / q[y] for x in range(nx))
            if u > uhat + t:
                out.append("inverted uncertainty exceeds the largest value compatible with the projection"); break
            col = [p[x][y] for x in range(nx)]
            if max(col) == min(col) and col[0] > eps and abs(u - 1) > t:
                out.append("an outcome equally likely under every x does not invert to the vacuous opinion"); break
    else:
        b = fr(vals[:nx]); u = Fraction(vals[nx]); a = fr(vals[nx + 1:])
        e = wf_simplex_fail(b, u, t)
        if e:
            out.append("abduced opinion is not well-formed: " + e)
        if any(x != y for x, y in zip(a, ax)):
            out.append("abduced opinion does not carry the supplied base rate")
        py = [bb + aa * wy[1] for bb, aa in zip(wy[0], ay)]
        s = sum(py)
        py = [v / s for v in py]
        for x in range(nx):
            want = sum(py[y] * (ax[x] * p[x][y] / q[y] if q[y] > 0 else ax[x]) for y in range(ny))
            if all(qq > eps for qq in q) and abs(b[x] + ax[x] * u - want) > t:
                out.append("abduced projection is not sum_y P(y) P(x|y)"); break
    return out


def scale(c, rm):
    wy, cs, ax, ay = parts(c)
    if ay is None:
        ay = exact_mbr(c, ax, cs)
        if ay is None:
            return 1
    p, q, k = kappa_of(cs, ax, ay)
    return min(k * k, 1 << 20)


def gen_q(rng, tier):
    """exact-rational cases: see qgen.py"""
    from . import qgen
    return qgen.conditionals(rng, tier, ops=('inverse', 'abduce', 'abduce_with'))
