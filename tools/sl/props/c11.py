"""C11: merged joint conditionals."""
from fractions import Fraction

from .. import core, gen as G, num
from ..core import Case, TOL, finite
from .common import flat_sx, fr, split_sx, wf_simplex_fail
from .c08 import table

RULE = ("pairs of conditional tables X1->Y, X2->Y with strictly positive base rates, |X1|,|X2|,|Y| in 2..3, dyadic grids "
        "(random floats for well-formedness only), plus a structured-zero stream: tables with dogmatic rows and zero "
        "belief masses filtered (by running the exact model) to those whose merged table contains an impossible joint "
        "value, the example of the property text, and rare-event tables (a joint value whose likelihoods are small but "
        "whose base-rate-weighted sum lies below machine epsilon); unlabelled (owned / borrowed conditionals) and labelled "
        "implementations, both parent orders, f32/f64; non-trivial = tables not all vacuous")
NONE_KINDS = ("PANIC",)
EXAMPLE = ([([5, 0, 11], 0), ([6, 6, 4], 0)], [([5, 5, 3], 3), ([3, 13, 0], 0)], [9, 7], [6, 10], [7, 5, 4])


def trivial(c):
    n1, n2, ny = c.dims
    return all(c.nums[i * (ny + 1) + ny] == 1.0 for i in range(n1 + n2))


def mk(ty, n1, n2, ny, c1, c2, a1, a2, ay, tag, gid, fams=(("arr", 0), ("marrd", 1))):
    out = []
    f = lambda cs: sum((flat_sx(c) for c in cs), [])
    for fam, lab in fams:
        for st in ("own", "borrowed"):
            out.append(Case("merge", ty, fam, st, [n1, n2, ny], f(c1) + f(c2) + a1 + a2 + ay, mdims=[n1, n2, ny, lab],
                            tag=tag, meta={"g": gid, "side": 0}))
            out.append(Case("merge", ty, fam, st, [n2, n1, ny], f(c2) + f(c1) + a2 + a1 + ay, mdims=[n2, n1, ny, lab],
                            tag=tag, meta={"g": gid, "side": 1}))
    return out


def sparse_table(rng, nx, ny, den):
    """dogmatic / nearly dogmatic rows with zero belief masses"""
    cs = []
    for _ in range(nx):
        k = G.composition(rng, den, ny + 1, zero_bias=5)
        if rng.chance(2, 3):
            k[rng.below(ny)] += k[ny]
            k[ny] = 0
        cs.append(([x / den for x in k[:ny]], k[ny] / den))
    return cs


def gen(rng, tier):
    out = []
    nrand = 2 if tier == "quick" else 60     # the exact model needs about a second per merged table
    gid = 0
    ex = EXAMPLE
    c1 = [([x / 16 for x in b], u / 16) for b, u in ex[0]]
    c2 = [([x / 16 for x in b], u / 16) for b, u in ex[1]]
    out += mk("f64", 2, 2, 3, c1, c2, [x / 16 for x in ex[2]], [x / 16 for x in ex[3]], [x / 16 for x in ex[4]],
              "property_example", gid)
    # the same tables in f32 (all numbers are sixteenths): the impossible cell's residue is a few 1e-8 there
    gid += 1
    out += mk("f32", 2, 2, 3, c1, c2, [x / 16 for x in ex[2]], [x / 16 for x in ex[3]], [x / 16 for x in ex[4]],
              "property_example", gid, fams=(("arr", 0),))
    # a second table pair with an impossible joint value (x0 excludes y1, z1 excludes y2, the rest cancels in the
    # product) whose cancellation residue is not an exact zero in f32 (about 1e-8, inside the f32 guard)
    ex2 = ([([6, 0, 10], 0), ([15, 1, 0], 0)], [([4, 4, 8], 0), ([2, 14, 0], 0)], [12, 4], [7, 9], [13, 2, 1])
    for ty in ("f32", "f64"):
        gid += 1
        out += mk(ty, 2, 2, 3, [([x / 16 for x in b], u / 16) for b, u in ex2[0]],
                  [([x / 16 for x in b], u / 16) for b, u in ex2[1]], [x / 16 for x in ex2[2]], [x / 16 for x in ex2[3]],
                  [x / 16 for x in ex2[4]], "impossible_cell_residue", gid, fams=(("arr", 0),))
    # rare events: a joint value (x1,z1) that is possible only under a rare y: its likelihoods P(x1z1|y) are small but
    # far above machine epsilon while their base-rate-weighted sum lies below it (exact dyadic tables)
    for ty in ("f64", "f32"):
        for rep in range(2 if tier == "quick" else 40):
            t = 2.0 ** -((24 if ty == "f64" else 10) + rng.below(2))
            s4 = 2.0 ** -4
            ay1 = 2.0 ** -((14 if ty == "f64" else 12) + rng.below(2))
            rows = lambda: [([1.0 - s4, s4], 0.0), ([0.0, 1.0], 0.0)]
            gid += 1
            out += mk(ty, 2, 2, 2, rows(), rows(), [1.0 - t, t], [1.0 - t, t], [1.0 - ay1, ay1], "rare_event", gid)
    for ty in ("f64", "f32"):
        for n1 in (2, 3):
            for n2 in (2, 3):
                for ny in (2, 3):
                    for i in range(nrand):
                        floaty = (i % 4 == 3) if tier != "quick" else (i == 1 and ty == "f64" and ny == 2)
                        den = rng.choice([8, 16, 64])
                        c1 = table(rng, ty, n1, ny, "float" if floaty else "grid")
                        c2 = table(rng, ty, n2, ny, "float" if floaty else "grid")
                        mkd = (lambda n: G.float_dist(rng, ty, n, True)) if floaty else (lambda n: G.grid_dist(rng, n, den, True))
                        gid += 1
                        out += mk(ty, n1, n2, ny, c1, c2, mkd(n1), mkd(n2), mkd(ny), "float" if floaty else "grid", gid)
                    # structured zeros: candidates filtered by the exact model
                    cands = []
                    for i in range(nrand * 4):
                        den = rng.choice([4, 8])
                        gid += 1
                        cands.append(mk(ty, n1, n2, ny, sparse_table(rng, n1, ny, den), sparse_table(rng, n2, ny, den),
                                        G.grid_dist(rng, n1, 8, True), G.grid_dist(rng, n2, 8, True),
                                        G.grid_dist(rng, ny, 8, True), "impossible_cell", gid))
                    probe = [cs[0] for cs in cands]
                    res, _ = core.run_model(probe)
                    kept = 0
                    for cs, r in zip(cands, res):
                        if r[0] != "OK":
                            continue
                        us = [r[1][k * (ny + 1) + ny] for k in range(n1 * n2)]
                        if any(u == 1 for u in us) and not all(u == 1 for u in us):
                            out += cs
                            kept += 1
                            if kept >= nrand:
                                break
    return out


def known(c, ri, rm, text):
    """KF2: an impossible joint value gets a confident opinion because the cancellation residue seen by the final
    inversion's all-zero test is a few machine epsilons, just above the eps guard.  The stages of merge_cond2 are
    replayed through the public API (harness op merge_probe) and the finding is recognised by the size of that
    residue for the failing cell: in (eps, 16 eps].  Anything else (a residue within the guard, a large value, NaN,
    another predicate) is not this finding."""
    if c.ty not in ("f64", "f32") or ri[0] != "OK":
        return None
    if "impossible joint value (cell" not in text:
        # a mismatch with the model on a case whose impossible cell is this finding is the same finding
        ps = predicates(c, ri, rm)
        if text.startswith("entry") and ps and all("impossible joint value (cell" in p_ and known(c, ri, rm, p_) for p_ in ps):
            return known(c, ri, rm, ps[0])
        return None
    k = int(text.split("(cell ")[1].split(")")[0])
    probe = Case("merge_probe", c.ty, "arr", "own", c.dims, c.nums, mop="-")
    r = core.run_impl([probe])[0]
    if r[0] != "OK" or k >= len(r[1]):
        return None
    v = r[1][k]
    e = num.FEPS[c.ty]
    if not (finite(v) and e < v <= 16 * e):
        return None
    for f in core.known_findings().get("findings", []):
        if f.get("id") == "KF2":
            return f["what_fails"]
    return None


def predicates(c, ri, rm):
    if ri[0] != "OK":
        return ["merge failed on well-formed tables: %s" % " ".join(map(str, ri[:2]))]
    vals = ri[1]
    if not all(finite(v) for v in vals):
        return ["merged table contains NaN / infinite entries"]
    n1, n2, ny = c.dims
    tol = TOL[c.ty] * (1 << 12)
    out = []
    for k in range(n1 * n2):
        b = fr(vals[k * (ny + 1):k * (ny + 1) + ny]); u = Fraction(vals[k * (ny + 1) + ny])
        e = wf_simplex_fail(b, u, tol)
        if e:
            out.append("merged conditional for cell %d is not well-formed: %s" % (k, e))
            break
    if rm[0] == "OK":
        for k in range(n1 * n2):
            # the guard makes the cell exactly vacuous or leaves it to rounding noise: no conditioning allowance
            if rm[1][k * (ny + 1) + ny] == 1 and abs(Fraction(vals[k * (ny + 1) + ny]) - 1) > TOL[c.ty] * 4:
                out.append("an impossible joint value (cell %d) received the confident opinion %r instead of the "
                           "vacuous one" % (k, vals[k * (ny + 1):(k + 1) * (ny + 1)]))
                break
    if rm[0] == "OK" and not out:
        # the property defines the merged table as the exact composition inversion - product - inversion, which is what
        # the model computes (merge_is_composition): a difference well beyond rounding is a failing input of the property
        d = [abs(Fraction(v) - q) for v, q in zip(vals, rm[1]) if q is not None]
        if d and max(d) > Fraction(1, 16):
            out.append("merged table differs from the exact composition of inversion, product and inversion by %.3g" % float(max(d)))
    return out


def scale(c, rm):
    return 1 << 10


def cross(cases, impl, model):
    out = []
    by = {}
    for i, c in enumerate(cases):
        if "g" not in c.meta:
            continue        # replayed inputs of the known findings
        by.setdefault((c.meta["g"], c.ty, c.fam), {})[(c.style, c.meta["side"])] = i
    for key, d in by.items():
        c0 = cases[next(iter(d.values()))]
        tol = float(TOL[c0.ty]) * (1 << 12)
        for st in ("own", "borrowed"):
            if (st, 0) in d and (st, 1) in d:
                i, j = d[(st, 0)], d[(st, 1)]
                if impl[i][0] == "OK" and impl[j][0] == "OK":
                    n1, n2, ny = cases[i].dims
                    x, y = impl[i][1], impl[j][1]
                    w = ny + 1
                    for p in range(n1):
                        for q in range(n2):
                            ca = x[(p * n2 + q) * w:(p * n2 + q + 1) * w]
                            cb = y[(q * n1 + p) * w:(q * n1 + p + 1) * w]
                            if any(abs(s - t) > tol for s, t in zip(ca, cb)):
                                out.append((i, "exchanging the parents does not transpose the merged table at cell (%d,%d): "
                                               "%r vs %r" % (p, q, ca, cb)))
                                break
                        else:
                            continue
                        break
        for side in (0, 1):
            if ("own", side) in d and ("borrowed", side) in d:
                i, j = d[("own", side)], d[("borrowed", side)]
                if impl[i][0] == "OK" and impl[j][0] == "OK" and \
                        [num.bits(c0.ty, v) for v in impl[i][1]] != [num.bits(c0.ty, v) for v in impl[j][1]]:
                    out.append((i, "borrowed conditionals give a different table than owned ones"))
    return out


def gen_q(rng, tier):
    """exact-rational cases: see qgen.py"""
    from . import qgen
    return qgen.merges(rng, tier)
