"""C20: equality and approximate equality of opinions are component-wise.
The implementation reports the opinion-level result of each notion together with the four
scalar results obtained from `approx` / `==` directly; the model (coq/Model/Eqv.v) recombines
the scalar results inside Coq and must reproduce the opinion-level result."""
import math
import os
import re
import subprocess
from fractions import Fraction

from .. import core, gen as G, num
from ..core import Report
from ..rng import Rng
from .c01 import specials

RULE = ("pairs of binomial opinions differing in every subset of {b,d,u,a} by 0, 1 ulp, tolerance/2, 2*tolerance or a "
        "large amount, for ==, abs_diff_eq, relative_eq and ulps_eq with tolerances from 0 to 1e-2 and max_ulps 0..8, "
        "f32/f64 (NaN, infinities and signed zeros included); pairs of multinomial opinions equal or differing in one "
        "cell (belief, uncertainty or base rate), sizes 1..5, 7 and 2-D / 3-D labelled arrays, all container families; "
        "non-trivial = the two operands differ")
COQ = core.COQ


def perturb(rng, ty, v, tol):
    r = rng.below(6)
    if r == 0:
        return v
    if r == 1:
        return num.next_up(ty, v, rng.choice([1, -1]))
    if r == 2:
        return num.rnd(ty, v + tol / 2 * rng.choice([1, -1]))
    if r == 3:
        return num.rnd(ty, v + 2 * tol * rng.choice([1, -1]))
    if r == 4:
        return num.rnd(ty, v + rng.choice([0.1, -0.1, 0.5]))
    return rng.choice(specials(ty))


def gen(rng, tier):
    cases = []
    nrand = 400 if tier == "quick" else 20000
    for ty in ("f64", "f32"):
        e = num.FEPS[ty]
        for i in range(nrand):
            x = G.grid_bop(rng, 64) if rng.chance(1, 2) else G.float_bop(rng, ty)
            tol = rng.choice([0.0, e, 4 * e, 1e-9, 1e-6, 1e-3, 1e-2])
            tol = num.rnd(ty, tol)
            rel = num.rnd(ty, rng.choice([e, 1e-6, 1e-3, 0.0]))
            ulps = rng.choice([0, 1, 4, 8])
            y = list(x)
            for k in range(4):
                if rng.chance(1, 3):
                    y[k] = perturb(rng, ty, x[k], tol if tol > 0 else e)
            cases.append(dict(op="beq", ty=ty, fam="bi", style="-", dims=[ulps], nums=x + y + [tol, rel], kind="bop"))
        # every component equal, but not all through the same branch of the notion: one (a zero against a value far
        # below the tolerance) only absolutely, another (a large value off by 3 ulps / by a relative 1e-4) only
        # relatively or in ulps - the conjunction of the component verdicts is true
        for i in range(40 if tier == "quick" else 2000):
            x = [0.0, 0.0, 0.0, 0.0]
            k, j = rng.choice([(0, 1), (1, 0), (0, 3), (3, 2), (1, 3), (3, 0)])
            big = rng.choice([0.75, 0.5, 0.625, 0.875])
            x[j] = big
            free = [t for t in range(3) if t not in (k, j)]
            if j < 3:
                x[free[0] if free else 2] = 1.0 - big        # keep b + d + u = 1 (the comparison does not need it)
            else:
                x[free[0]] = 1.0
            y = list(x)
            y[k] = num.rnd(ty, e / 128)
            if i % 2 == 0:
                y[j] = num.next_up(ty, big, rng.choice([3, -3]))
                rel = num.rnd(ty, e)
            else:
                y[j] = num.rnd(ty, big * (1.0 + 1e-4))
                rel = num.rnd(ty, 1e-3)
            cases.append(dict(op="beq", ty=ty, fam="bi", style="-", dims=[4], nums=x + y + [e, rel], kind="bop"))
        sizes = [("arr", n) for n in (1, 2, 3, 4, 5, 7)] + [("marr", n) for n in (1, 2, 3, 4, 5, 7)] + [("marrd", n) for n in (1, 2, 3, 4, 5, 7)] + \
                [("marr2", 4), ("marr2", 6), ("marrd2", 4), ("marrd2", 6), ("marrd3", 8)]
        for fam, n in sizes:
            # vacuous / dogmatic / ordinary opinions that differ in exactly one cell of the belief, in the uncertainty
            # only (ill-formed on purpose: == compares what is stored) or in exactly one base-rate cell
            for kind in ("vac", "dog", "part"):
                w = G.grid_opinion(rng, n, 64, kind)
                a = list(w[0]) + [w[1]] + list(w[2])
                for k in sorted({0, n - 1, n, n + 1, 2 * n}):
                    b = list(a)
                    b[k] = num.next_up(ty, b[k], 1) if rng.chance(1, 2) else num.rnd(ty, b[k] + 0.125)
                    cases.append(dict(op="eqv", ty=ty, fam=fam, style="-", dims=[n], nums=a + b, kind="mul"))
            for i in range(max(4, nrand // 40)):
                w = G.grid_opinion(rng, n, 64) if rng.chance(2, 3) else G.float_opinion(rng, ty, n, positive=False)
                a = list(w[0]) + [w[1]] + list(w[2])
                b = list(a)
                if i % 4 != 0:
                    k = rng.below(len(b))
                    b[k] = perturb(rng, ty, b[k], e)
                cases.append(dict(op="eqv", ty=ty, fam=fam, style="-", dims=[n], nums=a + b, kind="mul"))
    return cases


def impl_line(c):
    return "%s %s %s %s %d %s %d %s" % (c["op"], c["ty"], c["fam"], c["style"], len(c["dims"]),
                                        " ".join(map(str, c["dims"])), len(c["nums"]),
                                        " ".join("%x" % num.bits(c["ty"], x) for x in c["nums"]))


def run_coq(terms, chunk=1500):
    """one coqc call per <chunk> terms (a single list literal of some 10^4 terms overflows coqc's stack), in parallel"""
    from concurrent.futures import ThreadPoolExecutor
    d = os.path.join(core.SCRATCH, "c20cases")
    os.makedirs(d, exist_ok=True)

    def one(k):
        part = terms[k:k + chunk]
        p = os.path.join(d, "cases_%d_%d.v" % (os.getpid(), k))
        with open(p, "w") as f:
            f.write("From Coq Require Import List Bool.\nImport ListNotations.\nFrom SL Require Import Model.Eqv.\n"
                    "Definition T := true. Definition F := false.\n"
                    "Definition leq := @list_eqb bool Bool.eqb.\n"
                    "Definition seq_ := @simplex_eqb bool Bool.eqb.\nDefinition oeq := @opinion_eqb bool Bool.eqb.\n")
            f.write("Definition answers : list bool :=\n  [ %s ].\nEval vm_compute in answers.\n" % ";\n    ".join(part))
        r = subprocess.run(["coqc", "-noglob", "-Q", COQ, "SL", p], stdout=subprocess.PIPE, stderr=subprocess.STDOUT,
                           timeout=3000, cwd=d)
        out = r.stdout.decode()
        for ext in ("", "o", "ok", "os"):
            if os.path.exists(p + ext):
                os.unlink(p + ext)
        if r.returncode != 0:
            raise RuntimeError("coqc failed: " + out[-2000:])
        body = out[out.index("="):]
        got = [t == "true" for t in re.findall(r"\b(true|false)\b", body)]
        if len(got) != len(part):
            raise RuntimeError("coqc returned %d answers for %d terms" % (len(got), len(part)))
        return got
    with ThreadPoolExecutor(max_workers=8) as ex:
        parts = list(ex.map(one, range(0, len(terms), chunk)))
    return [x for part in parts for x in part]


def bl(s):
    return "[" + "; ".join("T" if ch == "1" else "F" for ch in s) + "]"


def main(pid, tier, seed, replay):
    rep = Report(pid, tier, seed)
    proof = core.check_proofs(pid)
    try:
        core.build_harness()
    except core.BuildError as ex:
        rep.violation("correspondence", "build failed: " + str(ex)[:2000], {"build_error": str(ex)[-4000:]})
        return rep.finish(proof, {}, RULE)
    if replay:
        import json
        cases = [json.load(open(replay))["replay"]["case"]]
    else:
        cases = gen(Rng(seed), tier)
    lines = [impl_line(c) for c in cases]
    impl = core.run_impl_raw(lines)
    terms = []
    plan = []   # (case index, label, implementation's opinion-level result)
    streams = {}
    for i, (c, ans) in enumerate(zip(cases, impl)):
        st = streams.setdefault(c["kind"], {"cases": 0, "distinct": 0, "mismatch": 0, "predicate_failures": 0})
        st["cases"] += 1
        n = len(c["nums"])
        if c["kind"] == "bop":
            differs = [num.bits(c["ty"], p) != num.bits(c["ty"], q) for p, q in zip(c["nums"][:4], c["nums"][4:8])]
        else:
            h = n // 2
            differs = [num.bits(c["ty"], p) != num.bits(c["ty"], q) for p, q in zip(c["nums"][:h], c["nums"][h:])]
        if any(differs):
            st["distinct"] += 1
        if not ans.startswith("OK"):
            rep.violation("correspondence", "comparison failed to run: " + ans, {"case": c, "impl_line": lines[i]})
            continue
        if c["kind"] == "bop":
            f = dict(t.split("=") for t in ans.split()[1:])
            for notion in ("eq", "abs", "rel", "ulps"):
                whole, comps = f[notion].split(":")
                terms.append("bop_rel4 %s" % " ".join("T" if ch == "1" else "F" for ch in comps))
                plan.append((i, notion, whole == "1", comps))
            # symmetry / reflexivity on finite operands
            vals = c["nums"][:8]
            finite = all(v == v and abs(v) != math.inf for v in vals)
            sym = f["sym"]
            wholes = "".join(f[k].split(":")[0] for k in ("eq", "abs", "rel", "ulps"))
            if sym != wholes:
                st["predicate_failures"] += 1
                rep.violation("predicate", "a comparison is not symmetric: a~b %s, b~a %s (==, abs, rel, ulps)" % (wholes, sym),
                              {"case": c, "impl_line": lines[i], "implementation": ans})
            if finite and f["refl"] != "1111" and c["nums"][8] >= 0 and c["nums"][9] >= 0:
                st["predicate_failures"] += 1
                rep.violation("predicate", "a comparison is not reflexive on a finite opinion: %s" % f["refl"],
                              {"case": c, "impl_line": lines[i], "implementation": ans})
        else:
            toks = ans.split()[1:]
            fl = ["1" if num.from_bits(c["ty"], int(t, 16)) == 1.0 else "0" for t in toks]
            nn = c["dims"][0]
            ab, ba, aa, sab, sba, rab = fl[:6]
            cells = "".join(fl[6:])
            bcells, ucell, acells = cells[:nn], cells[nn], cells[nn + 1:]
            ones = lambda k: "[" + "; ".join(["T"] * k) + "]"
            terms.append("oeq (%s, %s, %s) (%s, T, %s)" % (bl(bcells), "T" if ucell == "1" else "F", bl(acells), ones(nn), ones(nn)))
            plan.append((i, "opinion ==", ab == "1", cells))
            terms.append("seq_ (%s, %s) (%s, T)" % (bl(bcells), "T" if ucell == "1" else "F", ones(nn)))
            plan.append((i, "simplex ==", sab == "1", cells))
            terms.append("leq %s %s" % (bl(acells), ones(nn)))
            plan.append((i, "base rate ==", rab == "1", cells))
            if ab != ba or sab != sba:
                st["predicate_failures"] += 1
                rep.violation("predicate", "== is not symmetric", {"case": c, "impl_line": lines[i], "implementation": ans})
            finite = all(v == v for v in c["nums"][:n // 2])
            if finite and aa != "1":
                st["predicate_failures"] += 1
                rep.violation("predicate", "an opinion without NaN is not equal to itself",
                              {"case": c, "impl_line": lines[i], "implementation": ans})
        if len(rep.samples) < 6 and i % 131 == 0:
            rep.samples.append({"case": lines[i], "implementation": ans[:160]})
    model = run_coq(terms) if terms else []
    for (i, label, got, comps), want in zip(plan, model):
        c = cases[i]
        st = streams[c["kind"]]
        if got != want:
            st["predicate_failures"] += 1
            rep.violation("predicate", "%s says %s although the component comparisons are %s (the conjunction is %s)" % (
                label, got, comps, want), {"case": c, "impl_line": lines[i], "implementation": impl[i]})
    rep.assumptions = ["the scalar relations (==, abs_diff_eq, relative_eq, ulps_eq of the approx crate) are taken from the "
                       "implementation run itself; the property is about how opinions combine them"]
    rep.cov["model_evaluations"] = len(terms)
    return rep.finish(proof, streams, RULE)
