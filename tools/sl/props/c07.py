"""C07: algebraic laws of fusion; folds in any order."""
from fractions import Fraction

from .. import gen as G, num
from ..core import Case, TOL, finite
from .common import flat_op, fr, split_op
from .c02 import FAMS, OPS

RULE = ("operand pairs on dyadic grids and random floats for commutativity (both orders), self-fusion for idempotence, "
        "fusion with a vacuous opinion for neutrality, uncertainty bounds; sequences of 2..6 non-dogmatic opinions "
        "sharing a base rate folded by aleatory cumulative fusion in random permutations and random parenthesisations "
        "through fuse (owned / borrowed) and fuse_assign - every order must give the model's single answer; domain sizes "
        "2..4, all container families, f32/f64; non-trivial = no vacuous operand")
NONE_KINDS = ()


def trivial(c):
    n = c.mdims[0]
    return c.nums[n] == 1.0


def rand_tree(rng, leaves):
    """random parenthesisation in postfix over the given leaf order"""
    if len(leaves) == 1:
        return [leaves[0]]
    k = 1 + rng.below(len(leaves) - 1)
    return rand_tree(rng, leaves[:k]) + rand_tree(rng, leaves[k:]) + [99]


def leaf_order(toks):
    return [t for t in toks if t != 99]


def gen(rng, tier):
    out = []
    nrand = 40 if tier == "quick" else 2500
    gid = 0
    for ty in ("f64", "f32"):
        for n in (2, 3, 4, 5, 7):
            for i in range(nrand if n <= 4 else max(8, nrand // 4)):
                den = rng.choice([8, 16, 64])
                floaty = i % 4 == 3
                w1 = G.float_opinion(rng, ty, n, positive=False) if floaty else G.grid_opinion(rng, n, den)
                w2 = G.float_opinion(rng, ty, n, positive=False) if floaty else G.grid_opinion(rng, n, den)
                tag = "float" if floaty else "grid"
                gid += 1
                for opk in range(4):
                    fam = rng.choice(FAMS)
                    st = rng.choice(["own", "ref", "assign"])
                    m = {"g": gid, "law": "comm", "opk": opk}
                    out.append(Case("fuse", ty, fam, st, [n, opk, 0], flat_op(w1) + flat_op(w2), tag=tag, meta=dict(m, side=0)))
                    out.append(Case("fuse", ty, fam, st, [n, opk, 0], flat_op(w2) + flat_op(w1), tag=tag, meta=dict(m, side=1)))
                # idempotence (Avg, Wgh): the same opinion twice, as two objects and as one shared object
                for opk in (2, 3):
                    out.append(Case("fuse", ty, rng.choice(FAMS), "own", [n, opk, 0], flat_op(w1) + flat_op(w1),
                                    tag=tag, meta={"law": "idem"}))
                    out.append(Case("fuse", ty, rng.choice(FAMS), "ref", [n, opk, 1], flat_op(w1) + flat_op(w1),
                                    tag=tag, meta={"law": "idem"}))
                    out.append(Case("fuse", ty, rng.choice(FAMS), rng.choice(["self", "self_ref"]), [n, opk, 1],
                                    flat_op(w1) + flat_op(w1), tag=tag, meta={"law": "idem"}))
                # vacuous operand is neutral (ACm, Wgh)
                vac = ([0.0] * n, 1.0, w2[2])
                for opk in (0, 3):
                    out.append(Case("fuse", ty, rng.choice(FAMS), rng.choice(["own", "ref", "assign"]), [n, opk, 0],
                                    flat_op(w1) + flat_op(vac), tag=tag, meta={"law": "neutral", "which": 0}))
                    out.append(Case("fuse", ty, rng.choice(FAMS), rng.choice(["own", "ref"]), [n, opk, 0],
                                    flat_op(vac) + flat_op(w1), tag=tag, meta={"law": "neutral", "which": 1}))
            # folds in any order (ACm, shared base rate, non-dogmatic)
            for i in range(nrand // 2 + nrand // 4):
                k = 2 + rng.below(5)
                den = rng.choice([8, 16, 64])
                a = G.grid_dist(rng, n, den)
                ws = []
                confident = i >= nrand // 2
                if confident:
                    k = 3 + rng.below(2)
                for _ in range(k):
                    if confident:
                        # very confident, not dogmatic: u a few ulps of 1 wide.  The uncertainty of an intermediate
                        # result is its weight in the next fusion, so its relative accuracy matters
                        # (exactly well-formed dyadic operands: a defect of well-formedness of 1 ulp would be a
                        # sizeable fraction of u and the laws do not hold for such operands)
                        # every partial fusion keeps an uncertainty of at least 8 machine epsilons: below one epsilon an
                        # opinion counts as dogmatic and the order of folding legitimately matters
                        e = (rng.choice([45, 46, 47, 48]) if ty == "f64" else rng.choice([16, 17, 18]))
                        uu = (2 + rng.below(14)) * 2.0 ** -e
                        kk = G.composition(rng, 8, n)
                        bb = [x / 8.0 for x in kk]
                        j = rng.choice([t for t in range(n) if kk[t] > 0])
                        bb[j] -= uu
                        s = (bb, uu)
                    elif i % 3 == 2:
                        s = G.float_simplex(rng, ty, n, u=0.05 + 0.9 * rng.unit())
                    else:
                        s = G.grid_simplex(rng, n, den, "part")
                    ws.append((s[0], s[1], a))
                gid += 1
                nvar = 3 if tier == "quick" else 8
                for v in range(nvar):
                    order = list(range(k)) if v == 0 else rng.shuffle(list(range(k)))
                    toks = rand_tree(rng, order) if v > 0 else sum(([j] if j == 0 else [j, 99] for j in range(k)), [])
                    lo = leaf_order(toks)
                    nums = sum((flat_op(w) for w in ws), [])
                    mnums = sum((flat_op(ws[j]) for j in lo), [])
                    c = Case("ftree", ty, rng.choice(FAMS), rng.choice(["own", "ref", "assign"]),
                             [n, 0, k] + toks, nums, mop="fold", mdims=[n, 0, k], tag="fold_confident" if confident else "fold_order",
                             meta={"g": gid, "law": "fold"})
                    c.meta["model_nums"] = mnums
                    out.append(c)
    return out


def predicates(c, ri, rm):
    law = c.meta.get("law")
    if ri[0] != "OK":
        return ["fusion failed: %s" % (ri[:2],)]
    vals = ri[1]
    if not all(finite(v) for v in vals):
        return ["non-finite result"]
    n = c.mdims[0]
    opk = c.mdims[1]
    tol = TOL[c.ty] * 4
    out = []
    got = fr(vals)
    if law == "idem":
        want = fr(c.nums[:2 * n + 1])
        if any(abs(g - w) > tol for g, w in zip(got, want)):
            out.append("%s is not idempotent: %r" % (OPS[opk], vals))
    elif law == "neutral":
        w = fr(c.nums[:2 * n + 1]) if c.meta["which"] == 0 else fr(c.nums[2 * n + 1:])
        if w[n] < 1 - 2 * num.EPS[c.ty] and any(abs(g - x) > tol for g, x in zip(got, w)):
            out.append("%s with a vacuous opinion changed the other operand: %r" % (OPS[opk], vals))
    if law in ("comm", "idem", "neutral"):
        u1, u2, u = Fraction(c.nums[n]), Fraction(c.nums[3 * n + 1]), got[n]
        if opk == 0 and u > min(u1, u2) + tol:
            out.append("cumulative fusion left more uncertainty than the less uncertain operand had")
        if opk in (2, 3) and not (min(u1, u2) - tol <= u <= max(u1, u2) + tol):
            out.append("%s uncertainty is not between the operands' uncertainties" % OPS[opk])
    return out


def cross(cases, impl, model):
    out = []
    by = {}
    for i, c in enumerate(cases):
        if c.meta.get("law") in ("comm", "fold"):
            by.setdefault((c.meta["g"], c.meta.get("opk"), c.meta["law"]), []).append(i)
    for key, idx in by.items():
        rs = [impl[i] for i in idx]
        if any(r[0] != "OK" for r in rs):
            continue
        c0 = cases[idx[0]]
        tol = float(TOL[c0.ty]) * 4
        if key[2] == "comm":
            i, j = idx[0], idx[1]
            if any(abs(p - q) > tol for p, q in zip(impl[i][1], impl[j][1])):
                out.append((i, "%s is not commutative: %r vs %r" % (OPS[key[1]], impl[i][1], impl[j][1])))
        else:
            base = rs[0][1]
            for i, r in zip(idx[1:], rs[1:]):
                if any(abs(p - q) > tol * 8 for p, q in zip(base, r[1])):
                    out.append((i, "folding the same opinions in another order / grouping gives a different opinion: "
                                   "%r vs %r" % (base, r[1])))
                    break
    return out
