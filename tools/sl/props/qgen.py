"""Exact-rational cases (element type "q", harness/src/rat.rs) built directly from rational operands: exactly
well-formed opinions with entries on both sides of every tolerance test and non-dyadic values.  Decided by exact
equality with the extracted model; the property predicates of the module are evaluated as well where they apply."""
from fractions import Fraction

from .. import gen as G
from ..core import Case
from .common import flat_op, flat_sx

FAMS1 = ["arr", "marr", "marrd", "marrdn"]


def q_table(rng, nx, ny):
    return [G.q_simplex(rng, ny) for _ in range(nx)]


def unary(rng, tier, ops=("proj", "maxu", "umax")):
    out = []
    for n in (1, 2, 3, 4):
        for _ in range(25 if tier == "quick" else 600):
            b, u, a = G.q_opinion(rng, n)
            for op in ops:
                out.append(Case(op, "q", rng.choice(FAMS1), rng.choice(["own", "ref", "spx"]) if op == "proj" else "spx",
                                [n], b + [u] + a, tag="q:exact_lattice"))
    return out


def fusion(rng, tier, with_simplex=True):
    out = []
    for n in (2, 3, 4):
        for _ in range(30 if tier == "quick" else 800):
            w1, w2 = G.q_opinion(rng, n), G.q_opinion(rng, n)
            if rng.chance(1, 4):
                w2 = (w2[0], w2[1], w1[2])
            for opk in range(4):
                st = rng.choice(["own", "ref", "assign", "assign_ref"])
                out.append(Case("fuse", "q", rng.choice(FAMS1), st, [n, opk, 0], flat_op(w1) + flat_op(w2), tag="q:exact_lattice"))
                if with_simplex and rng.chance(1, 3):
                    out.append(Case("fuse_s", "q", rng.choice(FAMS1), rng.choice(["own", "ref", "assign"]), [n, opk],
                                    flat_op(w1) + flat_sx((w2[0], w2[1])), tag="q:exact_lattice"))
                    if opk != 1:
                        out.append(Case("fuse_ss", "q", rng.choice(FAMS1), rng.choice(["own", "assign"]), [n, opk],
                                        flat_sx((w1[0], w1[1])) + flat_sx((w2[0], w2[1])), tag="q:exact_lattice"))
    return out


def discount(rng, tier):
    out = []
    for n in (1, 2, 3):
        for _ in range(30 if tier == "quick" else 600):
            b, u = G.q_simplex(rng, n)
            k = 1 + rng.below(3)
            ts = [G.q_unit(rng) for _ in range(k)]
            fams = ["marr", "marrd"] + (["marrdn"] if n in (2, 3) else [])
            out.append(Case("disc", "q", rng.choice(fams), rng.choice(["spx", "own", "ref"]), [n, k], b + [u] + ts,
                            mop="discchain", tag="q:exact_lattice"))
    return out


def conditionals(rng, tier, ops=("mbr", "deduce", "deduce_with", "inverse", "abduce", "abduce_with")):
    out = []
    for nx in (2, 3):
        for ny in (2, 3):
            for _ in range(12 if tier == "quick" else 300):
                cs = q_table(rng, nx, ny)
                cn = sum((flat_sx(c) for c in cs), [])
                fam = rng.choice(FAMS1)
                w = G.q_opinion(rng, nx)
                ax = w[2]
                if "mbr" in ops:
                    out.append(Case("mbr", "q", fam, "-", [nx, ny], ax + cn, tag="q:exact_lattice"))
                if "deduce" in ops:
                    out.append(Case("deduce", "q", fam, rng.choice(["own", "ref", "borrowed"]), [nx, ny], flat_op(w) + cn,
                                    tag="q:exact_lattice"))
                if "deduce_with" in ops:
                    out.append(Case("deduce_with", "q", fam, rng.choice(["own", "ref", "borrowed"]), [nx, ny],
                                    flat_op(w) + cn + G.q_dist(rng, ny, True), tag="q:exact_lattice"))
                axp, ayp = G.q_dist(rng, nx, True), G.q_dist(rng, ny, True)
                wy = G.q_simplex(rng, ny)
                if "inverse" in ops:
                    out.append(Case("inverse", "q", fam, "-", [nx, ny], cn + axp + ayp, tag="q:exact_lattice"))
                if "abduce" in ops:
                    out.append(Case("abduce", "q", fam, rng.choice(["spx", "ref", "own"]), [nx, ny], flat_sx(wy) + cn + axp,
                                    tag="q:exact_lattice"))
                if "abduce_with" in ops:
                    out.append(Case("abduce_with", "q", fam, rng.choice(["spx", "ref", "own"]), [nx, ny], flat_sx(wy) + cn + axp + ayp,
                                    tag="q:exact_lattice"))
    return out


def products(rng, tier):
    out = []
    for sizes in [(2, 2), (2, 3), (3, 2), (3, 3), (2, 2, 2), (2, 3, 2), (3, 2, 3)]:
        for _ in range(10 if tier == "quick" else 300):
            ws = [G.q_opinion(rng, n) for n in sizes]
            nums = sum((flat_op(w) for w in ws), [])
            for fam, lab in [("arr", 0), ("marrd", 1)]:
                out.append(Case("prod%d" % len(sizes), "q", fam, rng.choice(["own", "ref"]), list(sizes), nums,
                                mdims=list(sizes) + [lab], tag="q:exact_lattice"))
    return out


def merges(rng, tier):
    out = []
    for (n1, n2, ny) in [(2, 2, 2), (2, 3, 2), (3, 2, 3), (2, 2, 3)]:
        for _ in range(3 if tier == "quick" else 60):
            c1, c2 = q_table(rng, n1, ny), q_table(rng, n2, ny)
            f = lambda cs: sum((flat_sx(c) for c in cs), [])
            nums = f(c1) + f(c2) + G.q_dist(rng, n1, True) + G.q_dist(rng, n2, True) + G.q_dist(rng, ny, True)
            for fam, lab in [("arr", 0), ("marrd", 1)]:
                out.append(Case("merge", "q", fam, rng.choice(["own", "borrowed"]), [n1, n2, ny], nums,
                                mdims=[n1, n2, ny, lab], tag="q:exact_lattice"))
    return out
