"""Shared helpers of the property modules."""
from fractions import Fraction

from .. import gen as G, num
from ..core import TOL, finite


def flat_op(w):
    return list(w[0]) + [w[1]] + list(w[2])


def flat_sx(s):
    return list(s[0]) + [s[1]]


def fr(xs):
    return [Fraction(x) for x in xs]


def split_op(nums, n, off=0):
    """(b, u, a, next offset) as Fractions"""
    b = fr(nums[off:off + n])
    u = Fraction(nums[off + n])
    a = fr(nums[off + n + 1:off + 2 * n + 1])
    return b, u, a, off + 2 * n + 1


def split_sx(nums, n, off=0):
    b = fr(nums[off:off + n])
    u = Fraction(nums[off + n])
    return b, u, off + n + 1


def wf_simplex_fail(b, u, tol):
    if any(x < -tol for x in b) or u < -tol or u > 1 + tol:
        return "a mass lies outside [0,1]"
    if abs(sum(b) + u - 1) > tol:
        return "masses sum to %s" % float(sum(b) + u)
    return None


def wf_dist_fail(a, tol):
    if any(x < -tol for x in a):
        return "a base rate is negative"
    if abs(sum(a) - 1) > tol:
        return "base rates sum to %s" % float(sum(a))
    return None


def known_product_rounding(c, ri):
    """The known finding of C19/C06 (KF1): an unlabelled product with >= 9 cells rejects its own,
    correctly rounded result (sum(b) + u or sum(a) within 64 ulps of 1)."""
    if c.op not in ("prod2", "prod3") or c.fam != "arr" or ri[0] != "PANIC":
        return None
    cells = 1
    for d in c.dims:
        cells *= d
    if cells < 9:
        return None
    msg, rej = ri[1], ri[2]
    if rej is None or not ("sum(b) + u" in msg or "sum(a)" in msg):
        return None
    if abs(rej - 1.0) > 64 * num.FEPS[c.ty]:
        return None
    label = "sum(b) + u" if "sum(b) + u" in msg else "sum(a)"
    return "unlabelled %s over %d cells rejects its own result: %s = 1 fails by rounding only (<= 64 ulps)" % (
        "Product2" if c.op == "prod2" else "Product3", cells, label)


def qtol(ty, kappa=1, mult=4):
    """tolerance for a predicate on a quantity whose computation divides by 1/kappa"""
    return TOL[ty] * mult + (256 * num.EPS[ty] * kappa if kappa > 1 else 0)
