"""C19: self-validating operators never reject a correctly rounded result."""
from fractions import Fraction

from .. import gen as G, num
from ..core import Case, TOL, finite
from .common import flat_op, known_product_rounding
from . import c14

RULE = ("every binomial operator (mul, comul, cfuse, afuse, wfuse, deduce, trans_unc, trans_opp, trans_bsr) on well-formed "
        "operands inside its documented domain: the 1/8 grid (exhaustive pairs in the thorough tier, sampled in quick), "
        "random 1/64 grids, and random floats stratified towards every vanishing divisor (u -> 0 and 1, base rates -> 0 "
        "and 1, P(x) -> 0 and 1, a_y -> 0 and 1, equal conditionals); unlabelled products 2x2 .. 4x4 and 2x2x2 .. 3x3x3 "
        "on grids and floats; f32/f64; every failure is classified by the rejected quantity (verification hook) and its "
        "distance from 1 / from [0,1]; non-trivial = no vacuous operand")
NONE_KINDS = ("NONE", "PANIC", "ERR")


def trivial(c):
    if c.fam == "bi":
        return c.nums[2] == 1.0
    return c.nums[c.dims[0]] == 1.0


def near(rng, ty, what):
    """a representable value close to 0 or 1"""
    t = num.rnd(ty, 10.0 ** -(1 + rng.below(12 if ty == "f64" else 5)) * (0.5 + rng.unit()))
    return t if what == 0 else num.rnd(ty, 1.0 - t)


def strat_bop(rng, ty):
    r = rng.below(6)
    if r < 2:
        return G.float_bop(rng, ty)
    if r == 2:   # u near 1 or 0
        s = G.simplex_with_u(rng, ty, 2, near(rng, ty, rng.below(2)))
        return [s[0][0], s[0][1], s[1], num.rnd(ty, rng.unit())]
    x = G.float_bop(rng, ty)
    x[3] = near(rng, ty, rng.below(2))
    return x


def bin_cases(rng, ty, x, y, tag):
    out = []
    fx, fy = [Fraction(v) for v in x], [Fraction(v) for v in y]
    if fx[3] * fy[3] != 1:
        out.append(Case("bmul", ty, "bi", "-", [], x + y, tag=tag))
    if fx[3] + fy[3] - fx[3] * fy[3] != 0:
        out.append(Case("bcomul", ty, "bi", "-", [], x + y, tag=tag))
    if not (fx[2] == 0 and fy[2] == 0):
        out.append(Case("bcfuse", ty, "bi", "-", [], x + y, tag=tag))
    g = rng.choice([0.5, 0.0, 1.0, rng.below(9) / 8.0])
    out.append(Case("bafuse", ty, "bi", "-", [], x + y + [g], tag=tag))
    out.append(Case("bwfuse", ty, "bi", "-", [], x + y + [g], tag=tag))
    return out


def gen(rng, tier):
    out = []
    grid8 = G.all_grid_bops(8)
    for ty in ("f64", "f32"):
        if tier == "thorough" and ty == "f64":
            for x in grid8:
                for y in grid8:
                    out += bin_cases(rng, ty, x, y, "grid8")
        else:
            for _ in range(500 if tier == "quick" else 40000):
                out += bin_cases(rng, ty, rng.choice(grid8), rng.choice(grid8), "grid8")
        for _ in range(300 if tier == "quick" else 30000):
            out += bin_cases(rng, ty, G.grid_bop(rng, 64), G.grid_bop(rng, 64), "grid64")
        for _ in range(600 if tier == "quick" else 60000):
            out += bin_cases(rng, ty, strat_bop(rng, ty), strat_bop(rng, ty), "float")
        # exactly well-formed dyadic operands with uncertainties below machine epsilon but not zero
        for _ in range(60 if tier == "quick" else 3000):
            def tiny_u_bop():
                e = (rng.choice([53, 54, 55, 60, 1030, 1060]) if ty == "f64" else rng.choice([24, 25, 26, 30, 130, 140]))
                uu = 2.0 ** -e
                kk = G.composition(rng, 8, 2, zero_bias=0)
                bb = [v / 8.0 for v in kk]
                j = rng.choice([t for t in range(2) if kk[t] > 0])
                bb[j] -= uu
                return [bb[0], bb[1], uu, rng.below(9) / 8.0]
            x, y = tiny_u_bop(), rng.choice([tiny_u_bop(), G.grid_bop(rng, 8)])
            out += bin_cases(rng, ty, x, y, "sub_epsilon_uncertainty")
            out += bin_cases(rng, ty, y, x, "sub_epsilon_uncertainty")
        # base rates at the bottom of the exponent range (subnormal, exactly representable)
        for _ in range(20 if tier == "quick" else 1000):
            t = 2.0 ** -(rng.choice([1030, 1040, 1060]) if ty == "f64" else rng.choice([130, 135, 140]))
            x, y = G.grid_bop(rng, 8), G.grid_bop(rng, 8)
            x[3], y[3] = t, rng.choice([0.0, t, 2 * t])
            out += bin_cases(rng, ty, x, y, "subnormal_base_rate")
        # discounts
        for _ in range(300 if tier == "quick" else 20000):
            grid = rng.chance(1, 2)
            x = G.grid_bop(rng, 64) if grid else strat_bop(rng, ty)
            t = rng.below(65) / 64.0 if grid else num.rnd(ty, rng.unit())
            out.append(Case("btunc", ty, "bi", "-", [], x + [t], tag="grid64" if grid else "float"))
            out.append(Case("btbsr", ty, "bi", "-", [], x + [t], tag="grid64" if grid else "float"))
            if grid:
                k = G.composition(rng, 64, 3)
                tt, ss = k[0] / 64.0, k[1] / 64.0
            else:
                tt = num.rnd(ty, rng.unit())
                ss = num.rnd(ty, rng.unit() * (1.0 - tt))
                if num.rnd(ty, num.rnd(ty, 1.0 - tt) - ss) < 0:
                    ss = 0.0
            out.append(Case("btopp", ty, "bi", "-", [], x + [tt, ss], tag="grid64" if grid else "float"))
        # deduction in its open domain
        k = 0
        n = 800 if tier == "quick" else 100000
        while k < n:
            r = rng.below(10)
            if r < 6:
                den = rng.choice([8, 8, 64])
                tag = "grid%d" % den
                x = G.grid_bop(rng, den, a_open=True)
                c0, c1 = G.grid_simplex(rng, 2, den), G.grid_simplex(rng, 2, den)
                ay = (1 + rng.below(den - 1)) / den
            else:
                tag = "float"
                x = strat_bop(rng, ty)
                c0 = G.float_simplex(rng, ty, 2)
                c1 = G.float_simplex(rng, ty, 2) if rng.chance(3, 4) else c0
                ay = near(rng, ty, rng.below(2)) if rng.chance(1, 3) else num.rnd(ty, 0.02 + 0.96 * rng.unit())
            if not c14.in_domain(x, ay):
                continue
            k += 1
            out.append(Case("bdeduce", ty, "bi", "-", [], x + c0[0] + [c0[1]] + c1[0] + [c1[1]] + [ay], tag=tag))
        # conditionals tied in the component bounding K (K = 0; the threshold comparison is decided by rounding)
        for i in range(800 if tier == "quick" else 60000):
            nums = c14.tied_conditionals(rng, ty, i)
            if nums is not None:
                out.append(Case("bdeduce", ty, "bi", "-", [], nums, tag="tied_conditionals"))
        # unlabelled products
        for dims in ([2, 2], [2, 3], [3, 3], [3, 4], [4, 4], [2, 2, 2], [2, 3, 2], [3, 3, 2], [3, 3, 3]):
            for i in range(60 if tier == "quick" else 2500):
                grid = i % 2 == 0
                den = rng.choice([8, 64])
                ws = [G.grid_opinion(rng, n, den) if grid else G.float_opinion(rng, ty, n, positive=False) for n in dims]
                tag = ("grid" if grid else "float") + "_product"
                if not grid and i % 6 == 1:
                    # all factors dogmatic with arbitrary float beliefs: the bound (P - b0 b1 ..)/a is an exact zero only
                    # if the joint projection and the product of the beliefs are rounded alike
                    ws = [G.float_opinion(rng, ty, n, u=0.0, positive=rng.chance(1, 2)) for n in dims]
                    tag = "dogmatic_float_product"
                if not grid and i % 6 == 3 and max(dims) >= 3:
                    # dogmatic factors whose belief masses add up to the float just above 1: every joint projection lies
                    # a rounding residue below the product of the beliefs, the smallest quotient is -(b/a) residue < 0
                    ws = [G.overfull_dogmatic(rng, ty, n) if n >= 3 else G.float_opinion(rng, ty, n, u=0.0) for n in dims]
                    tag = "overfull_dogmatic_product"
                nums = sum((flat_op(w) for w in ws), [])
                op = "prod2" if len(dims) == 2 else "prod3"
                out.append(Case(op, ty, "arr", rng.choice(["own", "ref"]), dims, nums, mdims=dims + [0], tag=tag))
    return out


def known(c, ri, rm, text):
    return known_product_rounding(c, ri)


def classify(c, ri):
    msg, rej = ri[1], ri[2] if len(ri) > 2 else None
    if rej is None:
        return "failure: %s" % msg
    if "= 1" in msg:
        dist = abs(rej - 1.0)
        what = "rounding residue" if dist <= 1e-9 else "genuinely ill-formed value"
        return "%s (rejected %r, |value - 1| = %.3g = %.1f ulps: %s)" % (msg, rej, dist, dist / num.FEPS[c.ty], what)
    dist = max(0.0 - rej, rej - 1.0, 0.0) if rej == rej else float("nan")
    what = "rounding residue" if dist <= 1e-9 else "genuinely ill-formed value"
    return "%s (rejected %r, distance from [0,1] %.3g: %s)" % (msg, rej, dist, what)


def predicates(c, ri, rm):
    if ri[0] == "OK":
        return []
    if ri[0] == "BAD":
        return []
    exact = "the exact result is well-formed" if rm[0] == "OK" else "the model also fails"
    grid = c.tag.startswith("grid")
    return ["%s failed on %s operands inside its domain although %s: %s" % (
        c.op, "exactly representable (dyadic)" if grid else "well-formed", exact, classify(c, ri))]


def compare(c, ri, rm):
    from .. import core
    return core.compare(c, ri, rm, scale=scale(c, rm), none_kinds=NONE_KINDS)


def scale(c, rm):
    if c.op == "bdeduce":
        # the operands are stratified towards vanishing divisors: the quotient K is conditioned like the reciprocal of
        # P(x) a_y, (1 - P(x)) a_y, ... (down to 1e-25 here); this property is about rejection, accuracy is C14's
        bx, dx, ux, ax = [Fraction(v) for v in c.nums[:4]]
        ay = Fraction(c.nums[10])
        px = bx + ax * ux
        ds = [px * ay, (1 - px) * ay, px * (1 - ay), (1 - px) * (1 - ay)]
        if all(d > 0 for d in ds):
            return max(1 << 20, max(1 / d for d in ds))
    return 1 << 20
