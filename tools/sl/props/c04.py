"""C04: deduction."""
from fractions import Fraction

from .. import gen as G, num
from ..core import Case, TOL, finite
from .common import flat_op, flat_sx, fr, split_op, split_sx, wf_simplex_fail
from .c08 import table, exact_mbr, special_table

RULE = ("well-formed antecedents (any base rate, zeros included; absolute and vacuous ones mixed in) x conditional "
        "tables with at least one informative conditional of positive base rate, |X| 2..4 and 2-D product antecedents "
        "(2x3, 3x2, 2x2), |Y| 2..3, dyadic grids and random floats, plus the tables at the edge of the marginal base rate's "
        "domain (all vacuous, informative only at zero base rates, tiny and extremely tiny total weight); deduce and deduce_with; every container family, "
        "owned / borrowed antecedent and borrowed conditional tables, f32/f64; non-trivial = antecedent neither vacuous "
        "nor absolute")
NONE_KINDS = ("NONE",)
FAMS = ["arr", "marr", "marrd", "marrdn"]


def trivial(c):
    nx = c.mdims[0]
    u = c.nums[nx]
    return u == 1.0 or (u == 0.0 and max(c.nums[:nx]) == 1.0)


def gen(rng, tier):
    out = []
    nrand = 40 if tier == "quick" else 2500
    shapes = [((nx,), ny) for nx in (2, 3, 4) for ny in (2, 3)] + [((5,), 2), ((2,), 5)] + [((2, 3), 2), ((3, 2), 3), ((2, 2), 3), ((2, 2), 2)]
    for ty in ("f64", "f32"):
        for xs, ny in shapes:
            nx = 1
            for d in xs:
                nx *= d
            for i in range(nrand):
                mode = "float" if i % 4 == 3 else "grid"
                den = rng.choice([8, 16, 64])
                cs = table(rng, ty, nx, ny, mode)
                if mode == "float":
                    w = G.float_opinion(rng, ty, nx, positive=False)
                else:
                    kind = rng.choice([None, None, None, None, "vac", "abs", "dog"])
                    w = G.grid_opinion(rng, nx, den, kind)
                tag = mode + ("" if len(xs) == 1 else "_2d")
                if mode == "grid" and i % 6 == 5:
                    # tables at the edges of the marginal base rate's domain (shared with C08)
                    ax, cs, tag0 = special_table(rng, ty, nx, ny, den, rng.below(4))
                    w = (w[0], w[1], ax)
                    tag = tag0 + ("" if len(xs) == 1 else "_2d")
                cn = sum((flat_sx(c) for c in cs), [])
                if len(xs) == 1:
                    fam = rng.choice(FAMS)
                    st = rng.choice(["own", "ref", "borrowed"])
                    out.append(Case("deduce", ty, fam, st, [nx, ny], flat_op(w) + cn, tag=tag))
                    if i % 3 == 0:
                        fb = G.grid_dist(rng, ny, den, positive=True)
                        out.append(Case("deduce_with", ty, fam, rng.choice(["own", "ref", "borrowed"]), [nx, ny],
                                        flat_op(w) + cn + fb, tag=tag))
                    if tier != "quick" or i % 5 == 0:
                        for f2 in FAMS:
                            if f2 != fam:
                                out.append(Case("deduce", ty, f2, rng.choice(["own", "ref", "borrowed"]), [nx, ny],
                                                flat_op(w) + cn, tag=tag))
                else:
                    fam = rng.choice(["marr", "marrd"])
                    out.append(Case("deduce2d", ty, fam, rng.choice(["own", "ref"]), list(xs) + [ny], flat_op(w) + cn,
                                    mop="deduce", mdims=[nx, ny], tag=tag))
    return out


def parts(c):
    nx, ny = c.mdims[0], c.mdims[1]
    b, u, a, off = split_op(c.nums, nx)
    cs = []
    for _ in range(nx):
        cb, cu, off = split_sx(c.nums, ny, off)
        cs.append((cb, cu))
    return b, u, a, cs, off


def predicates(c, ri, rm):
    bx, ux, ax, cs, off = parts(c)
    nx, ny = c.mdims[0], c.mdims[1]
    want = exact_mbr(c, ax, cs)
    tol = TOL[c.ty] * 4
    if ri[0] == "NONE":
        return [] if (want is None and c.mop == "deduce") else ["deduce returned nothing although the marginal base rate is defined"]
    if ri[0] != "OK":
        return ["deduce failed: %s" % " ".join(map(str, ri[:2]))]
    vals = ri[1][1:] if c.mop == "deduce_with" else ri[1]
    if not all(finite(v) for v in vals):
        return ["deduce returned NaN / infinite entries: %r" % (vals,)]
    if want is None and c.mop == "deduce":
        return ["deduce returned a value although the marginal base rate is undefined"]
    ay = want if want is not None else fr(c.nums[off:off + ny])
    b = fr(vals[:ny]); u = Fraction(vals[ny]); a = fr(vals[ny + 1:])
    s = sum(p * (1 - cu) for p, (cb, cu) in zip(ax, cs))
    kappa = max([1] + [1 / q for q in ay if q > 0]) * (max(1, 1 / s) if s > 0 else 1)
    t = tol * min(kappa, 1 << 20)
    out = []
    e = wf_simplex_fail(b, u, t)
    if e:
        out.append("deduced opinion is not well-formed: " + e)
    if any(abs(p - q) > t for p, q in zip(a, ay)):
        out.append("base rate is not the marginal base rate")
    px = [p + q * ux for p, q in zip(bx, ax)]
    spx = sum(px)
    px = [p / spx for p in px]
    for y in range(ny):
        tp = sum(px[x] * (cs[x][0][y] + ay[y] * cs[x][1]) for x in range(nx))
        if abs(b[y] + ay[y] * u - tp) > t:
            out.append("projection violates the law of total probability at y=%d" % y)
            break
    if ux == 0 and max(bx) == 1:
        k = bx.index(1)
        if any(abs(p - q) > t for p, q in zip(b, cs[k][0])) or abs(u - cs[k][1]) > t:
            out.append("an absolute antecedent does not return its conditional")
    # decomposition: b_y = sum_x bx b(y|x) + ux*beta_y with beta_y >= min_x b(y|x)
    if ux > 0:
        for y in range(ny):
            beta = (b[y] - sum(bx[x] * cs[x][0][y] for x in range(nx))) / ux
            if beta < min(cb[y] for cb, _ in cs) - t / ux:
                out.append("apex belief mass below the smallest conditional belief at y=%d" % y)
                break
        # "the MOST uncertain opinion with that projection whose beliefs are at least min_x b(y|x)": the apex
        # uncertainty is min over y with a(y) > 0 of (P(y||a_X) - min_x b(y|x)) / a(y), computed here from the
        # definition (independently of the model), so u = sum_x bx u(y|x) + ux * u_apex
        if not out:
            pa = [sum(ax[x] * (cs[x][0][y] + ay[y] * cs[x][1]) for x in range(nx)) for y in range(ny)]
            bounds = [(pa[y] - min(cb[y] for cb, _ in cs)) / ay[y] for y in range(ny) if ay[y] > num.EPS[c.ty]]
            if bounds and all(q == 0 or q > num.EPS[c.ty] for q in ay):
                u_apex = min(bounds)
                want_u = sum(bx[x] * cs[x][1] for x in range(nx)) + ux * u_apex
                if abs(u - want_u) > t * 4:
                    out.append("uncertainty %r is not that of the mixture plus the most uncertain (apex) opinion, %s" % (
                        vals[ny], float(want_u)))
    return out


def scale(c, rm):
    bx, ux, ax, cs, off = parts(c)
    want = exact_mbr(c, ax, cs)
    ny = c.mdims[1]
    ay = want if want is not None else fr(c.nums[off:off + ny]) if c.mop == "deduce_with" else [Fraction(1)]
    s = sum(p * (1 - cu) for p, (cb, cu) in zip(ax, cs))
    kappa = max([1] + [1 / q for q in ay if q > 0]) * (max(1, 1 / s) if s > 0 else 1)
    return min(kappa, 1 << 20)


def gen_q(rng, tier):
    """exact-rational cases: see qgen.py"""
    from . import qgen
    return qgen.conditionals(rng, tier, ops=('deduce', 'deduce_with'))
