#!/usr/bin/env python3
"""rs2v: translator from the binomial half of the crate (src/bi.rs) to Gallina.

    tools/rs2v.py /repo/src/bi.rs > build/gen/BiGen.v

The numeric methods of `impl BOpinion<$ft>` (projection, mul, comul, cfuse, afuse, wfuse, deduce, trans_unc,
trans_opp, trans_bsr), the checked constructors (BOpinion::try_new/new, BSimplex::try_new/new), the two checking
functions (check_simplex, check_base_rate) and whatever private helper functions they call are written in a small,
first-order subset of Rust:
  let bindings (identifier, tuple and array patterns; also declared first and assigned in the branches of an if),
  if / else if / else, early `return`, match on a tuple of booleans, `for` over an array literal (unrolled),
  non-capturing-by-mutation closures (inlined at their calls), calls of other functions of the file,
  float arithmetic, comparisons, `ulps_eq!(e, 0.0|1.0)`, the accessors b() d() u() a(), `?` and `.unwrap()`.
This script parses exactly that subset (anything else is an error: the tie is then reported as broken) and prints
one Gallina definition per function, over the same number structure as the hand-written model (coq/Model/Num.v):
every float operation becomes the NaN-carrying lifted operation, `Result<(), E>` becomes bool, `Result<T, E>` and
a panicking constructor become option.  coq/Gen/BiGenEq.v then proves each generated operator equal to the model's
(coq/Model/Bi.v) for every number structure.

What is interpreted rather than translated (the translator's own trusted table): the accessors b()/d()/u()/a()
(their bodies are checked against the expected text below), `check_unit_interval` = Num.in_unit, `check_is_one` =
Num.is_one, `ulps_eq!(e, 1.0)` = Num.is_one, `ulps_eq!(e, 0.0)` = Num.is_zero (these are the subject of C01's
bit-exact theorems), Rust's left-to-right evaluation of the arithmetic (kept as written), error labels (dropped).
"""
import re
import sys


class Unsupported(Exception):
    pass


# ------------------------------------------------------------------ lexer

TOK = re.compile(r"""
    (?P<ws>\s+|//[^\n]*)
  | (?P<attr>\#\[[^\]]*\])
  | (?P<num>\d+\.\d+|\d+)
  | (?P<str>"(?:[^"\\]|\\.)*")
  | (?P<id>\$?[A-Za-z_][A-Za-z0-9_]*)
  | (?P<op>::|->|=>|==|!=|>=|<=|&&|\|\||[-+*/=<>!&|.,;:?(){}\[\]'])
""", re.X)


def lex(src):
    out = []
    i = 0
    while i < len(src):
        m = TOK.match(src, i)
        if not m:
            raise Unsupported("cannot tokenise at: %r" % src[i:i + 30])
        i = m.end()
        if m.lastgroup in ("ws", "attr"):
            continue
        out.append((m.lastgroup, m.group(m.lastgroup)))
    return out


# ----------------------------------------------------------------- parser

class P:
    def __init__(self, toks):
        self.t = toks
        self.i = 0

    def peek(self, k=0):
        return self.t[self.i + k] if self.i + k < len(self.t) else ("eof", "")

    def next(self):
        x = self.peek()
        self.i += 1
        return x

    def at(self, v):
        return self.peek()[1] == v and self.peek()[0] in ("op", "id")

    def eat(self, v):
        if not self.at(v):
            raise Unsupported("expected %r, found %r" % (v, self.peek()[1]))
        self.i += 1

    def maybe(self, v):
        if self.at(v):
            self.i += 1
            return True
        return False

    def let_pattern(self):
        """ident | (p, ...) | [p, ...] | _"""
        if self.maybe("("):
            ps = []
            while not self.at(")"):
                ps.append(self.let_pattern())
                if not self.maybe(","):
                    break
            self.eat(")")
            return ("ptuple", ps)
        if self.maybe("["):
            ps = []
            while not self.at("]"):
                ps.append(self.let_pattern())
                if not self.maybe(","):
                    break
            self.eat("]")
            return ("parray", ps)
        if self.maybe("mut"):
            raise Unsupported("let mut")
        if self.maybe("&"):
            return self.let_pattern()
        kind, name = self.next()
        if kind != "id":
            raise Unsupported("pattern %r" % (name,))
        if name[0].isupper() and self.at("{"):
            self.next()
            fields = []
            while not self.at("}"):
                f = self.next()[1]
                if self.maybe(":"):
                    fields.append((f, self.let_pattern()))
                else:
                    fields.append((f, ("pvar", f)))
                if not self.maybe(","):
                    break
            self.eat("}")
            return ("pstruct", name, fields)
        if name[0].isupper() and self.at("("):
            self.next()
            inner = self.let_pattern()
            self.eat(")")
            return ("pctor", name, inner)
        return ("pvar", name)

    # block := '{' stmt* [expr] '}'
    def block(self):
        self.eat("{")
        stmts = []
        tail = None
        while not self.at("}"):
            if self.at("let"):
                self.next()
                pat = self.let_pattern()
                if self.maybe(":"):
                    self.skip_type()
                init = None
                if self.maybe("="):
                    init = self.expr()
                self.eat(";")
                stmts.append(("let", pat, init))
                continue
            if self.at("return"):
                self.next()
                e = None if self.at(";") else self.expr()
                self.maybe(";")
                stmts.append(("return", e))
                continue
            if self.at("for"):
                self.next()
                pat = self.let_pattern()
                self.eat("in")
                it = self.expr(nostruct=True)
                body = self.block()
                stmts.append(("for", pat, it, body))
                continue
            e = self.expr()
            if self.maybe(";"):
                stmts.append(("expr", e))
            elif self.maybe("="):
                if e[0] != "var":
                    raise Unsupported("assignment to a place other than a variable")
                rhs = self.expr()
                self.eat(";")
                stmts.append(("assign", e[1], rhs))
            elif self.at("}"):
                tail = e
            elif e[0] in ("if", "iflet", "match", "block"):
                stmts.append(("expr", e))
            else:
                raise Unsupported("statement: unexpected %r" % (self.peek()[1],))
        self.eat("}")
        return ("block", stmts, tail)

    def skip_type(self):
        depth = 0
        while True:
            k, v = self.peek()
            if k == "eof":
                return
            if v in ("<", "(", "["):
                depth += 1
            elif v in (">", ")", "]"):
                if depth == 0:
                    return
                depth -= 1
            elif depth == 0 and v in ("=", ";", ",", "{", "|"):
                return
            self.next()

    PREC = {"||": 1, "&&": 2, "==": 3, "!=": 3, "<": 3, ">": 3, "<=": 3, ">=": 3, "+": 4, "-": 4, "*": 5, "/": 5}

    def expr(self, minp=0, nostruct=False):
        lhs = self.unary(nostruct)
        while True:
            k, v = self.peek()
            if k == "op" and v in self.PREC and self.PREC[v] > minp:
                self.next()
                rhs = self.expr(self.PREC[v], nostruct)
                lhs = ("bin", v, lhs, rhs)
            else:
                return lhs

    def unary(self, nostruct):
        if self.at("-"):
            self.next()
            return ("neg", self.unary(nostruct))
        if self.at("*") or self.at("&"):
            self.next()          # deref / borrow: numbers are values in the model
            return self.unary(nostruct)
        if self.at("!"):
            self.next()
            return ("not", self.unary(nostruct))
        return self.postfix(self.primary(nostruct))

    def args(self, close=")"):
        out = []
        while not self.at(close):
            out.append(self.expr())
            if not self.maybe(","):
                break
        self.eat(close)
        return out

    def postfix(self, e):
        while True:
            if self.at("."):
                self.next()
                k, name = self.next()
                if k == "num":
                    e = ("field", e, name)
                elif self.at("("):
                    self.next()
                    e = ("mcall", e, name, self.args())
                else:
                    e = ("field", e, name)
            elif self.at("["):
                self.next()
                idx = self.expr()
                self.eat("]")
                e = ("index", e, idx)
            elif self.at("?"):
                self.next()
                e = ("try", e)
            else:
                return e

    def path(self, first):
        parts = [first]
        while self.at("::"):
            self.next()
            if self.at("<"):
                self.next()
                d = 1
                while d:
                    v = self.next()[1]
                    d += (v == "<") - (v == ">")
                continue
            parts.append(self.next()[1])
        return parts

    def primary(self, nostruct):
        k, v = self.next()
        if k == "num":
            return ("num", v)
        if k == "str":
            return ("str", v)
        if v == "(":
            es = []
            if self.at(")"):
                self.next()
                return ("tuple", [])
            es.append(self.expr())
            if self.at(","):
                while self.maybe(","):
                    if self.at(")"):
                        break
                    es.append(self.expr())
                self.eat(")")
                return ("tuple", es)
            self.eat(")")
            return es[0]
        if v == "[":
            return ("array", self.args("]"))
        if v in ("|", "||"):
            params = []
            if v == "|":
                while not self.at("|"):
                    pat = self.let_pattern()
                    if pat == ("ptuple", []):
                        pat = ("pvar", "_")
                    if pat[0] != "pvar":
                        raise Unsupported("closure parameter pattern")
                    if self.maybe(":"):
                        self.skip_type()
                    params.append(pat[1])
                    if not self.maybe(","):
                        break
                self.eat("|")
            if self.maybe("->"):
                self.skip_type()
            body = self.block() if self.at("{") else self.expr()
            return ("closure", params, body)
        if v == "if" and self.at("let"):
            self.next()
            ctor = self.next()[1]
            var = None
            if self.maybe("("):
                var = self.next()[1]
                self.eat(")")
            self.eat("=")
            scrut = self.expr(nostruct=True)
            th = self.block()
            el = None
            if self.maybe("else"):
                el = ("block", [], self.primary(nostruct)) if self.at("if") else self.block()
            return ("iflet", ctor, var, scrut, th, el)
        if v == "if":
            cond = self.expr(nostruct=True)
            th = self.block()
            el = None
            if self.maybe("else"):
                el = ("block", [], self.primary(nostruct)) if self.at("if") else self.block()
            return ("if", cond, th, el)
        if v == "match":
            scr = self.expr(nostruct=True)
            self.eat("{")
            arms = []
            while not self.at("}"):
                pats = [self.pattern()]
                while self.maybe("|"):
                    pats.append(self.pattern())
                guard = self.expr(nostruct=True) if self.maybe("if") else None
                self.eat("=>")
                body = self.block() if self.at("{") else self.expr()
                self.maybe(",")
                arms.append((pats, body, guard))
            self.eat("}")
            return ("match", scr, arms)
        if v == "{":
            self.i -= 1
            return self.block()
        if k == "id":
            if self.at("!"):
                self.next()
                self.eat("(")
                return ("macro", v, self.args())
            parts = self.path(v)
            if self.at("("):
                self.next()
                return ("call", parts, self.args())
            if self.at("{") and not nostruct and parts[0][0].isupper():
                self.next()
                fields = []
                while not self.at("}"):
                    fname = self.next()[1]
                    if self.maybe(":"):
                        fields.append((fname, self.expr()))
                    else:
                        fields.append((fname, ("var", fname)))
                    self.maybe(",")
                self.eat("}")
                return ("struct", parts, fields)
            if len(parts) == 1:
                return ("var", v)
            return ("path", parts)
        raise Unsupported("expression: unexpected %r" % (v,))

    def pattern(self):
        """a tuple of true | false | _ | identifier, or a single such item"""
        if not self.maybe("("):
            return [self.next()[1]]
        ps = []
        while not self.at(")"):
            ps.append(self.next()[1])
            self.maybe(",")
        self.eat(")")
        return ps


# --------------------------------------------------- locating the functions

def brace_end(src, k):
    depth = 0
    e = k
    while True:
        depth += (src[e] == "{") - (src[e] == "}")
        e += 1
        if depth == 0:
            return e


def all_fns(src):
    """{name: (params text, header text, body text)} of every `fn` in src (first definition wins)"""
    out = {}
    for m in re.finditer(r"\bfn\s+([A-Za-z_][A-Za-z0-9_]*)\s*", src):
        name = m.group(1)
        i = m.end()
        if i < len(src) and src[i] == "<":
            depth = 0
            while True:
                depth += (src[i] == "<") - (src[i] == ">")
                if src[i] == "-" and src[i + 1] == ">":
                    i += 1          # `->` inside generics does not close a bracket
                    depth += 1
                i += 1
                if depth == 0:
                    break
            while src[i].isspace():
                i += 1
        if i >= len(src) or src[i] != "(":
            continue
        depth = 0
        j = i
        while True:
            depth += (src[j] == "(") - (src[j] == ")")
            j += 1
            if depth == 0:
                break
        k = src.find("{", j)
        semi = src.find(";", j)
        if k < 0 or (0 <= semi < k):
            continue
        out.setdefault(name, (src[i + 1:j - 1], src[j:k], src[k:brace_end(src, k)]))
    return out


def split_top(s):
    out, depth, cur = [], 0, ""
    for ch in s:
        if ch in "<([":
            depth += 1
        elif ch in ">)]":
            depth -= 1
        if ch == "," and depth == 0:
            out.append(cur)
            cur = ""
        else:
            cur += ch
    out.append(cur)
    return out


def param_list(params):
    out = []
    for p in split_top(params):
        p = p.strip()
        if not p:
            continue
        if p in ("&self", "self"):
            out.append(("self", "Self"))
            continue
        n, t = p.split(":", 1)
        out.append((n.strip(), t.strip()))
    return out


def type_sort(t, region):
    t = re.sub(r"\s+", "", t)
    t = re.sub(r"^&('[a-z_]+)?", "", t)
    if t in ("$ft", "V", "f32", "f64", "T"):
        return "num"
    if t == "Self":
        return "sx" if region == "impl_simplex" else "bop"
    if re.fullmatch(r"BOpinion<[^>]*>", t):
        return "bop"
    if re.fullmatch(r"BSimplex<[^>]*>", t):
        return "sx"
    if re.fullmatch(r"\[BSimplex<[^>]*>;2\]", t):
        return "sx2"
    if t == "bool":
        return "bool"
    if t in ("str", "S", "String", "'staticstr"):
        return "str"
    raise Unsupported("parameter / result type %s" % t)


def ret_sort(header, region):
    m = re.search(r"->\s*(.*?)\s*(where\b.*)?$", header.strip(), re.S)
    if not m:
        return "unit"
    t = re.sub(r"\s+", "", m.group(1))
    if t.startswith("Result<(),"):
        return "res"
    m2 = re.fullmatch(r"Result<(.*),InvalidValueError>", t)
    if m2:
        return "opt_" + type_sort(m2.group(1), region)
    s = type_sort(t, region)
    # a constructor / operator that panics instead of returning an error: None = panic
    return "opt_" + s if s in ("bop", "sx") else s


# ------------------------------------------------------------- translation

NUM = {"0.0": "zero", "1.0": "one", "2.0": "two"}
ARITH = {"+": "add", "-": "sub", "*": "mul", "/": "div"}
RESERVED = {"mul", "add", "sub", "div", "one", "zero", "two", "eps", "fst", "snd", "bb", "bd", "bu", "ba", "sx", "bop",
            "leb", "ltb", "gtb", "eqb", "negb", "andb", "orb", "is_zero", "is_one", "in_unit", "if", "then", "else", "let",
            "in", "match", "with", "end", "fun", "Some", "None", "true", "false", "tt", "V", "F", "B"}
GTYPE = {"op2": "opinion", "num": "V", "bool": "bool", "bop": "bop", "sx": "sx", "sx2": "(sx * sx)", "res": "bool", "opt_bop": "option bop",
         "opt_sx": "option sx", "unit": "unit"}


class Tr:
    """CPS translation of one function body; values carry a sort:
       num | bool | bop | sx (b,d,u triple) | sx2 | pair (array of two numbers) | opt_bop | opt_sx |
       res (bool for Result<(),E>) | unit | str | tuple (python list of (term, sort)) | closure"""

    def __init__(self, mod, region, fname, ret):
        self.mod = mod
        self.region = region
        self.fname = fname
        self.ret = ret
        self.n = 0
        self.kret = None

    def fresh(self, base):
        self.n += 1
        return "%s_%d" % (base, self.n)

    def fail(self):
        return {"res": "false", "opt_bop": "None", "opt_sx": "None"}.get(self.ret) or self.err("failure in a function returning %s" % self.ret)

    def err(self, msg):
        raise Unsupported("%s: %s" % (self.fname, msg))

    # ---- blocks
    def block(self, blk, env, k):
        """k(term, sort, env) consumes the block's value"""
        _, stmts, tail = blk
        return self.stmts(list(stmts), tail, dict(env), k)

    def bind(self, pat, t, s, env, cont):
        """bind pattern to value (t, s); cont(env') -> term"""
        if pat[0] == "pvar":
            name = pat[1]
            env2 = dict(env)
            if name == "_":
                return cont(env2)
            if s in ("tuple", "closure", "str", "unit") or re.fullmatch(r"[A-Za-z_][A-Za-z0-9_']*", t or ""):
                env2[name] = (t, s)
                return cont(env2)
            g = self.gname(name, env)
            env2[name] = (g, s)
            return "let %s := %s in\n  %s" % (g, t, cont(env2))
        if pat[0] == "ptuple":
            if s != "tuple" or len(t) != len(pat[1]):
                self.err("tuple pattern against a %s" % s)

            def go(i, envi):
                if i == len(pat[1]):
                    return cont(envi)
                return self.bind(pat[1][i], t[i][0], t[i][1], envi, lambda e2: go(i + 1, e2))
            return go(0, env)
        if pat[0] == "parray":
            if s == "tuple" and len(t) == len(pat[1]):
                return self.bind(("ptuple", pat[1]), t, s, env, cont)
            if s == "sx2" and len(pat[1]) == 2:
                return self.bind(pat[1][0], "(fst %s)" % t, "sx", env,
                                 lambda e2: self.bind(pat[1][1], "(snd %s)" % t, "sx", e2, cont))
            if s == "list2" and len(pat[1]) == 2:
                return self.bind(pat[1][0], "(get %s 0)" % t, "num", env,
                                 lambda e2: self.bind(pat[1][1], "(get %s 1)" % t, "num", e2, cont))
            self.err("array pattern against a %s" % s)
        if pat[0] == "pstruct":
            _, name, fields = pat
            if name == "BOpinion" and s == "bop":
                fmap = {"simplex": ("(sx_of %s)" % t, "sx"), "base_rate": ("(ba %s)" % t, "num")}
            elif name == "Opinion1d" and s == "op2":
                fmap = {"simplex": ("(fst %s)" % t, "spx2"), "base_rate": ("(snd %s)" % t, "list2")}
            else:
                self.err("struct pattern %s against a %s" % (name, s))

            def go(i, envi):
                if i == len(fields):
                    return cont(envi)
                f, sub = fields[i]
                if f not in fmap:
                    self.err("field %s in a pattern of %s" % (f, name))
                return self.bind(sub, fmap[f][0], fmap[f][1], envi, lambda e2: go(i + 1, e2))
            return go(0, env)
        if pat[0] == "pctor":
            _, name, inner = pat
            if name == "BSimplex" and s == "sx":
                return self.bind(inner, "([sx_b %s; sx_d %s], sx_u %s)" % (t, t, t), "spx2", env, cont)
            self.err("pattern %s(..) against a %s" % (name, s))
        self.err("pattern %s" % pat[0])

    def stmts(self, stmts, tail, env, k):
        if not stmts and tail is not None and tail[0] == "if" and not self.is_value_if(tail):
            stmts, tail = [("expr", tail)], None      # `else if` chain of assignments / returns
        if not stmts:
            if tail is None:
                return k("tt", "unit", env)
            return self.expr(tail, env, lambda t, s: k(t, s, env))
        st, rest = stmts[0], stmts[1:]
        if st[0] == "let":
            _, pat, init = st
            if init is None:
                if pat[0] != "pvar":
                    self.err("declaration of a pattern without a value")
                env2 = dict(env)
                env2[pat[1]] = (None, "undef")
                return self.stmts(rest, tail, env2, k)
            return self.expr(init, env, lambda t, s: self.bind(pat, t, s, env, lambda e2: self.stmts(rest, tail, e2, k)))
        if st[0] == "assign":
            _, name, rhs = st
            if name not in env or env[name][1] != "undef":
                self.err("assignment to %s, which is not a declared-but-unset variable" % name)

            def bound(t, s):
                env2 = dict(env)
                del env2[name]
                return self.bind(("pvar", name), t, s, env2, lambda e3: self.stmts(rest, tail, e3, k))
            return self.expr(rhs, env, bound)
        if st[0] == "return":
            if st[1] is None:
                self.err("return without a value")
            return self.expr(st[1], env, lambda t, s: self.kret(t, s, env))
        if st[0] == "for":
            _, pat, it, body = st
            if it[0] != "array":
                self.err("for over something other than an array literal")
            unrolled = []
            for el in it[1]:
                unrolled.append(("expr", ("block", [("let", pat, el)] + list(body[1]) + ([("expr", body[2])] if body[2] else []), None)))
            return self.stmts(unrolled + rest, tail, env, k)
        if st[0] == "expr":
            e = st[1]
            if e[0] == "block":
                # a nested block statement: its bindings are local, the rest continues in the outer environment
                return self.stmts(list(e[1]) + ([("expr", e[2])] if e[2] is not None else []), None, dict(env),
                                  lambda t, s, _e: self.stmts(rest, tail, env, k))
            if e[0] == "iflet":
                return self.iflet(e, env, None, (rest, tail, env, k))
            if e[0] == "if" and not self.is_value_if(e):
                # statement-if: the rest of the block is the continuation of every branch
                _, cond, th, el = e

                def after(t, s, envb):
                    # variables declared before the if and assigned in the branch stay visible
                    env2 = dict(env)
                    for name, v in envb.items():
                        if name in env and env[name][1] == "undef":
                            env2[name] = v
                    return self.stmts(rest, tail, env2, k)
                elb = el if el is not None else ("block", [], None)
                return self.expr(cond, env, lambda c, s: "if %s\n  then %s\n  else %s" % (
                    c, self.block(th, env, after), self.block(elb, env, after)))

            def seq(t, s):
                if s == "unit":
                    return self.stmts(rest, tail, env, k)
                self.err("expression statement of sort %s" % s)
            return self.expr(e, env, seq, stmt=(rest, tail, env, k))
        self.err("statement %r" % (st[0],))

    def gname(self, name, env):
        used = {v[0] for v in env.values() if isinstance(v[0], str)}
        g = name if name not in RESERVED and not name.startswith("g_") else name + "_"
        while g in used:
            g += "'"
        return g

    def tuple_valued(self, e):
        b = e[2]
        while b is not None and b[2] is not None and b[2][0] == "if" and not b[1]:
            b = b[2][2]
        return b is not None and b[2] is not None and b[2][0] == "tuple" and len(b[2][1]) > 0

    def iflet(self, e, env, k, stmt):
        """`if let Err(e) = check(..) { .. }` / `if let Ok(..) = ..` on a Result<(), E> (a bool in the model)"""
        _, ctor, var, scrut, th, el = e
        if stmt is None:
            self.err("if let in a value position")
        rest, tail, env0, kk = stmt

        def after(t, s, envb):
            return self.stmts(rest, tail, env0, kk)

        def go(a, s):
            if s != "res" or ctor not in ("Err", "Ok"):
                self.err("if let %s(..) on a %s" % (ctor, s))
            env2 = dict(env)
            if var and var != "_":
                env2[var] = ("tt", "errval" if ctor == "Err" else "unit")
            thb = self.block(th, env2, after)
            elb = self.block(el if el is not None else ("block", [], None), env, after)
            return "if %s\n  then %s\n  else %s" % (a, elb, thb) if ctor == "Err" else \
                "if %s\n  then %s\n  else %s" % (a, thb, elb)
        return self.expr(scrut, env, go)

    def is_value_if(self, e):
        """an if whose branches all end in an expression (no assignments, no returns)"""
        def blk_val(b):
            if b is None or b[2] is None or any(s[0] in ("assign", "return") for s in b[1]):
                return False
            if b[2][0] == "if" and not b[1]:
                return self.is_value_if(b[2])
            return True
        return blk_val(e[2]) and blk_val(e[3])

    # ---- expressions
    def expr(self, e, env, k, stmt=None):
        t = e[0]
        if t == "num":
            if e[1] not in NUM:
                self.err("numeric literal %s" % e[1])
            return k(NUM[e[1]], "num")
        if t == "var" and e[1] in ("true", "false") and e[1] not in env:
            return k(e[1], "bool")
        if t == "var":
            if e[1] not in env or env[e[1]][1] == "undef":
                self.err("unknown or unset variable %s" % e[1])
            return k(*env[e[1]])
        if t == "neg":
            return self.expr(e[1], env, lambda a, s: k("(sub zero %s)" % a, "num"))
        if t == "not":
            return self.expr(e[1], env, lambda a, s: k("(negb %s)" % a, "bool"))
        if t == "bin":
            _, op, l, r = e
            if op in ARITH:
                return self.expr(l, env, lambda a, sa: self.expr(r, env, lambda b, sb: self.arith(op, a, sa, b, sb, k)))
            if op in (">", "<", ">=", "<="):
                f = {">": "gtb %s %s", "<": "ltb %s %s", ">=": "leb %s %s", "<=": "leb %s %s"}[op]
                return self.expr(l, env, lambda a, sa: self.expr(r, env, lambda b, sb: k(
                    "(" + (f % ((b, a) if op == ">=" else (a, b))) + ")", "bool") if (sa, sb) == ("num", "num")
                    else self.err("comparison of %s and %s" % (sa, sb))))
            if op in ("==", "!="):
                def eq(a, sa, b, sb):
                    if (sa, sb) == ("bool", "bool"):
                        tm = "(Bool.eqb %s %s)" % (a, b)
                    elif (sa, sb) == ("num", "num"):
                        tm = "(eqb %s %s)" % (a, b)
                    else:
                        self.err("== on %s and %s" % (sa, sb))
                    return k(tm if op == "==" else "(negb %s)" % tm, "bool")
                return self.expr(l, env, lambda a, sa: self.expr(r, env, lambda b, sb: eq(a, sa, b, sb)))
            if op in ("&&", "||"):
                return self.expr(l, env, lambda a, sa: self.expr(r, env, lambda b, sb: k("(%s %s %s)" % (a, op, b), "bool")
                                 if (sa, sb) == ("bool", "bool") else self.err("%s on %s and %s" % (op, sa, sb))))
            self.err("operator %s" % op)
        if t == "field":
            _, obj, name = e
            return self.expr(obj, env, lambda a, s: self.field(a, s, name, k))
        if t == "mcall":
            _, obj, name, args = e
            if name == "unwrap" and not args:
                return self.expr(obj, env, lambda a, s: self.unwrap(a, s, k, stmt))
            if name in ("into", "clone", "to_owned", "copied") and not args:
                return self.expr(obj, env, k)
            if name == "map" and len(args) == 1 and args[0][0] == "closure":
                params, body, _ = args[0][1], args[0][2], None
                params, body = args[0][1], args[0][2]

                def mapped(a, s):
                    if s == "res" and len(params) == 1:
                        env2 = dict(env)
                        env2[params[0]] = ("tt", "unit")

                        def kb(tm, sv, _e=None):
                            if sv not in ("bop", "sx"):
                                self.err("Result::map to a %s" % sv)
                            return k("(if %s then Some %s else None)" % (a, tm), "opt_" + sv)
                        if body[0] == "block":
                            return self.block(body, env2, kb)
                        return self.expr(body, env2, lambda tm, sv: kb(tm, sv))
                    self.err("map on a %s" % s)
                return self.expr(obj, env, mapped)
            return self.expr(obj, env, lambda a, s: self.method(a, s, name, args, env, k))
        if t == "try":
            return self.expr(e[1], env, lambda a, s: self.unwrap(a, s, k, stmt))
        if t == "index":
            _, obj, idx = e
            if idx[0] != "num" or idx[1] not in ("0", "1"):
                self.err("index other than the literals 0 / 1")
            return self.expr(obj, env, lambda a, s: self.index(a, s, int(idx[1]), k))
        if t == "macro":
            _, name, args = e
            if name == "format":
                return k('""', "str")
            if name != "ulps_eq" or len(args) != 2:
                self.err("macro %s! other than ulps_eq!(e, 0.0 | 1.0)" % name)

            def second(b, sb):
                if b not in ("zero", "one"):
                    self.err("ulps_eq!(e, w) where w is neither 0 nor 1")
                f = "is_zero" if b == "zero" else "is_one"
                return self.expr(args[0], env, lambda a, s: k("(%s %s)" % (f, a), "bool") if s == "num" else self.err("ulps_eq! on a %s" % s))
            return self.expr(args[1], env, second)
        if t == "iflet":
            return self.iflet(e, env, k, stmt)
        if t == "if" and e[3] is not None and self.is_value_if(e) and self.tuple_valued(e):
            # the branches yield tuples (destructured by the enclosing let): the continuation goes into both
            _, cond, th, el = e
            return self.expr(cond, env, lambda c, s: "if %s\n  then %s\n  else %s" % (
                c, self.block(th, env, lambda tm, sv, _e: k(tm, sv)), self.block(el, env, lambda tm, sv, _e: k(tm, sv))))
        if t == "if":
            _, cond, th, el = e
            if el is None or not self.is_value_if(e):
                self.err("if used as a value without else / with assignments")
            sort = []

            def br(b):
                def kk(tm, s, _env):
                    sort.append(s)
                    return tm
                return self.block(b, env, kk)
            return self.expr(cond, env, lambda c, s: (lambda a, b: k("(if %s\n   then %s\n   else %s)" % (c, a, b), sort[0]))(br(th), br(el)))
        if t == "match":
            return self.match(e, env, k)
        if t == "block":
            out = []

            def kk(tm, s, _env):
                out.append(s)
                return tm
            tm = self.block(e, env, kk)
            return k("(%s)" % tm, out[0])
        if t == "tuple":
            if not e[1]:
                return k("tt", "unit")

            def go(i, acc):
                if i == len(e[1]):
                    return k(acc, "tuple")
                return self.expr(e[1][i], env, lambda a, s: go(i + 1, acc + [(a, s)]))
            return go(0, [])
        if t == "closure":
            return k((e[1], e[2], dict(env)), "closure")
        if t == "call":
            return self.call(e, env, k)
        if t == "struct":
            return self.struct(e, env, k)
        if t == "array":
            # an array literal: a tuple of its elements (consumers that need a Gallina list / pair build it)
            def goa(i, acc):
                if i == len(e[1]):
                    return k(acc, "tuple")
                return self.expr(e[1][i], env, lambda a, s: goa(i + 1, acc + [(a, s)]))
            return goa(0, [])
        if t == "str":
            return k('""', "str")
        self.err("expression form %s" % t)

    def arith(self, op, a, sa, b, sb, k):
        if sa != "num" or sb != "num":
            self.err("arithmetic on %s / %s" % (sa, sb))
        return k("(%s %s %s)" % (ARITH[op], a, b), "num")

    def field(self, a, s, name, k):
        if s == "op2" and name == "base_rate":
            return k("(snd %s)" % a, "list2")
        if s == "op2" and name == "simplex":
            return k("(fst %s)" % a, "spx2")
        if s == "sx" and name == "0":
            return k("([sx_b %s; sx_d %s], sx_u %s)" % (a, a, a), "spx2")     # BSimplex(Simplex1d): the wrapped simplex
        if s == "bop" and name == "base_rate":
            return k("(ba %s)" % a, "num")
        if s == "bop" and name == "simplex":
            return k("(sx_of %s)" % a, "sx")
        if s == "tuple" and name.isdigit() and int(name) < len(a):
            return k(*a[int(name)])
        self.err("field .%s of a %s" % (name, s))

    def method(self, a, s, name, args, env, k):
        if s == "op2" and name == "b" and not args:
            return k("(fst (fst %s))" % a, "list2")
        if s == "op2" and name == "u" and not args:
            return k("(snd (fst %s))" % a, "num")
        if s == "bop" and name in ("b", "d", "u", "a") and not args:
            return k("(b%s %s)" % (name, a), "num")
        if s == "sx" and name in ("b", "d", "u") and not args:
            return k("(sx_%s %s)" % (name, a), "num")
        region = {"bop": "impl_bop", "sx": "impl_simplex"}.get(s)
        if region and self.mod.has(region, name):
            return self.call_args(args, env, lambda vals: self.apply_fn(region, name, [(a, s)] + vals, k))
        self.err("method .%s() on a %s" % (name, s))

    def index(self, a, s, i, k):
        if s == "list2":
            return k("(get %s %d)" % (a, i), "num")
        if s == "sx2":
            return k("(%s %s)" % ("fst" if i == 0 else "snd", a), "sx")
        self.err("indexing a %s" % s)

    def unwrap(self, a, s, k, stmt):
        if s == "res":
            # Result<(), E>: continue on success, fail otherwise
            if stmt is None:
                self.err("`?` / unwrap on a check in a value position")
            rest, tail, env, kk = stmt
            return "if %s then %s else %s" % (a, self.stmts(rest, tail, env, kk), self.fail())
        if s in ("opt_bop", "opt_sx"):
            inner = s[4:]
            if stmt is not None:
                self.err("value of a checked constructor dropped")
            v = self.fresh("v")
            body = k(v, inner)
            if body == "Some %s" % v:
                return a
            return "match %s with Some %s => %s | None => %s end" % (a, v, body, self.fail())
        self.err("`?` / unwrap on a %s" % s)

    def call_args(self, args, env, cont):
        def go(i, acc):
            if i == len(args):
                return cont(acc)
            return self.expr(args[i], env, lambda a, s: go(i + 1, acc + [(a, s)]))
        return go(0, [])

    def call(self, e, env, k):
        _, path, args = e
        name = path[-1]
        full = "::".join(path)
        if len(path) == 1 and name in env and env[name][1] == "closure":
            params, body, cenv = env[name][0]
            if len(params) != len(args):
                self.err("closure %s called with %d arguments" % (name, len(args)))

            def inline(vals):
                env2 = dict(cenv)
                for p, (t, s) in zip(params, vals):
                    env2[p] = (t, s)
                if body[0] == "block":
                    return self.block(body, env2, lambda t, s, _e: k(t, s))
                return self.expr(body, env2, k)
            return self.call_args(args, env, inline)
        if name == "Err":
            return k(self.fail(), self.ret)       # the error value: its text is not modelled
        if path[0] == "verif":
            return k("tt", "unit")                # verification hook: records the rejected value, no effect on the result
        if self.mod.inline(name) and len(path) <= 2:
            params, body = self.mod.inline(name)
            if len(params) != len(args):
                self.err("%s called with %d arguments" % (name, len(args)))

            def inl(vals):
                env2 = {}
                for p_, (t, s) in zip(params, vals):
                    env2[p_] = (t, s)
                saved = self.kret
                return self.block(body, env2, lambda t, s, _e: k(t, s))
            return self.call_args(args, env, inl)
        return self.call_args(args, env, lambda vals: self.apply(full, path, name, vals, k))

    def apply(self, full, path, name, a, k):
        nums = lambda n: len(a) >= n and all(s == "num" for _, s in a[:n])
        if full in ("V::zero", "V::one") and not a:
            return k(name, "num")
        if name in ("from", "into") and len(a) == 1 and hasattr(self.mod, "conv"):
            # one conversion written in terms of another one of src/convert.rs
            tgt = self.mod.conv.get(a[0][1])
            if tgt:
                return k("(%s %s)" % (tgt[0], a[0][0]), tgt[1])
        if name == "check_unit_interval" and nums(1):
            return k("(in_unit %s)" % a[0][0], "res")
        if name == "check_is_one" and nums(1):
            return k("(is_one %s)" % a[0][0], "res")
        if name == "Ok" and len(a) == 1:
            t, s = a[0]
            if s == "unit":
                return k("true", "res")
            if s in ("bop", "sx"):
                return k("Some %s" % t, "opt_" + s)
        if name == "new_unchecked" and len(a) == 2 and a[0][1] == "tuple" and len(a[0][0]) == 2 and a[1][1] == "num" \
                and all(s_ == "num" for _, s_ in a[0][0]):
            return k("(%s, %s, %s)" % (a[0][0][0][0], a[0][0][1][0], a[1][0]), "sx")
        if name == "new_unchecked" and nums(4) and len(a) == 4:
            return k("(mkbop %s %s %s %s)" % tuple(x for x, _ in a), "bop")
        if name == "new_unchecked" and nums(3) and len(a) == 3:
            return k("(%s, %s, %s)" % tuple(x for x, _ in a), "sx")
        if full in ("Self", "BSimplex") and len(a) == 1 and a[0][1] == "sx":
            return k(a[0][0], "sx")          # tuple struct BSimplex(simplex)
        # functions of this file
        if len(path) == 1 and self.mod.has("top", name):
            return self.apply_fn("top", name, a, k)
        if len(path) == 2:
            region = {"Self": self.region, "BOpinion": "impl_bop", "BSimplex": "impl_simplex"}.get(path[0])
            if region and self.mod.has(region, name):
                return self.apply_fn(region, name, a, k)
        self.err("call of %s with %d argument(s) of sorts %s" % (full, len(a), [s for _, s in a]))

    def apply_fn(self, region, name, a, k):
        g, sorts, ret = self.mod.need(region, name)
        if [s for _, s in a if s != "str"] != [s for s in sorts if s != "str"]:
            self.err("call of %s with arguments of sorts %s, expected %s" % (name, [s for _, s in a], sorts))
        args = " ".join(t for t, s in a if s != "str")
        return k("(%s %s)" % (g, args) if args else g, ret)

    def struct(self, e, env, k):
        _, path, fields = e
        names = [f for f, _ in fields]
        if path[-1] == "Opinion1d" and sorted(names) == ["base_rate", "simplex"]:
            fd = dict(fields)

            def done2(vals):
                v = dict(zip(names, vals))
                (sx_, ss), (a, sa) = v["simplex"], v["base_rate"]
                if ss != "spx2" or sa != "tuple" or len(a) != 2 or any(s_ != "num" for _, s_ in a):
                    self.err("Opinion1d fields of sorts %s, %s" % (ss, sa))
                return k("(%s, [%s; %s])" % (sx_, a[0][0], a[1][0]), "op2")
            return self.call_args([fd[n] for n in names], env, done2)
        if path[-1] not in ("Self", "BOpinion") or sorted(names) != ["base_rate", "simplex"]:
            self.err("struct literal %s {%s}" % ("::".join(path), ", ".join(names)))
        fd = dict(fields)
        # fields are evaluated in the order written
        order = names

        def done(vals):
            v = dict(zip(order, vals))
            (s, ss), (a, sa) = v["simplex"], v["base_rate"]
            if (ss, sa) != ("sx", "num"):
                self.err("fields of sorts %s, %s" % (ss, sa))
            return k("(mk_bop %s %s)" % (s, a), "bop")
        return self.call_args([fd[n] for n in order], env, done)

    def match(self, e, env, k):
        _, scr, arms = e
        items = scr[1] if scr[0] == "tuple" else [scr]

        def with_scr(i, acc):
            if i == len(items):
                return self.arms(acc, arms, env, k)
            return self.expr(items[i], env, lambda a, s: (
                with_scr(i + 1, acc + [a]) if s == "bool" else self.err("match on a %s" % s)))
        return with_scr(0, [])

    def arms(self, ms, arms, env, k):
        # bind the scrutinee booleans, then a chain of ifs; the last arm is taken unconditionally
        # (the Rust compiler has checked exhaustiveness)
        names = [self.fresh("m") for _ in ms]
        sort = []

        def arm_body(pats, body):
            env2 = dict(env)
            if len(pats) == 1:
                for p, m in zip(pats[0], names):
                    if p not in ("true", "false", "_"):
                        env2[p] = (m, "bool")

            def kk(tm, s, _e=None):
                sort.append(s)
                return tm
            if body[0] == "block":
                return self.block(body, env2, kk)
            return self.expr(body, env2, lambda tm, s: kk(tm, s))

        def cond(pats):
            alts = []
            for p in pats:
                if len(p) != len(names):
                    self.err("pattern of %d items against %d scrutinees" % (len(p), len(names)))
                cs = []
                for q, m in zip(p, names):
                    if q == "true":
                        cs.append(m)
                    elif q == "false":
                        cs.append("negb %s" % m)
                alts.append(" && ".join(cs) if cs else "true")
            return " || ".join("(%s)" % a for a in alts)

        def guarded(pats, guard):
            # `pat if guard =>`: the guard is evaluated only when the pattern matches and has no effects here
            if guard is None:
                return cond(pats)
            env2 = dict(env)
            if len(pats) == 1:
                for p, m in zip(pats[0], names):
                    if p not in ("true", "false", "_"):
                        env2[p] = (m, "bool")
            g = self.expr(guard, env2, lambda tm, s: tm if s == "bool" else self.err("guard of sort %s" % s))
            return "(%s) && %s" % (cond(pats), g)

        def chain(i):
            pats, body, guard = arms[i]
            if i == len(arms) - 1:
                if guard is not None:
                    self.err("guard on the last arm")
                return arm_body(pats, body)
            return "if %s\n   then %s\n   else %s" % (guarded(pats, guard), arm_body(pats, body), chain(i + 1))
        tm = chain(0)
        binds = " ".join("let %s := %s in" % (n, m) for n, m in zip(names, ms))
        return k("(%s\n   %s)" % (binds, tm), sort[0])


# ---------------------------------------------------------------- module

ACCESSORS = [
    # (impl header regex, fn name, expected body)
    (r"impl<T>\s+BSimplex<T>", "b", "&self.0.belief[0]"),
    (r"impl<T>\s+BSimplex<T>", "d", "&self.0.belief[1]"),
    (r"impl<T>\s+BSimplex<T>", "u", "&self.0.uncertainty"),
    (r"impl<T>\s+BOpinion<T>", "b", "&self.simplex.b()"),
    (r"impl<T>\s+BOpinion<T>", "d", "&self.simplex.d()"),
    (r"impl<T>\s+BOpinion<T>", "u", "self.simplex.u()"),
    (r"impl<T>\s+BOpinion<T>", "a", "&self.base_rate"),
]

# the interface of the generated module: (gallina name, region, rust fn); everything else these call is a helper
ENTRY = [
    ("g_check_simplex", "top", "check_simplex"),
    ("g_check_base_rate", "top", "check_base_rate"),
    ("g_sx_try_new", "impl_simplex", "try_new"),
    ("g_sx_new", "impl_simplex", "new"),
    ("g_try_new", "impl_bop", "try_new"),
    ("g_new", "impl_bop", "new"),
    ("g_projection", "impl_bop", "projection"),
    ("g_mul", "impl_bop", "mul"),
    ("g_comul", "impl_bop", "comul"),
    ("g_cfuse", "impl_bop", "cfuse"),
    ("g_afuse", "impl_bop", "afuse"),
    ("g_wfuse", "impl_bop", "wfuse"),
    ("g_deduce", "impl_bop", "deduce"),
    ("g_trans_unc", "impl_bop", "trans_unc"),
    ("g_trans_opp", "impl_bop", "trans_opp"),
    ("g_trans_bsr", "impl_bop", "trans_bsr"),
]

PRELUDE = '''(* GENERATED by tools/rs2v.py from %s - do not edit. *)
From Coq Require Import List Bool.
From SL Require Import Model.Num Model.Vec Model.Mul Model.Bi.

Section BiGen.
Context {B : Fld}.
Variable eps : F B.
Notation V := (@V B).
Notation is_zero := (is_zero eps).
Notation is_one := (is_one eps).
Notation in_unit := (in_unit eps).
Notation bop := (@bop B).

(* BSimplex: (b, d, u);  BOpinion { simplex, base_rate } = Bi.bop *)
Definition sx : Type := (V * V * V)%%type.
Definition sx_b (s : sx) : V := fst (fst s).
Definition sx_d (s : sx) : V := snd (fst s).
Definition sx_u (s : sx) : V := snd s.
Definition sx_of (w : bop) : sx := (bb w, bd w, bu w).
Definition mk_bop (s : sx) (a : V) : bop := mkbop (sx_b s) (sx_d s) (sx_u s) a.
'''


def region_text(src, macro):
    """text of `macro_rules! <macro> { ... }`"""
    m = re.search(r"macro_rules!\s+%s\s*\{" % macro, src)
    if not m:
        raise Unsupported("macro %s not found" % macro)
    i = m.end() - 1
    return src[i:brace_end(src, i)]


def strip_comments(src):
    return re.sub(r"//[^\n]*", "", src)


def check_accessors(src):
    for hdr, fn, want in ACCESSORS:
        m = re.search(hdr + r"\s*\{", src)
        if not m:
            raise Unsupported("accessor impl block %s not found" % hdr)
        blk = src[m.end() - 1:brace_end(src, m.end() - 1)]
        fns = all_fns(blk)
        if fn not in fns:
            raise Unsupported("accessor %s of `%s` not found" % (fn, hdr))
        got = re.sub(r"\s+", "", fns[fn][2].strip()[1:-1])
        if got != want:
            raise Unsupported("accessor %s of `%s` is %r, the translator's table says %r" % (fn, hdr, got, want))


class Module:
    def __init__(self, path):
        self.path = path
        src = strip_comments(open(path).read())
        check_accessors(src)
        top = src[:src.index("macro_rules!")]
        self.fns = {"top": all_fns(top), "impl_simplex": all_fns(region_text(src, "impl_simplex")),
                    "impl_bop": all_fns(region_text(src, "impl_bop"))}
        self.names = {(r, f): g for g, r, f in ENTRY}
        self.done = {}      # (region, fn) -> (gname, sorts, ret)
        self.out = []
        self.helpers = []
        self.active = []

    def inline(self, name):
        return getattr(self, "inlines", {}).get(name)

    def has(self, region, name):
        return name in self.fns[region] and name not in ("b", "d", "u", "a")

    def need(self, region, name):
        key = (region, name)
        if key in self.done:
            return self.done[key]
        if key in self.active:
            raise Unsupported("recursive function %s" % name)
        self.active.append(key)
        params, header, body = self.fns[region][name]
        gname = self.names.get(key)
        if gname is None:
            gname = ("g_sx_" if region == "impl_simplex" else "g_") + name
            while gname in {v[0] for v in self.done.values()} | set(self.names.values()):
                gname += "_"
            self.helpers.append(gname)
        ps = param_list(params)
        sorts = [type_sort(t, region) for _, t in ps]
        ret = ret_sort(header, region)
        env = {}
        gparams = []
        tr = Tr(self, region, gname, ret)
        for (pn, pt), s in zip(ps, sorts):
            if s == "str":
                env[pn] = ('""', "str")
                continue
            g = {"self": "x", "rhs": "y"}.get(pn, pn)
            if g in RESERVED:
                g += "_"
            env[pn] = (g, s)
            gparams.append("(%s : %s)" % (g, GTYPE[s]))
        blk = P(lex(body)).block()

        def final(t, s, _env):
            if s == ret:
                return t
            if ret.startswith("opt_") and s == ret[4:]:
                return "Some %s" % t
            if ret == "res" and s == "bool":
                return t
            tr.err("body of sort %s where %s is returned" % (s, ret))
        tr.kret = final
        term = tr.block(blk, env, final)
        self.out.append("(* fn %s(%s)%s *)\nDefinition %s %s : %s :=\n  %s.\n" % (
            name, re.sub(r"\s+", " ", params.strip()), re.sub(r"\s+", " ", header.rstrip()), gname, " ".join(gparams), GTYPE[ret], term))
        self.active.pop()
        self.done[key] = (gname, sorts, ret)
        return self.done[key]

    def render(self):
        for g, r, f in ENTRY:
            if f not in self.fns[r]:
                raise Unsupported("function %s not found" % f)
            self.need(r, f)
        unfold = ("cbv beta delta [%s]" % " ".join(self.helpers)) if self.helpers else "idtac"
        return (PRELUDE % self.path) + "\n" + "\n".join(self.out) + "\nEnd BiGen.\n\n" + \
            "(* private helper functions of the source: unfolded before a generated operator is compared with the model *)\n" + \
            "Ltac gen_unfold := %s.\n" % unfold


CHECKS_PRELUDE = '''(* GENERATED by tools/rs2v.py --checks from %s and %s - do not edit. *)
From Coq Require Import List Bool.
From SL Require Import Model.Num.

Section ChkGen.
Context {B : Fld}.
Variable eps : F B.
Notation V := (@V B).
Notation is_zero := (is_zero eps).
Notation is_one := (is_one eps).
'''


class Checks:
    """src/approx_ext.rs and src/errors.rs: the tolerance predicates and the two checking functions.  Calls between
    them are inlined (is_in_range is only ever called with the literals 0 and 1, which decides which of the model's
    tolerance tests an `ulps_eq!` is)."""
    ENTRY = [("g_is_one", "is_one"), ("g_is_zero", "is_zero"), ("g_in_unit_interval", "in_unit_interval"),
             ("g_check_unit_interval", "check_unit_interval"), ("g_check_is_one", "check_is_one")]

    def __init__(self, approx_path, errors_path):
        self.paths = (approx_path, errors_path)
        self.fns = {}
        for p in (approx_path, errors_path):
            src = strip_comments(open(p).read())
            i = src.find("pub mod verif")
            if i >= 0:
                src = src[:i]
            self.fns.update(all_fns(src))
        self.inlines = {}
        for name, (params, header, body) in self.fns.items():
            ps = [n for n, _ in param_list(params)]
            self.inlines[name] = (ps, P(lex(body)).block())

    def inline(self, name):
        return self.inlines.get(name)

    def has(self, region, name):
        return False

    def render(self):
        out = [CHECKS_PRELUDE % self.paths]
        for g, f in self.ENTRY:
            if f not in self.fns:
                raise Unsupported("function %s not found" % f)
            params, header, body = self.fns[f]
            ps = param_list(params)
            ret = "res" if "Result" in header else "bool"
            tr = Tr(self, "top", g, ret)
            env = {}
            gparams = []
            for pn, pt in ps:
                if pn == "label":
                    env[pn] = ('""', "str")
                else:
                    env[pn] = (pn, "num")
                    gparams.append("(%s : V)" % pn)

            def final(t, s, _env, tr=tr, ret=ret):
                if s in (ret, "bool", "res"):
                    return t
                tr.err("body of sort %s" % s)
            tr.kret = final
            term = tr.block(P(lex(body)).block(), env, final)
            out.append("(* fn %s *)\nDefinition %s %s : bool :=\n  %s.\n" % (f, g, " ".join(gparams), term))
        out.append("End ChkGen.\n")
        return "\n".join(out)


CONVERT_PRELUDE = '''(* GENERATED by tools/rs2v.py --convert from %s - do not edit. *)
From Coq Require Import List Bool.
Import ListNotations.
From SL Require Import Model.Num Model.Vec Model.Mul Model.Bi.

Section ConvGen.
Context {B : Fld}.
Notation V := (@V B).
Notation bop := (@bop B).
Notation opinion := (@opinion B).
Definition sx : Type := (V * V * V)%%type.
Definition sx_b (s : sx) : V := fst (fst s).
Definition sx_d (s : sx) : V := snd (fst s).
Definition sx_u (s : sx) : V := snd s.
Definition sx_of (w : bop) : sx := (bb w, bd w, bu w).
'''


def render_convert(path):
    """src/convert.rs: the three From impls between BOpinion and Opinion1d<_, 2>"""
    src = strip_comments(open(path).read())
    body = region_text(src, "impl_convert")
    impls = [("g_bop_to_mul", r"impl\s+From<BOpinion<\$ft>>\s+for\s+Opinion1d<\$ft,\s*2>", "bop", "op2"),
             ("g_mul_to_bop_ref", r"impl\s+From<&Opinion1d<\$ft,\s*2>>\s+for\s+BOpinion<\$ft>", "op2", "bop"),
             ("g_mul_to_bop", r"impl\s+From<Opinion1d<\$ft,\s*2>>\s+for\s+BOpinion<\$ft>", "op2", "bop")]
    out = [CONVERT_PRELUDE % path]

    class M:
        conv = {}        # sort of the argument -> (generated conversion already defined, its result sort)

        def inline(self, name):
            return None

        def has(self, region, name):
            return False
    # a conversion may be written in terms of one defined before it; try the orders until one translates
    import itertools
    last = None
    for order in itertools.permutations(impls):
        M.conv = {}
        try:
            return _render_convert(path, body, list(order), M)
        except Unsupported as e:
            last = e
    raise last


def _render_convert(path, body, impls, M):
    out = [CONVERT_PRELUDE % path]
    for g, hdr, sin, sout in impls:
        m = re.search(hdr + r"\s*\{", body)
        if not m:
            raise Unsupported("impl block for %s not found" % g)
        blk = body[m.end() - 1:brace_end(body, m.end() - 1)]
        fns = all_fns(blk)
        if "from" not in fns:
            raise Unsupported("%s: fn from not found" % g)
        params, header, fbody = fns["from"]
        pn = param_list(params)[0][0]
        tr = Tr(M(), "impl_bop", g, sout)

        def final(t, s, _e, tr=tr, sout=sout):
            if s != sout:
                tr.err("body of sort %s where %s is expected" % (s, sout))
            return t
        tr.kret = final
        term = tr.block(P(lex(fbody)).block(), {pn: ("x", sin)}, final)
        out.append("Definition %s (x : %s) : %s :=\n  %s.\n" % (g, GTYPE[sin], GTYPE[sout], term))
        M.conv.setdefault(sin, (g, sout))
    out.append("End ConvGen.\n")
    return "\n".join(out)


if __name__ == "__main__":
    try:
        if sys.argv[1] == "--convert":
            sys.stdout.write(render_convert(sys.argv[2]))
            sys.exit(0)
        if sys.argv[1] == "--checks":
            sys.stdout.write(Checks(sys.argv[2], sys.argv[3]).render())
            sys.exit(0)
        sys.stdout.write(Module(sys.argv[1]).render())
    except Unsupported as e:
        sys.stderr.write("rs2v: outside the translated subset: %s\n" % e)
        sys.exit(2)
