#!/usr/bin/env python3
"""rs2v: translator from the binomial half of the crate (src/bi.rs) to Gallina.

    tools/rs2v.py /repo/src/bi.rs > build/gen/BiGen.v

The numeric methods of `impl BOpinion<$ft>` (projection, mul, comul, cfuse, afuse, wfuse, deduce, trans_unc,
trans_opp, trans_bsr), the checked constructors (BOpinion::try_new/new, BSimplex::try_new/new) and the two
checking functions (check_simplex, check_base_rate) are written in a small, first-order subset of Rust: let
bindings (also declared first and assigned in the branches of an if), if / else if / else, match on a tuple
of booleans, float arithmetic, comparisons, `ulps_eq!(e, 0.0|1.0)`, the accessors b() d() u() a(), `?` and
`.unwrap()` on the checks.  This script parses exactly that subset (anything else is an error: the tie is
then reported as broken) and prints one Gallina definition per function, over the same number structure as
the hand-written model (coq/Model/Num.v): every float operation becomes the NaN-carrying lifted operation,
`Result<(), E>` becomes bool, `Result<T, E>` / a panicking constructor becomes option.  coq/Gen/BiGenEq.v then
proves each generated definition equal to the model's (coq/Model/Bi.v) for every number structure.

What is interpreted rather than translated (the translator's own trusted table): the accessors b()/d()/u()/a()
(their bodies are checked against the expected text below), `check_unit_interval` = Num.in_unit,
`check_is_one` = Num.is_one, `ulps_eq!(e, 1.0)` = Num.is_one, `ulps_eq!(e, 0.0)` = Num.is_zero (these are the
subject of C01's bit-exact theorems), Rust's left-to-right evaluation of the arithmetic (kept as written).
"""
import re
import sys


class Unsupported(Exception):
    pass


# ------------------------------------------------------------------ lexer

TOK = re.compile(r"""
    (?P<ws>\s+|//[^\n]*)
  | (?P<num>\d+\.\d+|\d+)
  | (?P<str>"(?:[^"\\]|\\.)*")
  | (?P<id>\$?[A-Za-z_][A-Za-z0-9_]*)
  | (?P<op>::|->|=>|==|!=|>=|<=|&&|\|\||[-+*/=<>!&|.,;:?(){}\[\]])
""", re.X)


def lex(src):
    out = []
    i = 0
    while i < len(src):
        m = TOK.match(src, i)
        if not m:
            raise Unsupported("cannot tokenise at: %r" % src[i:i + 30])
        i = m.end()
        if m.lastgroup == "ws":
            continue
        out.append((m.lastgroup, m.group(m.lastgroup)))
    return out


# ----------------------------------------------------------------- parser

class P:
    def __init__(self, toks):
        self.t = toks
        self.i = 0

    def peek(self, k=0):
        return self.t[self.i + k] if self.i + k < len(self.t) else ("eof", "")

    def next(self):
        x = self.peek()
        self.i += 1
        return x

    def at(self, v):
        return self.peek()[1] == v and self.peek()[0] in ("op", "id")

    def eat(self, v):
        if not self.at(v):
            raise Unsupported("expected %r, found %r" % (v, self.peek()[1]))
        self.i += 1

    def maybe(self, v):
        if self.at(v):
            self.i += 1
            return True
        return False

    # block := '{' stmt* [expr] '}'
    def block(self):
        self.eat("{")
        stmts = []
        tail = None
        while not self.at("}"):
            if self.at("let"):
                self.next()
                if self.maybe("mut"):
                    raise Unsupported("let mut")
                kind, name = self.next()
                if kind != "id":
                    raise Unsupported("pattern in let")
                if self.maybe(":"):
                    self.skip_type()
                init = None
                if self.maybe("="):
                    init = self.expr()
                self.eat(";")
                stmts.append(("let", name, init))
                continue
            e = self.expr()
            if self.maybe(";"):
                stmts.append(("expr", e))
            elif self.maybe("="):
                if e[0] != "var":
                    raise Unsupported("assignment to a place other than a variable")
                rhs = self.expr()
                self.eat(";")
                stmts.append(("assign", e[1], rhs))
            elif self.at("}"):
                tail = e
            elif e[0] in ("if", "match"):
                stmts.append(("expr", e))
            else:
                raise Unsupported("statement: unexpected %r" % (self.peek()[1],))
        self.eat("}")
        return ("block", stmts, tail)

    def skip_type(self):
        depth = 0
        while True:
            k, v = self.peek()
            if v in ("<", "(", "["):
                depth += 1
            elif v in (">", ")", "]"):
                if depth == 0:
                    return
                depth -= 1
            elif depth == 0 and v in ("=", ";", ",", "{"):
                return
            self.next()

    PREC = {"||": 1, "&&": 2, "==": 3, "!=": 3, "<": 3, ">": 3, "<=": 3, ">=": 3, "+": 4, "-": 4, "*": 5, "/": 5}

    def expr(self, minp=0, nostruct=False):
        lhs = self.unary(nostruct)
        while True:
            k, v = self.peek()
            if k == "op" and v in self.PREC and self.PREC[v] > minp:
                # `a = b` is not an operator; `=` never reaches here (not in PREC)
                self.next()
                rhs = self.expr(self.PREC[v], nostruct)
                lhs = ("bin", v, lhs, rhs)
            else:
                return lhs

    def unary(self, nostruct):
        if self.at("-"):
            self.next()
            return ("neg", self.unary(nostruct))
        if self.at("*") or self.at("&"):
            self.next()          # deref / borrow: numbers are values in the model
            return self.unary(nostruct)
        if self.at("!"):
            self.next()
            return ("not", self.unary(nostruct))
        return self.postfix(self.primary(nostruct))

    def args(self, close=")"):
        out = []
        while not self.at(close):
            out.append(self.expr())
            if not self.maybe(","):
                break
        self.eat(close)
        return out

    def postfix(self, e):
        while True:
            if self.at("."):
                self.next()
                k, name = self.next()
                if k == "num":
                    e = ("field", e, name)
                elif self.at("("):
                    self.next()
                    e = ("mcall", e, name, self.args())
                else:
                    e = ("field", e, name)
            elif self.at("["):
                self.next()
                idx = self.expr()
                self.eat("]")
                e = ("index", e, idx)
            elif self.at("?"):
                self.next()
                e = ("try", e)
            else:
                return e

    def path(self, first):
        parts = [first]
        while self.at("::"):
            self.next()
            if self.at("<"):
                self.next()
                d = 1
                while d:
                    v = self.next()[1]
                    d += (v == "<") - (v == ">")
                continue
            parts.append(self.next()[1])
        return parts

    def primary(self, nostruct):
        k, v = self.next()
        if k == "num":
            return ("num", v)
        if k == "str":
            return ("str", v)
        if v == "(":
            es = []
            if self.at(")"):
                self.next()
                return ("tuple", [])
            es.append(self.expr())
            if self.at(","):
                while self.maybe(","):
                    if self.at(")"):
                        break
                    es.append(self.expr())
                self.eat(")")
                return ("tuple", es)
            self.eat(")")
            return es[0]
        if v == "[":
            return ("array", self.args("]"))
        if v == "if":
            cond = self.expr(nostruct=True)
            th = self.block()
            el = None
            if self.maybe("else"):
                el = ("block", [], self.primary(nostruct)) if self.at("if") else self.block()
            return ("if", cond, th, el)
        if v == "match":
            scr = self.expr(nostruct=True)
            self.eat("{")
            arms = []
            while not self.at("}"):
                pats = [self.pattern()]
                while self.maybe("|"):
                    pats.append(self.pattern())
                self.eat("=>")
                body = self.block() if self.at("{") else self.expr()
                self.maybe(",")
                arms.append((pats, body))
            self.eat("}")
            return ("match", scr, arms)
        if v == "{":
            self.i -= 1
            return self.block()
        if k == "id":
            if self.at("!"):
                self.next()
                self.eat("(")
                return ("macro", v, self.args())
            parts = self.path(v)
            if self.at("(") :
                self.next()
                return ("call", parts, self.args())
            if self.at("{") and not nostruct and parts[0][0].isupper():
                self.next()
                fields = []
                while not self.at("}"):
                    fname = self.next()[1]
                    self.eat(":")
                    fields.append((fname, self.expr()))
                    self.maybe(",")
                self.eat("}")
                return ("struct", parts, fields)
            if len(parts) == 1:
                return ("var", v)
            return ("path", parts)
        raise Unsupported("expression: unexpected %r" % (v,))

    def pattern(self):
        self.eat("(")
        ps = []
        while not self.at(")"):
            ps.append(self.next()[1])
            self.maybe(",")
        self.eat(")")
        return ps


# --------------------------------------------------- locating the functions

def find_fn(src, name, start=0):
    m = re.compile(r"\bfn\s+%s\b" % re.escape(name)).search(src, start)
    if not m:
        raise Unsupported("function %s not found" % name)
    i = src.index("(", m.end())
    depth = 0
    j = i
    while True:
        depth += (src[j] == "(") - (src[j] == ")")
        j += 1
        if depth == 0:
            break
    params = src[i + 1:j - 1]
    k = src.index("{", j)
    header = src[j:k]
    depth = 0
    e = k
    while True:
        depth += (src[e] == "{") - (src[e] == "}")
        e += 1
        if depth == 0:
            break
    return params, header, src[k:e], e


def param_names(params):
    out = []
    for p in split_top(params):
        p = p.strip()
        if not p:
            continue
        if p in ("&self", "self"):
            out.append(("self", "Self"))
            continue
        n, t = p.split(":", 1)
        out.append((n.strip(), t.strip()))
    return out


def split_top(s):
    out, depth, cur = [], 0, ""
    for ch in s:
        if ch in "<([":
            depth += 1
        elif ch in ">)]":
            depth -= 1
        if ch == "," and depth == 0:
            out.append(cur)
            cur = ""
        else:
            cur += ch
    out.append(cur)
    return out


# ------------------------------------------------------------- translation

NUM = {"0.0": "zero", "1.0": "one", "2.0": "two"}
ARITH = {"+": "add", "-": "sub", "*": "mul", "/": "div"}
BOOLRES = {"check_simplex", "check_base_rate", "check_unit_interval", "check_is_one"}


class Tr:
    """CPS translation of one function body; values carry a sort:
       num | bool | bop | sx (b,d,u triple) | opt_bop | opt_sx | res (bool for Result<(),E>) | unit"""

    def __init__(self, fname, ret, env):
        self.fname = fname
        self.ret = ret          # 'num' | 'res' | 'opt_bop' | 'opt_sx'
        self.env = dict(env)    # rust name -> (gallina term, sort)
        self.n = 0

    def fresh(self, base):
        self.n += 1
        return "%s_%d" % (base, self.n)

    def fail(self):
        return {"res": "false", "opt_bop": "None", "opt_sx": "None"}.get(self.ret) or self.err("failure in a function returning a number")

    def err(self, msg):
        raise Unsupported("%s: %s" % (self.fname, msg))

    # ---- blocks
    def block(self, blk, env, k):
        """k(term, sort, env) consumes the block's value"""
        _, stmts, tail = blk
        return self.stmts(list(stmts), tail, dict(env), k)

    def stmts(self, stmts, tail, env, k):
        if not stmts and tail is not None and tail[0] == "if" and not self.is_value_if(tail):
            stmts, tail = [("expr", tail)], None      # `else if` chain of assignments
        if not stmts:
            if tail is None:
                return k("tt", "unit", env)
            return self.expr(tail, env, lambda t, s: k(t, s, env))
        st, rest = stmts[0], stmts[1:]
        if st[0] == "let":
            _, name, init = st
            if init is None:
                env2 = dict(env)
                env2[name] = (None, "undef")
                return self.stmts(rest, tail, env2, k)

            def bound(t, s):
                env2 = dict(env)
                if re.fullmatch(r"[A-Za-z_][A-Za-z0-9_']*", t):
                    env2[name] = (t, s)
                    return self.stmts(rest, tail, env2, k)
                g = self.gname(name, env)
                env2[name] = (g, s)
                return "let %s := %s in\n  %s" % (g, t, self.stmts(rest, tail, env2, k))
            return self.expr(init, env, bound)
        if st[0] == "assign":
            _, name, rhs = st
            if name not in env or env[name][1] != "undef":
                self.err("assignment to %s, which is not a declared-but-unset variable" % name)

            def bound(t, s):
                env2 = dict(env)
                g = self.gname(name, env)
                env2[name] = (g, s)
                return "let %s := %s in\n  %s" % (g, t, self.stmts(rest, tail, env2, k))
            return self.expr(rhs, env, bound)
        if st[0] == "expr":
            e = st[1]
            if e[0] == "if" and not self.is_value_if(e):
                # statement-if whose branches assign declared variables: the rest of the block is the
                # continuation of every branch
                _, cond, th, el = e
                if el is None:
                    self.err("if without else")

                def after(t, s, envb):
                    return self.stmts(rest, tail, envb, k)
                return self.expr(cond, env, lambda c, s: "if %s\n  then %s\n  else %s" % (
                    c, self.block(th, env, after), self.block(el, env, after)))
            # `check(...)?;` / `check(...).unwrap();`

            def seq(t, s):
                if s in ("unit",):
                    return self.stmts(rest, tail, env, k)
                self.err("expression statement of sort %s" % s)
            return self.expr(e, env, seq, stmt=(rest, tail, env, k))
        self.err("statement %r" % (st[0],))

    def gname(self, name, env):
        used = {v[0] for v in env.values() if v[0]}
        g = name if name not in ("mul", "add", "sub", "div", "one", "zero", "two", "eps") else name + "_"
        while g in used:
            g += "'"
        return g

    def is_value_if(self, e):
        """an if whose branches end in an expression (no assignments)"""
        def blk_val(b):
            return b is not None and b[2] is not None and not any(s[0] == "assign" for s in b[1])
        return blk_val(e[2]) and blk_val(e[3])

    # ---- expressions
    def expr(self, e, env, k, stmt=None):
        t = e[0]
        if t == "num":
            if e[1] not in NUM:
                self.err("numeric literal %s" % e[1])
            return k(NUM[e[1]], "num")
        if t == "var":
            if e[1] not in env or env[e[1]][1] == "undef":
                self.err("unknown or unset variable %s" % e[1])
            return k(*env[e[1]])
        if t == "neg":
            return self.expr(e[1], env, lambda a, s: k("(sub zero %s)" % a, "num"))
        if t == "not":
            return self.expr(e[1], env, lambda a, s: k("(negb %s)" % a, "bool"))
        if t == "bin":
            _, op, l, r = e
            if op in ARITH:
                return self.expr(l, env, lambda a, sa: self.expr(r, env, lambda b, sb: self.arith(op, a, sa, b, sb, k)))
            if op in (">", "<", ">=", "<="):
                f = {">": "gtb %s %s", "<": "ltb %s %s", ">=": "leb %s %s", "<=": "leb %s %s"}[op]
                return self.expr(l, env, lambda a, sa: self.expr(r, env, lambda b, sb: k(
                    "(" + (f % ((b, a) if op == ">=" else (a, b))) + ")", "bool")))
            if op == "&&":
                return self.expr(l, env, lambda a, sa: self.expr(r, env, lambda b, sb: k("(%s && %s)" % (a, b), "bool")))
            if op == "||":
                return self.expr(l, env, lambda a, sa: self.expr(r, env, lambda b, sb: k("(%s || %s)" % (a, b), "bool")))
            self.err("operator %s" % op)
        if t == "field":
            _, obj, name = e
            return self.expr(obj, env, lambda a, s: self.field(a, s, name, k))
        if t == "mcall":
            _, obj, name, args = e
            if name == "unwrap" and not args:
                return self.expr(obj, env, lambda a, s: self.unwrap(a, s, k, stmt))
            return self.expr(obj, env, lambda a, s: self.method(a, s, name, args, env, k))
        if t == "try":
            return self.expr(e[1], env, lambda a, s: self.unwrap(a, s, k, stmt))
        if t == "index":
            _, obj, idx = e
            if idx[0] != "num" or idx[1] not in ("0", "1"):
                self.err("index other than the literals 0 / 1")
            return self.expr(obj, env, lambda a, s: self.index(a, s, int(idx[1]), k))
        if t == "macro":
            _, name, args = e
            if name != "ulps_eq" or len(args) != 2 or args[1][0] != "num" or args[1][1] not in ("0.0", "1.0"):
                self.err("macro %s! other than ulps_eq!(e, 0.0 | 1.0)" % name)
            f = "is_zero" if args[1][1] == "0.0" else "is_one"
            return self.expr(args[0], env, lambda a, s: k("(%s %s)" % (f, a), "bool"))
        if t == "if":
            _, cond, th, el = e
            if el is None or not self.is_value_if(e):
                self.err("if used as a value without else / with assignments")
            sort = []

            def br(b):
                def kk(tm, s, _env):
                    sort.append(s)
                    return tm
                return self.block(b, env, kk)
            return self.expr(cond, env, lambda c, s: (lambda a, b: k("(if %s\n   then %s\n   else %s)" % (c, a, b), sort[0]))(br(th), br(el)))
        if t == "match":
            return self.match(e, env, k)
        if t == "block":
            out = []

            def kk(tm, s, _env):
                out.append(s)
                return tm
            tm = self.block(e, env, kk)
            return k("(%s)" % tm, out[0])
        if t == "tuple":
            if not e[1]:
                return k("tt", "unit")
            self.err("tuple value")
        if t == "call":
            return self.call(e, env, k)
        if t == "struct":
            return self.struct(e, env, k)
        if t == "array":
            if len(e[1]) != 2:
                self.err("array literal of length %d" % len(e[1]))
            return self.expr(e[1][0], env, lambda a, sa: self.expr(e[1][1], env, lambda b, sb: (
                k("%s, %s" % (a, b), "pair") if (sa, sb) == ("num", "num") else self.err("array of %s, %s" % (sa, sb)))))
        if t == "str":
            return k('""', "str")
        self.err("expression form %s" % t)

    def arith(self, op, a, sa, b, sb, k):
        if sa != "num" or sb != "num":
            self.err("arithmetic on %s / %s" % (sa, sb))
        return k("(%s %s %s)" % (ARITH[op], a, b), "num")

    def field(self, a, s, name, k):
        if s == "bop" and name == "base_rate":
            return k("(ba %s)" % a, "num")
        if s == "bop" and name == "simplex":
            return k("(sx_of %s)" % a, "sx")
        self.err("field .%s of a %s" % (name, s))

    def method(self, a, s, name, args, env, k):
        if args and name not in ("mul", "comul"):
            self.err("method %s with arguments" % name)
        if s == "bop" and name in ("b", "d", "u", "a"):
            return k("(b%s %s)" % (name, a), "num")
        if s == "sx" and name in ("b", "d", "u"):
            return k("(sx_%s %s)" % (name, a), "num")
        if s == "bop" and name == "projection":
            return k("(g_projection %s)" % a, "num")
        self.err("method .%s() on a %s" % (name, s))

    def index(self, a, s, i, k):
        if s == "sx2":
            return k("(%s %s)" % ("fst" if i == 0 else "snd", a), "sx")
        self.err("indexing a %s" % s)

    def unwrap(self, a, s, k, stmt):
        if s == "res":
            # Result<(), E>: continue on success, fail otherwise
            if stmt is None:
                self.err("`?` / unwrap on a check in a value position")
            rest, tail, env, kk = stmt
            return "if %s then %s else %s" % (a, self.stmts(rest, tail, env, kk), self.fail())
        if s in ("opt_bop", "opt_sx"):
            inner = s[4:]
            if stmt is not None:
                self.err("value of a checked constructor dropped")
            v = self.fresh("v")
            body = k(v, inner)
            if body == "Some %s" % v or body == v + "?":
                return a
            return "match %s with Some %s => %s | None => %s end" % (a, v, body, self.fail())
        self.err("`?` / unwrap on a %s" % s)

    def call(self, e, env, k):
        _, path, args = e
        name = path[-1]
        full = "::".join(path)

        def with_args(i, acc):
            if i == len(args):
                return self.apply(full, name, acc, k)
            return self.expr(args[i], env, lambda a, s: with_args(i + 1, acc + [(a, s)]))
        return with_args(0, [])

    def apply(self, full, name, a, k):
        nums = lambda n: len(a) >= n and all(s == "num" for _, s in a[:n])
        if name == "check_unit_interval" and nums(1):
            return k("(in_unit %s)" % a[0][0], "res")
        if name == "check_is_one" and nums(1):
            return k("(is_one %s)" % a[0][0], "res")
        if name == "check_simplex" and nums(3) and len(a) == 3:
            return k("(g_check_simplex %s %s %s)" % tuple(x for x, _ in a), "res")
        if name == "check_base_rate" and nums(1) and len(a) == 1:
            return k("(g_check_base_rate %s)" % a[0][0], "res")
        if name == "Ok" and len(a) == 1:
            t, s = a[0]
            if s == "unit":
                return k("true", "res")
            if s in ("bop", "sx"):
                return k("Some %s" % t, "opt_" + s)
        if full in ("Self::try_new", "Self::new") or (len(full.split("::")) == 2 and name in ("try_new", "new")):
            owner = full.split("::")[0]
            if nums(4) and len(a) == 4 and owner in ("Self", "BOpinion"):
                return k("(g_try_new %s %s %s %s)" % tuple(x for x, _ in a), "opt_bop")
            if nums(3) and len(a) == 3 and owner in ("Self", "BSimplex"):
                return k("(g_sx_try_new %s %s %s)" % tuple(x for x, _ in a), "opt_sx")
        if name == "new_unchecked" and len(a) == 2 and a[0][1] == "pair" and a[1][1] == "num":
            return k("(%s, %s)" % (a[0][0], a[1][0]), "sx")
        if full == "Self" and len(a) == 1 and a[0][1] == "sx":
            return k(a[0][0], "sx")          # tuple struct BSimplex(simplex)
        self.err("call of %s with %d argument(s) of sorts %s" % (full, len(a), [s for _, s in a]))

    def struct(self, e, env, k):
        _, path, fields = e
        names = [f for f, _ in fields]
        if path != ["Self"] or names != ["simplex", "base_rate"]:
            self.err("struct literal %s {%s}" % ("::".join(path), ", ".join(names)))
        return self.expr(fields[0][1], env, lambda s, ss: self.expr(fields[1][1], env, lambda a, sa: (
            k("(mk_bop %s %s)" % (s, a), "bop") if (ss, sa) == ("sx", "num") else self.err("fields of sorts %s, %s" % (ss, sa)))))

    def match(self, e, env, k):
        _, scr, arms = e
        if scr[0] != "tuple" or len(scr[1]) != 2:
            self.err("match on something other than a pair")

        def with_scr(i, acc):
            if i == 2:
                return self.arms(acc, arms, env, k)
            return self.expr(scr[1][i], env, lambda a, s: (
                with_scr(i + 1, acc + [a]) if s == "bool" else self.err("match on a pair of %s" % s)))
        return with_scr(0, [])

    def arms(self, ms, arms, env, k):
        # bind the two scrutinee booleans, then a chain of ifs; the last arm is taken unconditionally
        # (the Rust compiler has checked exhaustiveness)
        m0, m1 = self.fresh("m"), self.fresh("m")
        sort = []

        def arm_body(pats, body):
            env2 = dict(env)
            if len(pats) == 1:
                for p, m in zip(pats[0], (m0, m1)):
                    if p not in ("true", "false", "_"):
                        env2[p] = (m, "bool")

            def kk(tm, s, _e=None):
                sort.append(s)
                return tm
            if body[0] == "block":
                return self.block(body, env2, kk)
            return self.expr(body, env2, lambda tm, s: kk(tm, s))

        def cond(pats):
            alts = []
            for p in pats:
                cs = []
                for q, m in zip(p, (m0, m1)):
                    if q == "true":
                        cs.append(m)
                    elif q == "false":
                        cs.append("negb %s" % m)
                alts.append(" && ".join(cs) if cs else "true")
            return " || ".join("(%s)" % a for a in alts)

        def chain(i):
            pats, body = arms[i]
            if i == len(arms) - 1:
                return arm_body(pats, body)
            return "if %s\n   then %s\n   else %s" % (cond(pats), arm_body(pats, body), chain(i + 1))
        tm = chain(0)
        return "let %s := %s in let %s := %s in\n  %s" % (m0, ms[0], m1, ms[1], k("(%s)" % tm, sort[0])) \
            if False else k("(let %s := %s in let %s := %s in\n   %s)" % (m0, ms[0], m1, ms[1], tm), sort[0])


# ---------------------------------------------------------------- driver

ACCESSORS = [
    # (impl header regex, fn name, expected body)
    (r"impl<T>\s+BSimplex<T>", "b", "&self.0.belief[0]"),
    (r"impl<T>\s+BSimplex<T>", "d", "&self.0.belief[1]"),
    (r"impl<T>\s+BSimplex<T>", "u", "&self.0.uncertainty"),
    (r"impl<T>\s+BOpinion<T>", "b", "&self.simplex.b()"),
    (r"impl<T>\s+BOpinion<T>", "d", "&self.simplex.d()"),
    (r"impl<T>\s+BOpinion<T>", "u", "self.simplex.u()"),
    (r"impl<T>\s+BOpinion<T>", "a", "&self.base_rate"),
]

FUNS = [
    # gallina name, rust fn, where to look ('top' | 'impl_simplex' | 'impl_bop'), parameter sorts, return sort
    ("g_check_simplex", "check_simplex", "top", ["num", "num", "num"], "res"),
    ("g_check_base_rate", "check_base_rate", "top", ["num"], "res"),
    ("g_sx_try_new", "try_new", "impl_simplex", ["num", "num", "num"], "opt_sx"),
    ("g_sx_new", "new", "impl_simplex", ["num", "num", "num"], "opt_sx"),
    ("g_try_new", "try_new", "impl_bop", ["num", "num", "num", "num"], "opt_bop"),
    ("g_new", "new", "impl_bop", ["num", "num", "num", "num"], "opt_bop"),
    ("g_projection", "projection", "impl_bop", ["bop"], "num"),
    ("g_mul", "mul", "impl_bop", ["bop", "bop"], "opt_bop"),
    ("g_comul", "comul", "impl_bop", ["bop", "bop"], "opt_bop"),
    ("g_cfuse", "cfuse", "impl_bop", ["bop", "bop"], "opt_bop"),
    ("g_afuse", "afuse", "impl_bop", ["bop", "bop", "num"], "opt_bop"),
    ("g_wfuse", "wfuse", "impl_bop", ["bop", "bop", "num"], "opt_bop"),
    ("g_deduce", "deduce", "impl_bop", ["bop", "sx2", "num"], "opt_bop"),
    ("g_trans_unc", "trans_unc", "impl_bop", ["bop", "num"], "opt_bop"),
    ("g_trans_opp", "trans_opp", "impl_bop", ["bop", "num", "num"], "opt_bop"),
    ("g_trans_bsr", "trans_bsr", "impl_bop", ["bop", "num"], "opt_bop"),
]

GTYPE = {"num": "V", "bop": "bop", "sx2": "(sx * sx)", "res": "bool", "opt_bop": "option bop", "opt_sx": "option sx"}

PRELUDE = '''(* GENERATED by tools/rs2v.py from %s - do not edit. *)
From Coq Require Import List Bool.
From SL Require Import Model.Num Model.Vec Model.Mul Model.Bi.

Section BiGen.
Context {B : Fld}.
Variable eps : F B.
Notation V := (@V B).
Notation is_zero := (is_zero eps).
Notation is_one := (is_one eps).
Notation in_unit := (in_unit eps).
Notation bop := (@bop B).

(* BSimplex: (b, d, u);  BOpinion { simplex, base_rate } = Bi.bop *)
Definition sx : Type := (V * V * V)%%type.
Definition sx_b (s : sx) : V := fst (fst s).
Definition sx_d (s : sx) : V := snd (fst s).
Definition sx_u (s : sx) : V := snd s.
Definition sx_of (w : bop) : sx := (bb w, bd w, bu w).
Definition mk_bop (s : sx) (a : V) : bop := mkbop (sx_b s) (sx_d s) (sx_u s) a.
'''


def region(src, macro):
    """text of `macro_rules! <macro> { ... }`"""
    m = re.search(r"macro_rules!\s+%s\s*\{" % macro, src)
    if not m:
        raise Unsupported("macro %s not found" % macro)
    i = m.end() - 1
    depth = 0
    j = i
    while True:
        depth += (src[j] == "{") - (src[j] == "}")
        j += 1
        if depth == 0:
            break
    return src[i:j]


def strip_comments(src):
    return re.sub(r"//[^\n]*", "", src)


def check_accessors(src):
    for hdr, fn, want in ACCESSORS:
        m = re.search(hdr + r"\s*\{", src)
        if not m:
            raise Unsupported("accessor impl block %s not found" % hdr)
        _, _, body, _ = find_fn(src, fn, m.end())
        got = re.sub(r"\s+", "", body.strip()[1:-1])
        if got != want:
            raise Unsupported("accessor %s of `%s` is %r, the translator's table says %r" % (fn, hdr, got, want))


def translate(path):
    src = strip_comments(open(path).read())
    check_accessors(src)
    regions = {"top": src[:src.index("macro_rules!")], "impl_simplex": region(src, "impl_simplex"),
               "impl_bop": region(src, "impl_bop")}
    out = [PRELUDE % path]
    for gname, fn, where, sorts, ret in FUNS:
        params, header, body, _ = find_fn(regions[where], fn)
        ps = param_names(params)
        if len(ps) != len(sorts):
            raise Unsupported("%s: %d parameters, %d expected" % (fn, len(ps), len(sorts)))
        env = {}
        gparams = []
        for (pn, pt), s in zip(ps, sorts):
            g = {"self": "x", "rhs": "y"}.get(pn, pn)
            if g in ("mul", "add", "sub", "div"):
                g += "_"
            env[pn] = (g, s)
            gparams.append("(%s : %s)" % (g, GTYPE[s]))
        tr = Tr(gname, ret, env)
        blk = P(lex(body)).block()

        def final(t, s, _env, tr=tr, ret=ret):
            if s == ret or (ret == "res" and s == "res"):
                return t
            if ret.startswith("opt_") and s == ret[4:]:
                return "Some %s" % t
            tr.err("body of sort %s where %s is returned" % (s, ret))
        term = tr.block(blk, env, final)
        out.append("(* fn %s(%s)%s *)\nDefinition %s %s : %s :=\n  %s.\n" % (
            fn, re.sub(r"\s+", " ", params.strip()), re.sub(r"\s+", " ", header.rstrip()), gname, " ".join(gparams), GTYPE[ret], term))
    out.append("End BiGen.\n")
    return "\n".join(out)


if __name__ == "__main__":
    try:
        sys.stdout.write(translate(sys.argv[1]))
    except Unsupported as e:
        sys.stderr.write("rs2v: outside the translated subset: %s\n" % e)
        sys.exit(2)
