(* Driver of the extracted model: reads cases (one per line) from the file named
   on the command line, prints one answer per line.
     case  : <opname> <f32|f64> <ndims> d1..dk <nnums> t1..tn
     token : N (non-finite)  |  [-]HEXNUM/HEXDEN (exact rational)
     answer: OK t1..tm  |  NONE                                             *)
open Model

let pos_of_bits (bits : bool list) : positive =
  (* bits: most significant first, first bit is 1 *)
  match bits with
  | [] -> failwith "empty positive"
  | _ :: rest -> List.fold_left (fun acc b -> if b then XI acc else XO acc) XH rest

let msb_bits (s : string) : bool list =
  let out = ref [] in
  String.iter (fun c ->
    let v = match c with
      | '0'..'9' -> Char.code c - 48
      | 'a'..'f' -> Char.code c - 87
      | 'A'..'F' -> Char.code c - 55
      | _ -> failwith ("bad hex digit in " ^ s) in
    out := !out @ [v land 8 <> 0; v land 4 <> 0; v land 2 <> 0; v land 1 <> 0]) s;
  let rec strip = function false :: r -> strip r | l -> l in
  strip !out

let z_of_hex (neg : bool) (s : string) : z =
  match msb_bits s with
  | [] -> Z0
  | bits -> let p = pos_of_bits bits in if neg then Zneg p else Zpos p

let hex_of_pos (p : positive) : string =
  (* collect bits LSB first *)
  let rec bits p acc = match p with
    | XH -> true :: acc
    | XO q -> bits q (false :: acc)
    | XI q -> bits q (true :: acc) in
  (* the walk goes from the least significant bit up, pushing in front: MSB first *)
  let l = bits p [] in
  let n = List.length l in
  let pad = (4 - n mod 4) mod 4 in
  let l = List.init pad (fun _ -> false) @ l in
  let buf = Buffer.create 16 in
  let rec go = function
    | a :: b :: c :: d :: r ->
        let v = (if a then 8 else 0) + (if b then 4 else 0) + (if c then 2 else 0) + (if d then 1 else 0) in
        Buffer.add_char buf "0123456789abcdef".[v]; go r
    | [] -> ()
    | _ -> assert false in
  go l; Buffer.contents buf

let tok_of_q (o : q option) : string =
  match o with
  | None -> "N"
  | Some { qnum = n; qden = d } ->
      let ns = match n with
        | Z0 -> "0"
        | Zpos p -> hex_of_pos p
        | Zneg p -> "-" ^ hex_of_pos p in
      ns ^ "/" ^ hex_of_pos d

let q_of_tok (t : string) : q option =
  if t = "N" then None else
  match String.index_opt t '/' with
  | None -> failwith ("bad token " ^ t)
  | Some i ->
      let ns = String.sub t 0 i and ds = String.sub t (i + 1) (String.length t - i - 1) in
      let neg = String.length ns > 0 && ns.[0] = '-' in
      let ns = if neg then String.sub ns 1 (String.length ns - 1) else ns in
      let n = z_of_hex neg ns in
      let d = match z_of_hex false ds with Zpos p -> p | _ -> failwith "bad denominator" in
      Some (mkQ n d)

let rec nat_of_int (n : int) : nat = if n <= 0 then O else S (nat_of_int (n - 1))

let op_of_string = function
  | "proj" -> OProj | "maxu" -> OMaxU | "umax" -> OUMax | "disc" -> ODisc
  | "discchain" -> ODiscChain | "fuse" -> OFuse | "fuse_s" -> OFuseS
  | "fuse_ss" -> OFuseSS | "fold" -> OFold | "mbr" -> OMbr | "deduce" -> ODeduce
  | "deduce_with" -> ODeduceWith | "inverse" -> OInverse | "abduce" -> OAbduce
  | "abduce_with" -> OAbduceWith | "prod2" -> OProd2 | "prod3" -> OProd3
  | "merge" -> OMerge | "bproj" -> OBProj | "bmul" -> OBMul | "bcomul" -> OBComul
  | "bcfuse" -> OBCfuse | "bafuse" -> OBAfuse | "bwfuse" -> OBWfuse
  | "bdeduce" -> OBDeduce | "btunc" -> OBTUnc | "btopp" -> OBTOpp
  | "btbsr" -> OBTBsr | "b2m" -> OB2M | "bnew" -> OBNew | "mnew" -> OMNew
  | s -> failwith ("unknown op " ^ s)

let pow2 (k : int) : positive =
  let rec go k acc = if k = 0 then acc else go (k - 1) (XO acc) in go k XH

let eps_of = function
  | "f64" -> mkQ (Zpos XH) (pow2 52)
  | "f32" -> mkQ (Zpos XH) (pow2 23)
  | s -> failwith ("unknown type " ^ s)

let () =
  let ic = open_in Sys.argv.(1) in
  let out = Buffer.create 65536 in
  (try
    while true do
      let line = input_line ic in
      let toks = Array.of_list (List.filter (fun s -> s <> "") (String.split_on_char ' ' line)) in
      if Array.length toks > 0 then begin
        let nd = int_of_string toks.(2) in
        let dims = List.init nd (fun i -> nat_of_int (int_of_string toks.(3 + i))) in
        let nn = int_of_string toks.(3 + nd) in
        let xs = List.init nn (fun i -> q_of_tok toks.(4 + nd + i)) in
        if toks.(0) = "arr" then begin
          (* array program: first dim is the family, numbers are integers n/1 *)
          let zs = List.map (function Some q -> q.qnum | None -> Z0) xs in
          let fam = match dims with O :: _ -> Z0 | _ -> Zpos XH in
          let res = run_arr fam (List.tl dims) zs in
          Buffer.add_string out "OK";
          List.iter (fun z -> Buffer.add_char out ' ';
                      Buffer.add_string out (tok_of_q (Some { qnum = z; qden = XH }))) res
        end else begin
        let op = op_of_string toks.(0) in
        let eps = eps_of toks.(1) in
        let (st, res) = runQ eps op dims xs in
        (match st with
         | Z0 ->
             Buffer.add_string out "OK";
             List.iter (fun o -> Buffer.add_char out ' '; Buffer.add_string out (tok_of_q o)) res
         | _ -> Buffer.add_string out "NONE") end;
        Buffer.add_char out '\n'
      end
    done
  with End_of_file -> ());
  print_string (Buffer.contents out)
