//! `Rat`: exact rational numbers with one non-finite value, as a `num_traits::Float`.
//!
//! The crate's multinomial code (src/mul.rs, src/mul/*.rs) is generic over its element type
//! `V: Float + UlpsEq + ...`.  Instantiated at `Rat` the *same generic code* computes in exact
//! arithmetic, so its results can be compared with the proved model's rational instance
//! (`FldQ`, coq/Model/InstQ.v) for EQUALITY - no rounding tolerance.  The semantics of `Rat`
//! is that of the model's number structure (coq/Model/Num.v), by construction:
//!   * `NaN` stands for every non-finite value; + - * are strict, `x / 0 = NaN`;
//!   * every comparison with `NaN` is false; `min` / `max` skip a `NaN` operand (as f64::min);
//!   * `ulps_eq!(v, V::one())`  <=> 1 - 2 eps <= v <= 1 + 4 eps      (Num.is_one)
//!     `ulps_eq!(v, V::zero())` <=> |v| <= eps                        (Num.is_zero)
//!     `ulps_eq!(x, y)` on data <=> |x - y| <= eps                    (Num.aeq)
//!     with eps = 2^-52 (`Float::epsilon`).  `V::one()` / `V::zero()` are recognised by a
//!     literal tag carried by the value they return (arithmetic drops the tag).
//! Values are `Copy` handles into a thread-local arena of big rationals (reset per case).
use std::cell::RefCell;
use std::cmp::Ordering;
use std::fmt;
use std::iter::Sum;
use std::num::FpCategory;
use std::ops::{Add, AddAssign, Div, DivAssign, Mul, MulAssign, Neg, Rem, Sub, SubAssign};

use approx::{AbsDiffEq, RelativeEq, UlpsEq};
use num_traits::{Float, Num, NumCast, One, ToPrimitive, Zero};

// ------------------------------------------------------------------ naturals

#[derive(Clone, Debug, PartialEq, Eq)]
pub struct Nat(Vec<u32>); // little endian, no trailing zero limb

impl Nat {
    pub fn zero() -> Nat {
        Nat(Vec::new())
    }
    pub fn from_u64(x: u64) -> Nat {
        let mut v = vec![x as u32, (x >> 32) as u32];
        while v.last() == Some(&0) {
            v.pop();
        }
        Nat(v)
    }
    pub fn is_zero(&self) -> bool {
        self.0.is_empty()
    }
    fn trim(mut v: Vec<u32>) -> Nat {
        while v.last() == Some(&0) {
            v.pop();
        }
        Nat(v)
    }
    pub fn cmp(&self, o: &Nat) -> Ordering {
        if self.0.len() != o.0.len() {
            return self.0.len().cmp(&o.0.len());
        }
        for i in (0..self.0.len()).rev() {
            if self.0[i] != o.0[i] {
                return self.0[i].cmp(&o.0[i]);
            }
        }
        Ordering::Equal
    }
    pub fn add(&self, o: &Nat) -> Nat {
        let (a, b) = if self.0.len() >= o.0.len() { (&self.0, &o.0) } else { (&o.0, &self.0) };
        let mut r = Vec::with_capacity(a.len() + 1);
        let mut c = 0u64;
        for i in 0..a.len() {
            let s = a[i] as u64 + if i < b.len() { b[i] as u64 } else { 0 } + c;
            r.push(s as u32);
            c = s >> 32;
        }
        if c > 0 {
            r.push(c as u32);
        }
        Nat(r)
    }
    /// self - o, requires self >= o
    pub fn sub(&self, o: &Nat) -> Nat {
        let mut r = Vec::with_capacity(self.0.len());
        let mut br = 0i64;
        for i in 0..self.0.len() {
            let mut d = self.0[i] as i64 - br - if i < o.0.len() { o.0[i] as i64 } else { 0 };
            if d < 0 {
                d += 1 << 32;
                br = 1;
            } else {
                br = 0;
            }
            r.push(d as u32);
        }
        assert!(br == 0, "Nat::sub underflow");
        Nat::trim(r)
    }
    pub fn mul(&self, o: &Nat) -> Nat {
        if self.is_zero() || o.is_zero() {
            return Nat::zero();
        }
        let mut r = vec![0u32; self.0.len() + o.0.len()];
        for i in 0..self.0.len() {
            let mut c = 0u64;
            let a = self.0[i] as u64;
            for j in 0..o.0.len() {
                let t = a * o.0[j] as u64 + r[i + j] as u64 + c;
                r[i + j] = t as u32;
                c = t >> 32;
            }
            let mut k = i + o.0.len();
            while c > 0 {
                let t = r[k] as u64 + c;
                r[k] = t as u32;
                c = t >> 32;
                k += 1;
            }
        }
        Nat::trim(r)
    }
    fn shl_bits(&self, s: u32) -> Vec<u32> {
        // s < 32; one extra limb
        let mut r = Vec::with_capacity(self.0.len() + 1);
        let mut c = 0u32;
        for &x in &self.0 {
            r.push(if s == 0 { x } else { (x << s) | c });
            c = if s == 0 { 0 } else { x >> (32 - s) };
        }
        r.push(c);
        r
    }
    fn shr_bits(v: &[u32], s: u32) -> Vec<u32> {
        let mut r = vec![0u32; v.len()];
        for i in 0..v.len() {
            let hi = if i + 1 < v.len() && s != 0 { v[i + 1] << (32 - s) } else { 0 };
            r[i] = if s == 0 { v[i] } else { (v[i] >> s) | hi };
        }
        r
    }
    /// (quotient, remainder); Knuth algorithm D
    pub fn divrem(&self, d: &Nat) -> (Nat, Nat) {
        assert!(!d.is_zero(), "Nat::divrem by zero");
        if self.cmp(d) == Ordering::Less {
            return (Nat::zero(), self.clone());
        }
        if d.0.len() == 1 {
            let dv = d.0[0] as u64;
            let mut q = vec![0u32; self.0.len()];
            let mut rem = 0u64;
            for i in (0..self.0.len()).rev() {
                let cur = (rem << 32) | self.0[i] as u64;
                q[i] = (cur / dv) as u32;
                rem = cur % dv;
            }
            return (Nat::trim(q), Nat::from_u64(rem));
        }
        let s = d.0.last().unwrap().leading_zeros();
        let v = {
            let mut t = d.shl_bits(s);
            t.pop();
            t
        };
        let mut u = self.shl_bits(s);
        let n = v.len();
        let m = u.len() - n - 1;
        let mut q = vec![0u32; m + 1];
        let b = 1u64 << 32;
        for j in (0..=m).rev() {
            let num = ((u[j + n] as u64) << 32) | u[j + n - 1] as u64;
            let mut qhat = num / v[n - 1] as u64;
            let mut rhat = num % v[n - 1] as u64;
            while qhat >= b || qhat * v[n - 2] as u64 > ((rhat << 32) | u[j + n - 2] as u64) {
                qhat -= 1;
                rhat += v[n - 1] as u64;
                if rhat >= b {
                    break;
                }
            }
            // multiply and subtract
            let mut borrow = 0i64;
            let mut carry = 0u64;
            for i in 0..n {
                let p = qhat * v[i] as u64 + carry;
                carry = p >> 32;
                let t = u[i + j] as i64 - borrow - (p & 0xFFFF_FFFF) as i64;
                if t < 0 {
                    u[i + j] = (t + (1i64 << 32)) as u32;
                    borrow = 1;
                } else {
                    u[i + j] = t as u32;
                    borrow = 0;
                }
            }
            let t = u[j + n] as i64 - borrow - carry as i64;
            if t < 0 {
                u[j + n] = (t + (1i64 << 32)) as u32;
                // add back
                qhat -= 1;
                let mut c = 0u64;
                for i in 0..n {
                    let s2 = u[i + j] as u64 + v[i] as u64 + c;
                    u[i + j] = s2 as u32;
                    c = s2 >> 32;
                }
                u[j + n] = (u[j + n] as u64 + c) as u32;
            } else {
                u[j + n] = t as u32;
            }
            q[j] = qhat as u32;
        }
        let r = Nat::shr_bits(&u[..n], s);
        (Nat::trim(q), Nat::trim(r))
    }
    pub fn gcd(&self, o: &Nat) -> Nat {
        let (mut a, mut b) = (self.clone(), o.clone());
        while !b.is_zero() {
            let (_, r) = a.divrem(&b);
            a = b;
            b = r;
        }
        a
    }
    pub fn to_hex(&self) -> String {
        if self.is_zero() {
            return "0".into();
        }
        let mut s = format!("{:x}", self.0[self.0.len() - 1]);
        for i in (0..self.0.len() - 1).rev() {
            s.push_str(&format!("{:08x}", self.0[i]));
        }
        s
    }
    pub fn from_hex(s: &str) -> Option<Nat> {
        let mut v = Vec::new();
        let bytes = s.as_bytes();
        let mut end = bytes.len();
        if end == 0 {
            return None;
        }
        while end > 0 {
            let start = end.saturating_sub(8);
            v.push(u32::from_str_radix(std::str::from_utf8(&bytes[start..end]).ok()?, 16).ok()?);
            end = start;
        }
        Some(Nat::trim(v))
    }
    pub fn pow2(k: u32) -> Nat {
        let mut v = vec![0u32; (k / 32) as usize];
        v.push(1 << (k % 32));
        Nat(v)
    }
    fn to_f64(&self) -> f64 {
        let mut r = 0.0f64;
        for i in (0..self.0.len()).rev() {
            r = r * 4294967296.0 + self.0[i] as f64;
        }
        r
    }
}

// ----------------------------------------------------------------- rationals

#[derive(Clone, Debug)]
pub struct Q {
    neg: bool,
    num: Nat,
    den: Nat,
}

impl Q {
    pub fn new(neg: bool, num: Nat, den: Nat) -> Q {
        assert!(!den.is_zero());
        if num.is_zero() {
            return Q { neg: false, num, den: Nat::from_u64(1) };
        }
        let g = num.gcd(&den);
        if g.0.len() == 1 && g.0[0] == 1 {
            Q { neg, num, den }
        } else {
            Q { neg, num: num.divrem(&g).0, den: den.divrem(&g).0 }
        }
    }
    pub fn from_u64(x: u64) -> Q {
        Q::new(false, Nat::from_u64(x), Nat::from_u64(1))
    }
    pub fn is_zero(&self) -> bool {
        self.num.is_zero()
    }
    pub fn neg(&self) -> Q {
        Q { neg: !self.neg && !self.num.is_zero(), num: self.num.clone(), den: self.den.clone() }
    }
    pub fn abs(&self) -> Q {
        Q { neg: false, num: self.num.clone(), den: self.den.clone() }
    }
    pub fn add(&self, o: &Q) -> Q {
        let a = self.num.mul(&o.den);
        let b = o.num.mul(&self.den);
        let den = self.den.mul(&o.den);
        if self.neg == o.neg {
            Q::new(self.neg, a.add(&b), den)
        } else {
            match a.cmp(&b) {
                Ordering::Equal => Q::from_u64(0),
                Ordering::Greater => Q::new(self.neg, a.sub(&b), den),
                Ordering::Less => Q::new(o.neg, b.sub(&a), den),
            }
        }
    }
    pub fn sub(&self, o: &Q) -> Q {
        self.add(&o.neg())
    }
    pub fn mul(&self, o: &Q) -> Q {
        Q::new(self.neg != o.neg, self.num.mul(&o.num), self.den.mul(&o.den))
    }
    pub fn div(&self, o: &Q) -> Option<Q> {
        if o.is_zero() {
            return None;
        }
        Some(Q::new(self.neg != o.neg, self.num.mul(&o.den), self.den.mul(&o.num)))
    }
    pub fn cmp(&self, o: &Q) -> Ordering {
        match (self.neg, o.neg) {
            (false, true) => Ordering::Greater,
            (true, false) => Ordering::Less,
            (n, _) => {
                let c = self.num.mul(&o.den).cmp(&o.num.mul(&self.den));
                if n {
                    c.reverse()
                } else {
                    c
                }
            }
        }
    }
    pub fn to_tok(&self) -> String {
        format!("{}{}/{}", if self.neg { "-" } else { "" }, self.num.to_hex(), self.den.to_hex())
    }
    pub fn from_tok(t: &str) -> Option<Q> {
        let (n, d) = t.split_once('/')?;
        let (neg, n) = match n.strip_prefix('-') {
            Some(r) => (true, r),
            None => (false, n),
        };
        let den = Nat::from_hex(d)?;
        if den.is_zero() {
            return None;
        }
        Some(Q::new(neg, Nat::from_hex(n)?, den))
    }
    pub fn to_f64(&self) -> f64 {
        let v = self.num.to_f64() / self.den.to_f64();
        if self.neg {
            -v
        } else {
            v
        }
    }
}

// --------------------------------------------------------------------- arena

thread_local! {
    static ARENA: RefCell<Vec<Q>> = const { RefCell::new(Vec::new()) };
}

const NAN_IDX: u32 = u32::MAX;
const LIT_NONE: u8 = 0;
const LIT_ZERO: u8 = 1;
const LIT_ONE: u8 = 2;
const EPS_LOG2: u32 = 52;

/// forget every value (handles created before are invalid afterwards)
pub fn reset_arena() {
    ARENA.with(|a| a.borrow_mut().clear());
}

#[derive(Clone, Copy)]
pub struct Rat {
    idx: u32,
    lit: u8,
}

impl Rat {
    fn put(q: Q) -> Rat {
        ARENA.with(|a| {
            let mut a = a.borrow_mut();
            a.push(q);
            Rat { idx: (a.len() - 1) as u32, lit: LIT_NONE }
        })
    }
    fn put_opt(q: Option<Q>) -> Rat {
        match q {
            Some(q) => Rat::put(q),
            None => Rat::NAN,
        }
    }
    pub const NAN: Rat = Rat { idx: NAN_IDX, lit: LIT_NONE };
    pub fn get(self) -> Option<Q> {
        if self.idx == NAN_IDX {
            None
        } else {
            ARENA.with(|a| Some(a.borrow()[self.idx as usize].clone()))
        }
    }
    fn lift2(self, o: Rat, f: impl FnOnce(&Q, &Q) -> Option<Q>) -> Rat {
        match (self.get(), o.get()) {
            (Some(a), Some(b)) => Rat::put_opt(f(&a, &b)),
            _ => Rat::NAN,
        }
    }
    pub fn from_tok(t: &str) -> Option<Rat> {
        if t == "N" {
            return Some(Rat::NAN);
        }
        Q::from_tok(t).map(Rat::put)
    }
    pub fn to_tok(self) -> String {
        match self.get() {
            None => "N".into(),
            Some(q) => q.to_tok(),
        }
    }
    fn eps() -> Q {
        Q::new(false, Nat::from_u64(1), Nat::pow2(EPS_LOG2))
    }
    fn small(k: u64) -> Q {
        // k * eps
        Q::new(false, Nat::from_u64(k), Nat::pow2(EPS_LOG2))
    }
}

impl fmt::Debug for Rat {
    fn fmt(&self, f: &mut fmt::Formatter<'_>) -> fmt::Result {
        write!(f, "{}", self.to_tok())
    }
}
impl Default for Rat {
    fn default() -> Self {
        <Rat as Zero>::zero()
    }
}

impl PartialEq for Rat {
    fn eq(&self, o: &Rat) -> bool {
        match (self.get(), o.get()) {
            (Some(a), Some(b)) => a.cmp(&b) == Ordering::Equal,
            _ => false,
        }
    }
}
impl PartialOrd for Rat {
    fn partial_cmp(&self, o: &Rat) -> Option<Ordering> {
        match (self.get(), o.get()) {
            (Some(a), Some(b)) => Some(a.cmp(&b)),
            _ => None,
        }
    }
}

impl Add for Rat {
    type Output = Rat;
    fn add(self, o: Rat) -> Rat {
        self.lift2(o, |a, b| Some(a.add(b)))
    }
}
impl Sub for Rat {
    type Output = Rat;
    fn sub(self, o: Rat) -> Rat {
        self.lift2(o, |a, b| Some(a.sub(b)))
    }
}
impl Mul for Rat {
    type Output = Rat;
    fn mul(self, o: Rat) -> Rat {
        self.lift2(o, |a, b| Some(a.mul(b)))
    }
}
impl Div for Rat {
    type Output = Rat;
    fn div(self, o: Rat) -> Rat {
        self.lift2(o, |a, b| a.div(b))
    }
}
impl Rem for Rat {
    type Output = Rat;
    fn rem(self, _o: Rat) -> Rat {
        unimplemented!("Rat: % is not part of the model's number structure")
    }
}
impl Neg for Rat {
    type Output = Rat;
    fn neg(self) -> Rat {
        match self.get() {
            Some(a) => Rat::put(a.neg()),
            None => Rat::NAN,
        }
    }
}
impl AddAssign for Rat {
    fn add_assign(&mut self, o: Rat) {
        *self = *self + o;
    }
}
impl SubAssign for Rat {
    fn sub_assign(&mut self, o: Rat) {
        *self = *self - o;
    }
}
impl MulAssign for Rat {
    fn mul_assign(&mut self, o: Rat) {
        *self = *self * o;
    }
}
impl DivAssign for Rat {
    fn div_assign(&mut self, o: Rat) {
        *self = *self / o;
    }
}
impl Sum for Rat {
    fn sum<I: Iterator<Item = Rat>>(iter: I) -> Rat {
        iter.fold(<Rat as Zero>::zero(), |a, b| a + b)
    }
}
impl<'a> Sum<&'a Rat> for Rat {
    fn sum<I: Iterator<Item = &'a Rat>>(iter: I) -> Rat {
        iter.fold(<Rat as Zero>::zero(), |a, b| a + *b)
    }
}

impl Zero for Rat {
    fn zero() -> Rat {
        let mut r = Rat::put(Q::from_u64(0));
        r.lit = LIT_ZERO;
        r
    }
    fn is_zero(&self) -> bool {
        matches!(self.get(), Some(q) if q.is_zero())
    }
}
impl One for Rat {
    fn one() -> Rat {
        let mut r = Rat::put(Q::from_u64(1));
        r.lit = LIT_ONE;
        r
    }
}
impl Num for Rat {
    type FromStrRadixErr = ();
    fn from_str_radix(_s: &str, _r: u32) -> Result<Rat, ()> {
        Err(())
    }
}
impl ToPrimitive for Rat {
    fn to_i64(&self) -> Option<i64> {
        self.to_f64().map(|v| v as i64)
    }
    fn to_u64(&self) -> Option<u64> {
        self.to_f64().map(|v| v as u64)
    }
    fn to_f64(&self) -> Option<f64> {
        Some(match self.get() {
            Some(q) => q.to_f64(),
            None => f64::NAN,
        })
    }
}
impl NumCast for Rat {
    fn from<T: ToPrimitive>(n: T) -> Option<Rat> {
        // exact value of the f64 image (used by nothing in the crate's generic code)
        let v = n.to_f64()?;
        Some(Rat::from_f64_exact(v))
    }
}

impl Rat {
    pub fn from_f64_exact(v: f64) -> Rat {
        if !v.is_finite() {
            return Rat::NAN;
        }
        let bits = v.to_bits();
        let neg = bits >> 63 != 0;
        let e = ((bits >> 52) & 0x7ff) as i64;
        let m = bits & ((1u64 << 52) - 1);
        let (m, e) = if e == 0 { (m, -1074) } else { (m | (1u64 << 52), e - 1075) };
        let q = if e >= 0 {
            Q::new(neg, Nat::from_u64(m).mul(&Nat::pow2(e as u32)), Nat::from_u64(1))
        } else {
            Q::new(neg, Nat::from_u64(m), Nat::pow2((-e) as u32))
        };
        Rat::put(q)
    }
}

macro_rules! no_model {
    ($($name:ident),*) => { $( fn $name(self) -> Rat { unimplemented!(concat!("Rat::", stringify!($name), " is not part of the model's number structure")) } )* };
}

impl Float for Rat {
    fn nan() -> Rat {
        Rat::NAN
    }
    fn infinity() -> Rat {
        Rat::NAN
    }
    fn neg_infinity() -> Rat {
        Rat::NAN
    }
    fn neg_zero() -> Rat {
        <Rat as Zero>::zero()
    }
    fn min_value() -> Rat {
        unimplemented!("Rat::min_value")
    }
    fn min_positive_value() -> Rat {
        unimplemented!("Rat::min_positive_value")
    }
    fn max_value() -> Rat {
        unimplemented!("Rat::max_value")
    }
    fn epsilon() -> Rat {
        Rat::put(Rat::eps())
    }
    fn is_nan(self) -> bool {
        self.idx == NAN_IDX
    }
    fn is_infinite(self) -> bool {
        false
    }
    fn is_finite(self) -> bool {
        self.idx != NAN_IDX
    }
    fn is_normal(self) -> bool {
        self.idx != NAN_IDX && !Zero::is_zero(&self)
    }
    fn classify(self) -> FpCategory {
        if self.idx == NAN_IDX {
            FpCategory::Nan
        } else if Zero::is_zero(&self) {
            FpCategory::Zero
        } else {
            FpCategory::Normal
        }
    }
    no_model!(floor, ceil, round, trunc, fract, sqrt, exp, exp2, ln, log2, log10, cbrt, sin, cos, tan, asin,
              acos, atan, exp_m1, ln_1p, sinh, cosh, tanh, asinh, acosh, atanh);
    fn abs(self) -> Rat {
        match self.get() {
            Some(q) => Rat::put(q.abs()),
            None => Rat::NAN,
        }
    }
    fn signum(self) -> Rat {
        match self.get() {
            Some(q) => {
                if q.neg {
                    -<Rat as One>::one()
                } else {
                    <Rat as One>::one()
                }
            }
            None => Rat::NAN,
        }
    }
    fn is_sign_positive(self) -> bool {
        matches!(self.get(), Some(q) if !q.neg)
    }
    fn is_sign_negative(self) -> bool {
        matches!(self.get(), Some(q) if q.neg)
    }
    fn mul_add(self, a: Rat, b: Rat) -> Rat {
        self * a + b
    }
    fn recip(self) -> Rat {
        <Rat as One>::one() / self
    }
    fn powi(self, n: i32) -> Rat {
        let mut r = <Rat as One>::one();
        for _ in 0..n.unsigned_abs() {
            r = r * self;
        }
        if n < 0 {
            r.recip()
        } else {
            r
        }
    }
    fn powf(self, _n: Rat) -> Rat {
        unimplemented!("Rat::powf")
    }
    fn log(self, _b: Rat) -> Rat {
        unimplemented!("Rat::log")
    }
    /// f64::max: a NaN operand is ignored (Num.nmax)
    fn max(self, o: Rat) -> Rat {
        match (self.get(), o.get()) {
            (Some(a), Some(b)) => {
                if a.cmp(&b) != Ordering::Greater {
                    o
                } else {
                    self
                }
            }
            (Some(_), None) => self,
            (None, _) => o,
        }
    }
    /// f64::min: a NaN operand is ignored (Num.nmin)
    fn min(self, o: Rat) -> Rat {
        match (self.get(), o.get()) {
            (Some(a), Some(b)) => {
                if a.cmp(&b) != Ordering::Greater {
                    self
                } else {
                    o
                }
            }
            (Some(_), None) => self,
            (None, _) => o,
        }
    }
    fn abs_sub(self, _o: Rat) -> Rat {
        unimplemented!("Rat::abs_sub")
    }
    fn hypot(self, _o: Rat) -> Rat {
        unimplemented!("Rat::hypot")
    }
    fn atan2(self, _o: Rat) -> Rat {
        unimplemented!("Rat::atan2")
    }
    fn sin_cos(self) -> (Rat, Rat) {
        unimplemented!("Rat::sin_cos")
    }
    fn integer_decode(self) -> (u64, i16, i8) {
        unimplemented!("Rat::integer_decode")
    }
}

impl AbsDiffEq for Rat {
    type Epsilon = Rat;
    fn default_epsilon() -> Rat {
        <Rat as Float>::epsilon()
    }
    fn abs_diff_eq(&self, o: &Rat, e: Rat) -> bool {
        match (self.get(), o.get(), e.get()) {
            (Some(a), Some(b), Some(e)) => a.sub(&b).abs().cmp(&e) != Ordering::Greater,
            _ => false,
        }
    }
}
impl RelativeEq for Rat {
    fn default_max_relative() -> Rat {
        <Rat as Float>::epsilon()
    }
    fn relative_eq(&self, o: &Rat, e: Rat, _r: Rat) -> bool {
        self.abs_diff_eq(o, e)
    }
}
impl UlpsEq for Rat {
    fn default_max_ulps() -> u32 {
        4
    }
    /// the model's three tolerance tests, selected by the literal tag of the right operand
    fn ulps_eq(&self, o: &Rat, e: Rat, _max_ulps: u32) -> bool {
        let (a, b) = match (self.get(), o.get()) {
            (Some(a), Some(b)) => (a, b),
            _ => return false,
        };
        if o.lit == LIT_ONE || (self.lit == LIT_ONE && o.lit == LIT_NONE) {
            // Num.is_one: 1 - 2 eps <= v <= 1 + 4 eps
            let v = if o.lit == LIT_ONE { a } else { b };
            let one = Q::from_u64(1);
            let lo = one.sub(&Rat::small(2));
            let hi = one.add(&Rat::small(4));
            return lo.cmp(&v) != Ordering::Greater && v.cmp(&hi) != Ordering::Greater;
        }
        match e.get() {
            // Num.is_zero / Num.aeq: |a - b| <= eps
            Some(e) => a.sub(&b).abs().cmp(&e) != Ordering::Greater,
            None => false,
        }
    }
}
