//! Binomial operators (family "bi").
use subjective_logic::bi::{BOpinion, BSimplex};
use subjective_logic::mul::non_labeled::Opinion1d;

use crate::{rejected, Case};

macro_rules! bi_impl {
    ($name:ident, $V:ty) => {
        fn $name(c: &Case) -> String {
            let x: Vec<$V> = c.bits.iter().map(|&b| <$V>::from_bits(b as _)).collect();
            let w = |i: usize| BOpinion::<$V>::new_unchecked(x[i], x[i + 1], x[i + 2], x[i + 3]);
            let show = |o: &BOpinion<$V>| {
                format!(
                    "OK {:x} {:x} {:x} {:x}",
                    o.b().to_bits(), o.d().to_bits(), o.u().to_bits(), o.a().to_bits()
                )
            };
            let res = |r: Result<BOpinion<$V>, subjective_logic::errors::InvalidValueError>| match r {
                Ok(o) => show(&o),
                Err(e) => format!("ERR {}{}", e.0, rejected()),
            };
            match c.op {
                "bproj" => format!("OK {:x}", w(0).projection().to_bits()),
                // style "alias": one object is receiver and argument (the numbers still carry both operands, equal)
                "bmul" | "bcomul" | "bcfuse" | "bafuse" | "bwfuse" if c.style == "alias" => {
                    let a = w(0);
                    match c.op {
                        "bmul" => show(&a.mul(&a)),
                        "bcomul" => show(&a.comul(&a)),
                        "bcfuse" => res(a.cfuse(&a)),
                        "bafuse" => res(a.afuse(&a, x[8])),
                        _ => res(a.wfuse(&a, x[8])),
                    }
                }
                "bmul" => show(&w(0).mul(&w(4))),
                "bcomul" => show(&w(0).comul(&w(4))),
                "bcfuse" => res(w(0).cfuse(&w(4))),
                "bafuse" => res(w(0).afuse(&w(4), x[8])),
                "bwfuse" => res(w(0).wfuse(&w(4), x[8])),
                "bdeduce" => {
                    let conds = [
                        BSimplex::<$V>(subjective_logic::mul::Simplex::new_unchecked([x[4], x[5]], x[6])),
                        BSimplex::<$V>(subjective_logic::mul::Simplex::new_unchecked([x[7], x[8]], x[9])),
                    ];
                    show(&w(0).deduce(&conds, x[10]))
                }
                "bassoc_mul" | "bassoc_comul" => {
                    // (x.y).z and x.(y.z), 8 numbers
                    let (a, b, cc) = (w(0), w(4), w(8));
                    let (l, r) = if c.op == "bassoc_mul" {
                        (a.mul(&b).mul(&cc), a.mul(&b.mul(&cc)))
                    } else {
                        (a.comul(&b).comul(&cc), a.comul(&b.comul(&cc)))
                    };
                    format!("{} {}", show(&l), &show(&r)[3..])
                }
                "bdemorgan" => {
                    // comul(neg x, neg y) and neg(mul(x, y)), 8 numbers
                    let neg = |o: &BOpinion<$V>| BOpinion::<$V>::new_unchecked(*o.d(), *o.b(), *o.u(), 1.0 - *o.a());
                    let (a, b) = (w(0), w(4));
                    let l = neg(&a).comul(&neg(&b));
                    let r = neg(&a.mul(&b));
                    format!("{} {}", show(&l), &show(&r)[3..])
                }
                "bdeduce_swapx" | "bdeduce_negy" => {
                    let sx = |b: $V, d: $V, u: $V| BSimplex::<$V>(subjective_logic::mul::Simplex::new_unchecked([b, d], u));
                    let base = w(0).deduce(&[sx(x[4], x[5], x[6]), sx(x[7], x[8], x[9])], x[10]);
                    let other = if c.op == "bdeduce_swapx" {
                        // antecedent negated, conditionals exchanged: same result
                        BOpinion::<$V>::new_unchecked(x[1], x[0], x[2], 1.0 - x[3])
                            .deduce(&[sx(x[7], x[8], x[9]), sx(x[4], x[5], x[6])], x[10])
                    } else {
                        // y negated: conditionals and base rate negated, result negated back
                        let r = w(0).deduce(&[sx(x[5], x[4], x[6]), sx(x[8], x[7], x[9])], 1.0 - x[10]);
                        BOpinion::<$V>::new_unchecked(*r.d(), *r.b(), *r.u(), 1.0 - *r.a())
                    };
                    format!("{} {}", show(&base), &show(&other)[3..])
                }
                "btunc" => show(&w(0).trans_unc(x[4])),
                "btopp" => show(&w(0).trans_opp(x[4], x[5])),
                "btbsr" => show(&w(0).trans_bsr(x[4])),
                "bnew" => match c.style {
                    "try_new" => res(BOpinion::<$V>::try_new(x[0], x[1], x[2], x[3])),
                    "new" => show(&BOpinion::<$V>::new(x[0], x[1], x[2], x[3])),
                    "spx_try_new" => match BSimplex::<$V>::try_new(x[0], x[1], x[2]) {
                        Ok(s) => format!("OK {:x} {:x} {:x}", s.0.belief[0].to_bits(), s.0.belief[1].to_bits(), s.0.uncertainty.to_bits()),
                        Err(e) => format!("ERR {}{}", e.0, rejected()),
                    },
                    "spx_new" => {
                        let s = BSimplex::<$V>::new(x[0], x[1], x[2]);
                        format!("OK {:x} {:x} {:x}", s.0.belief[0].to_bits(), s.0.belief[1].to_bits(), s.0.uncertainty.to_bits())
                    }
                    s => format!("BAD bnew style {s}"),
                },
                "b2m" => {
                    // BOpinion -> Opinion1d<_,2>
                    let m: Opinion1d<$V, 2> = w(0).into();
                    format!(
                        "OK {:x} {:x} {:x} {:x} {:x}",
                        m.b()[0].to_bits(), m.b()[1].to_bits(), m.u().to_bits(),
                        m.base_rate[0].to_bits(), m.base_rate[1].to_bits()
                    )
                }
                "b2m2b" => {
                    // round trip through the owned and the borrowed conversion
                    let m: Opinion1d<$V, 2> = w(0).into();
                    let back_ref: BOpinion<$V> = (&m).into();
                    let back: BOpinion<$V> = m.into();
                    if back != back_ref {
                        return "BAD owned and borrowed conversions differ".into();
                    }
                    show(&back)
                }
                "bmproj" => {
                    // projection of the converted opinion (both entries)
                    use subjective_logic::ops::Projection;
                    let m: Opinion1d<$V, 2> = w(0).into();
                    let p = m.projection();
                    format!("OK {:x} {:x}", p[0].to_bits(), p[1].to_bits())
                }
                "beq" => {
                    // opinion-level comparisons and the four scalar comparisons of each notion
                    use approx::{AbsDiffEq, RelativeEq, UlpsEq};
                    let (a, b) = (w(0), w(4));
                    let (e, r, k) = (x[8], x[9], c.dims[0] as u32);
                    let comp = |f: &dyn Fn($V, $V) -> bool| -> [bool; 4] {
                        [f(*a.b(), *b.b()), f(*a.d(), *b.d()), f(*a.u(), *b.u()), f(*a.a(), *b.a())]
                    };
                    let bits = |v: [bool; 4]| v.iter().map(|&t| if t { "1" } else { "0" }).collect::<Vec<_>>().join("");
                    format!(
                        "OK eq={}:{} abs={}:{} rel={}:{} ulps={}:{} sym={}{}{}{} refl={}{}{}{}",
                        (a == b) as u8, bits(comp(&|p, q| p == q)),
                        a.abs_diff_eq(&b, e) as u8, bits(comp(&|p, q| p.abs_diff_eq(&q, e))),
                        a.relative_eq(&b, e, r) as u8, bits(comp(&|p, q| p.relative_eq(&q, e, r))),
                        a.ulps_eq(&b, e, k) as u8, bits(comp(&|p, q| p.ulps_eq(&q, e, k))),
                        (b == a) as u8, b.abs_diff_eq(&a, e) as u8, b.relative_eq(&a, e, r) as u8, b.ulps_eq(&a, e, k) as u8,
                        (a == a) as u8, a.abs_diff_eq(&a, e) as u8, a.relative_eq(&a, e, r) as u8, a.ulps_eq(&a, e, k) as u8,
                    )
                }
                op => format!("BAD unknown binomial op {op}"),
            }
        }
    };
}

bi_impl!(run_f64, f64);
bi_impl!(run_f32, f32);

pub fn run(c: &Case) -> String {
    match c.ty {
        "f64" => run_f64(c),
        "f32" => run_f32(c),
        t => format!("BAD type {t}"),
    }
}
