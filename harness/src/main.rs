//! Runner of the implementation side of the correspondence check.
//!   usage: sl-harness <case file>          (one answer line per case on stdout)
//!   case : <op> <f32|f64> <family> <style> <ndims> d1..dk <nnums> hex1..hexn
//!   answer: OK hex..  |  NONE  |  ERR <msg> |  PANIC <msg>  |  BAD <msg>
//! Numbers are IEEE bit patterns in hex.  After ERR / PANIC the value last rejected by the
//! crate's own checks (verification hook) is appended as `| <bits of the f64 value>`.
#![allow(dead_code)]
mod arr;
mod arr_gen;
mod bi;
mod c01;
mod fam;
mod ops_mul;
use sl_rat as rat;

use std::io::{BufRead, Write};
use std::panic::{catch_unwind, AssertUnwindSafe};

use subjective_logic::mul::Simplex;
use subjective_logic::multi_array::labeled::{MArrD1, MArrD2, MArrD3};
use subjective_logic::multi_array::non_labeled::{MArr1, MArr2, MArr3};

use fam::*;
use ops_mul::*;

pub struct Case<'a> {
    pub op: &'a str,
    pub ty: &'a str,
    pub fam: &'a str,
    pub style: &'a str,
    pub dims: Vec<usize>,
    pub bits: Vec<u64>,
    /// the number tokens as written (type q: exact rationals `[-]hex/hex` or `N`)
    pub toks: Vec<&'a str>,
}

fn parse(line: &str) -> Option<Case<'_>> {
    let mut it = line.split_ascii_whitespace();
    let op = it.next()?;
    let ty = it.next()?;
    let fam = it.next()?;
    let style = it.next()?;
    let nd: usize = it.next()?.parse().ok()?;
    let mut dims = Vec::with_capacity(nd);
    for _ in 0..nd {
        dims.push(it.next()?.parse().ok()?);
    }
    let nn: usize = it.next()?.parse().ok()?;
    let mut bits = Vec::with_capacity(nn);
    let mut toks = Vec::with_capacity(nn);
    for _ in 0..nn {
        let t = it.next()?;
        toks.push(t);
        if ty != "q" {
            bits.push(u64::from_str_radix(t, 16).ok()?);
        }
    }
    Some(Case { op, ty, fam, style, dims, bits, toks })
}

// 1-D container types by family and size
macro_rules! t1 {
    ($V:ty, $fam:expr, $n:expr, $T:ident, $I:ident, $body:expr; $( $k:literal $A:ident $NA:ident ),* ) => {
        match ($fam, $n) {
            $(
            ("arr", $k) => { #[allow(dead_code)] type $T = [$V; $k]; #[allow(dead_code)] type $I = usize; $body }
            ("marr", $k) => { #[allow(dead_code)] type $T = MArr1<$V, $k>; #[allow(dead_code)] type $I = [usize; 1]; $body }
            ("marrd", $k) => { #[allow(dead_code)] type $T = MArrD1<$A, $V>; #[allow(dead_code)] type $I = usize; $body }
            ("marrdn", $k) => { #[allow(dead_code)] type $T = MArrD1<$NA, $V>; #[allow(dead_code)] type $I = $NA; $body }
            )*
            _ => Out::Bad(format!("no instantiation for family {} size {}", $fam, $n)),
        }
    };
}

// 2-D container types (a joint domain used as one domain)
macro_rules! t1_2d {
    ($V:ty, $fam:expr, $n0:expr, $n1:expr, $T:ident, $I:ident, $body:expr; $( $k0:literal $k1:literal $A:ident $C:ident $NA:ident $NC:ident ),* ) => {
        match ($fam, $n0, $n1) {
            $(
            ("marr", $k0, $k1) => { #[allow(dead_code)] type $T = MArr2<$V, $k0, $k1>; #[allow(dead_code)] type $I = [usize; 2]; $body }
            ("marrd", $k0, $k1) => { #[allow(dead_code)] type $T = MArrD2<$A, $C, $V>; #[allow(dead_code)] type $I = (usize, usize); $body }
            ("marrdn", $k0, $k1) => { #[allow(dead_code)] type $T = MArrD2<$NA, $NC, $V>; #[allow(dead_code)] type $I = ($NA, $NC); $body }
            )*
            _ => Out::Bad(format!("no 2-D instantiation for family {} shape {}x{}", $fam, $n0, $n1)),
        }
    };
}

// 3-D container types (a joint domain of three variables used as one domain)
macro_rules! t1_3d {
    ($V:ty, $fam:expr, $n0:expr, $n1:expr, $n2:expr, $T:ident, $I:ident, $body:expr; $( $k0:literal $k1:literal $k2:literal $A:ident $B:ident $C:ident ),* ) => {
        match ($fam, $n0, $n1, $n2) {
            $(
            ("marr", $k0, $k1, $k2) => { #[allow(dead_code)] type $T = MArr3<$V, $k0, $k1, $k2>; #[allow(dead_code)] type $I = [usize; 3]; $body }
            ("marrd", $k0, $k1, $k2) => { #[allow(dead_code)] type $T = MArrD3<$A, $B, $C, $V>; #[allow(dead_code)] type $I = (usize, usize, usize); $body }
            )*
            _ => Out::Bad(format!("no 3-D instantiation for family {} shape {}x{}x{}", $fam, $n0, $n1, $n2)),
        }
    };
}

// antecedent / consequent / table types for the conditional operators
macro_rules! t2 {
    ($V:ty, $fam:expr, $nx:expr, $ny:expr, $T:ident, $U:ident, $C:ident, $CR:ident, $X:ident, $Y:ident, $body:expr;
     $( $kx:literal $ky:literal $A:ident $B:ident $NA:ident $NB:ident ),* ) => {
        match ($fam, $nx, $ny) {
            $(
            ("arr", $kx, $ky) => {
                #[allow(dead_code)] type $T = [$V; $kx]; #[allow(dead_code)] type $U = [$V; $ky];
                #[allow(dead_code)] type $C = [Simplex<$U, $V>; $kx];
                #[allow(dead_code)] type $CR = [&'static Simplex<$U, $V>; $kx];
                #[allow(dead_code)] type $X = usize; #[allow(dead_code)] type $Y = usize; $body }
            ("marr", $kx, $ky) => {
                #[allow(dead_code)] type $T = MArr1<$V, $kx>; #[allow(dead_code)] type $U = MArr1<$V, $ky>;
                #[allow(dead_code)] type $C = MArr1<Simplex<$U, $V>, $kx>;
                #[allow(dead_code)] type $CR = MArr1<&'static Simplex<$U, $V>, $kx>;
                #[allow(dead_code)] type $X = [usize; 1]; #[allow(dead_code)] type $Y = [usize; 1]; $body }
            ("marrd", $kx, $ky) => {
                #[allow(dead_code)] type $T = MArrD1<$A, $V>; #[allow(dead_code)] type $U = MArrD1<$B, $V>;
                #[allow(dead_code)] type $C = MArrD1<$A, Simplex<$U, $V>>;
                #[allow(dead_code)] type $CR = MArrD1<$A, &'static Simplex<$U, $V>>;
                #[allow(dead_code)] type $X = usize; #[allow(dead_code)] type $Y = usize; $body }
            ("marrdn", $kx, $ky) => {
                #[allow(dead_code)] type $T = MArrD1<$NA, $V>; #[allow(dead_code)] type $U = MArrD1<$NB, $V>;
                #[allow(dead_code)] type $C = MArrD1<$NA, Simplex<$U, $V>>;
                #[allow(dead_code)] type $CR = MArrD1<$NA, &'static Simplex<$U, $V>>;
                #[allow(dead_code)] type $X = $NA; #[allow(dead_code)] type $Y = $NB; $body }
            )*
            _ => Out::Bad(format!("no instantiation for family {} sizes {}->{}", $fam, $nx, $ny)),
        }
    };
}

// 2-D antecedent (a product domain) with a 1-D consequent
macro_rules! t2_2d {
    ($V:ty, $fam:expr, $n0:expr, $n1:expr, $ny:expr, $T:ident, $U:ident, $C:ident, $X:ident, $Y:ident, $body:expr;
     $( $k0:literal $k1:literal $ky:literal $A:ident $CC:ident $B:ident ),* ) => {
        match ($fam, $n0, $n1, $ny) {
            $(
            ("marr", $k0, $k1, $ky) => {
                #[allow(dead_code)] type $T = MArr2<$V, $k0, $k1>; #[allow(dead_code)] type $U = MArr1<$V, $ky>;
                #[allow(dead_code)] type $C = MArr2<Simplex<$U, $V>, $k0, $k1>;
                #[allow(dead_code)] type $X = [usize; 2]; #[allow(dead_code)] type $Y = [usize; 1]; $body }
            ("marrd", $k0, $k1, $ky) => {
                #[allow(dead_code)] type $T = MArrD2<$A, $CC, $V>; #[allow(dead_code)] type $U = MArrD1<$B, $V>;
                #[allow(dead_code)] type $C = MArrD2<$A, $CC, Simplex<$U, $V>>;
                #[allow(dead_code)] type $X = (usize, usize); #[allow(dead_code)] type $Y = usize; $body }
            )*
            _ => Out::Bad(format!("no 2-D instantiation for family {} sizes {}x{}->{}", $fam, $n0, $n1, $ny)),
        }
    };
}

macro_rules! prod2_arms {
    ($V:ty, $fam:expr, $style:expr, $n0:expr, $n1:expr, $x:expr; $( $k0:literal $k1:literal $A:ident $B:ident $NA:ident $NB:ident ),* ) => {
        match ($fam, $n0, $n1) {
            $(
            ("arr", $k0, $k1) => op_prod2::<[$V; $k0], [$V; $k1], MArr2<$V, $k0, $k1>, $V>($style, $x),
            ("marrd", $k0, $k1) => op_prod2::<MArrD1<$A, $V>, MArrD1<$B, $V>, MArrD2<$A, $B, $V>, $V>($style, $x),
            ("marrdn", $k0, $k1) => op_prod2::<MArrD1<$NA, $V>, MArrD1<$NB, $V>, MArrD2<$NA, $NB, $V>, $V>($style, $x),
            )*
            _ => Out::Bad(format!("no product2 for family {} sizes {}x{}", $fam, $n0, $n1)),
        }
    };
}

macro_rules! prod3_arms {
    ($V:ty, $fam:expr, $style:expr, $n0:expr, $n1:expr, $n2:expr, $x:expr; $( $k0:literal $k1:literal $k2:literal $A:ident $B:ident $C:ident ),* ) => {
        match ($fam, $n0, $n1, $n2) {
            $(
            ("arr", $k0, $k1, $k2) => op_prod3::<[$V; $k0], [$V; $k1], [$V; $k2], MArr3<$V, $k0, $k1, $k2>, $V>($style, $x),
            ("marrd", $k0, $k1, $k2) => op_prod3::<MArrD1<$A, $V>, MArrD1<$B, $V>, MArrD1<$C, $V>, MArrD3<$A, $B, $C, $V>, $V>($style, $x),
            )*
            _ => Out::Bad(format!("no product3 for family {} sizes {}x{}x{}", $fam, $n0, $n1, $n2)),
        }
    };
}

macro_rules! merge_arms {
    ($V:ty, $fam:expr, $style:expr, $n1:expr, $n2:expr, $ny:expr, $x:expr; $( $k1:literal $k2:literal $ky:literal $A:ident $C:ident $B:ident ),* ) => {
        match ($fam, $style, $n1, $n2, $ny) {
            $(
            ("arr", "own", $k1, $k2, $ky) => op_merge::<$V, usize, usize, [usize; 2], usize,
                [Simplex<[$V; $ky], $V>; $k1], [Simplex<[$V; $ky], $V>; $k2],
                [$V; $k1], [$V; $k2], [$V; $ky], MArr2<$V, $k1, $k2>,
                [Simplex<MArr2<$V, $k1, $k2>, $V>; $ky]>($style, $x),
            ("arr", "borrowed", $k1, $k2, $ky) => op_merge_borrowed::<$V, usize, usize, [usize; 2], usize,
                [Simplex<[$V; $ky], $V>; $k1], [Simplex<[$V; $ky], $V>; $k2],
                [&'static Simplex<[$V; $ky], $V>; $k1], [&'static Simplex<[$V; $ky], $V>; $k2],
                [$V; $k1], [$V; $k2], [$V; $ky], MArr2<$V, $k1, $k2>,
                [Simplex<MArr2<$V, $k1, $k2>, $V>; $ky]>($x),
            ("marrd", "own", $k1, $k2, $ky) => op_merge::<$V, usize, usize, (usize, usize), usize,
                MArrD1<$A, Simplex<MArrD1<$B, $V>, $V>>, MArrD1<$C, Simplex<MArrD1<$B, $V>, $V>>,
                MArrD1<$A, $V>, MArrD1<$C, $V>, MArrD1<$B, $V>, MArrD2<$A, $C, $V>,
                MArrD1<$B, Simplex<MArrD2<$A, $C, $V>, $V>>>($style, $x),
            ("marrd", "borrowed", $k1, $k2, $ky) => op_merge_borrowed::<$V, usize, usize, (usize, usize), usize,
                MArrD1<$A, Simplex<MArrD1<$B, $V>, $V>>, MArrD1<$C, Simplex<MArrD1<$B, $V>, $V>>,
                MArrD1<$A, &'static Simplex<MArrD1<$B, $V>, $V>>, MArrD1<$C, &'static Simplex<MArrD1<$B, $V>, $V>>,
                MArrD1<$A, $V>, MArrD1<$C, $V>, MArrD1<$B, $V>, MArrD2<$A, $C, $V>,
                MArrD1<$B, Simplex<MArrD2<$A, $C, $V>, $V>>>($x),
            )*
            _ => Out::Bad(format!("no merge for family {} style {} sizes {}x{}->{}", $fam, $style, $n1, $n2, $ny)),
        }
    };
}

macro_rules! dispatch_impl {
    ($name:ident, $V:ty) => {
        fn $name(c: &Case) -> Out<$V> {
            let x: Vec<$V> = match c.toks.iter().map(|t| <$V as Vf>::ft(t)).collect::<Option<Vec<$V>>>() {
                Some(x) => x,
                None => return Out::Bad("unparsable number".into()),
            };
            let x = &x[..];
            let d = |i: usize| -> usize { c.dims.get(i).copied().unwrap_or(0) };
            let (fam, style) = (c.fam, c.style);
            match c.op {
                "proj" | "maxu" | "umax" | "fuse" | "fuse_s" | "fuse_ss" | "fold" | "ftree" => {
                    t1!($V, fam, d(0), T, I, match c.op {
                        "proj" => proj::<T, I, $V>(style, x),
                        "maxu" => maxu::<T, I, $V>(style, x),
                        "umax" => umax::<T, I, $V>(style, x),
                        "fuse" => fuse::<T, I, $V>(style, d(1), d(2) != 0, x),
                        "fuse_s" => fuse_s::<T, I, $V>(style, d(1), x),
                        "fuse_ss" => fuse_ss::<T, I, $V>(style, d(1), x),
                        "ftree" => ftree::<T, I, $V>(style, d(1), d(2), &c.dims[3..], x),
                        _ => fold::<T, I, $V>(style, d(1), d(2), x),
                    }; 1 A1 NA1, 2 A2 NA2, 3 A3 NA3, 4 A4 NA4, 5 A5 NA5, 6 A6 NA6, 7 A7 NA7)
                }
                "proj2d" | "maxu2d" | "umax2d" => {
                    t1_2d!($V, fam, d(0), d(1), T, I, match c.op {
                        "proj2d" => proj::<T, I, $V>(style, x),
                        "maxu2d" => maxu::<T, I, $V>(style, x),
                        _ => umax::<T, I, $V>(style, x),
                    }; 2 3 A2 C3 NA2 NC3, 3 2 A3 C2 NA3 NC2, 2 2 A2 C2 NA2 NC2)
                }
                "proj3d" | "umax3d" | "fuse3d" => {
                    t1_3d!($V, fam, d(0), d(1), d(2), T, I, match c.op {
                        "proj3d" => proj::<T, I, $V>(style, x),
                        "umax3d" => umax::<T, I, $V>(style, x),
                        _ => fuse::<T, I, $V>(style, d(3), false, x),
                    }; 2 3 4 A2 B3 C4, 3 2 2 A3 B2 C2, 2 2 3 A2 B2 C3, 2 3 2 A2 B3 C2)
                }
                "fuse2d" => {
                    t1_2d!($V, fam, d(0), d(1), T, I,
                        fuse::<T, I, $V>(style, d(2), false, x);
                        2 3 A2 C3 NA2 NC3, 3 2 A3 C2 NA3 NC2, 2 2 A2 C2 NA2 NC2)
                }
                "eqv" => match (fam, d(0)) {
                    ("arr", 1) => eqv::<[$V; 1], $V>(x), ("arr", 2) => eqv::<[$V; 2], $V>(x),
                    ("arr", 3) => eqv::<[$V; 3], $V>(x), ("arr", 4) => eqv::<[$V; 4], $V>(x),
                    ("arr", 5) => eqv::<[$V; 5], $V>(x), ("arr", 7) => eqv::<[$V; 7], $V>(x),
                    ("marr", 5) => eqv::<MArr1<$V, 5>, $V>(x), ("marr", 7) => eqv::<MArr1<$V, 7>, $V>(x),
                    ("marrd", 5) => eqv::<MArrD1<A5, $V>, $V>(x), ("marrd", 7) => eqv::<MArrD1<A7, $V>, $V>(x),
                    ("marr", 1) => eqv::<MArr1<$V, 1>, $V>(x), ("marr", 2) => eqv::<MArr1<$V, 2>, $V>(x),
                    ("marr", 3) => eqv::<MArr1<$V, 3>, $V>(x), ("marr", 4) => eqv::<MArr1<$V, 4>, $V>(x),
                    ("marrd", 1) => eqv::<MArrD1<A1, $V>, $V>(x), ("marrd", 2) => eqv::<MArrD1<A2, $V>, $V>(x),
                    ("marrd", 3) => eqv::<MArrD1<A3, $V>, $V>(x), ("marrd", 4) => eqv::<MArrD1<A4, $V>, $V>(x),
                    ("marr2", 4) => eqv::<MArr2<$V, 2, 2>, $V>(x), ("marr2", 6) => eqv::<MArr2<$V, 2, 3>, $V>(x),
                    ("marrd2", 4) => eqv::<MArrD2<A2, C2, $V>, $V>(x), ("marrd2", 6) => eqv::<MArrD2<A2, C3, $V>, $V>(x),
                    ("marrd3", 8) => eqv::<MArrD3<A2, B2, C2, $V>, $V>(x),
                    _ => Out::Bad(format!("no eqv for family {} size {}", fam, d(0))),
                },
                "disc" => {
                    // no Discount for plain arrays (no FromIterator)
                    match (fam, d(0)) {
                        ("marr", 1) => disc::<MArr1<$V, 1>, $V>(style, d(1), x),
                        ("marr", 2) => disc::<MArr1<$V, 2>, $V>(style, d(1), x),
                        ("marr", 3) => disc::<MArr1<$V, 3>, $V>(style, d(1), x),
                        ("marr", 4) => disc::<MArr1<$V, 4>, $V>(style, d(1), x),
                        ("marr", 5) => disc::<MArr1<$V, 5>, $V>(style, d(1), x),
                        ("marr", 7) => disc::<MArr1<$V, 7>, $V>(style, d(1), x),
                        ("marrd", 5) => disc::<MArrD1<A5, $V>, $V>(style, d(1), x),
                        ("marrd", 7) => disc::<MArrD1<A7, $V>, $V>(style, d(1), x),
                        ("marrd", 1) => disc::<MArrD1<A1, $V>, $V>(style, d(1), x),
                        ("marrd", 2) => disc::<MArrD1<A2, $V>, $V>(style, d(1), x),
                        ("marrd", 3) => disc::<MArrD1<A3, $V>, $V>(style, d(1), x),
                        ("marrd", 4) => disc::<MArrD1<A4, $V>, $V>(style, d(1), x),
                        ("marrdn", 2) => disc::<MArrD1<NA2, $V>, $V>(style, d(1), x),
                        ("marrdn", 3) => disc::<MArrD1<NA3, $V>, $V>(style, d(1), x),
                        _ => Out::Bad(format!("no discount for family {} size {}", fam, d(0))),
                    }
                }
                "mbr" | "deduce" | "deduce_with" | "inverse" | "abduce" | "abduce_with" => {
                    t2!($V, fam, d(0), d(1), T, U, C, CR, X, Y, match (c.op, style) {
                        ("mbr", _) => op_mbr::<T, U, C, X, Y, $V>(style, x),
                        ("deduce", "borrowed") => op_deduce_borrowed::<T, U, C, CR, X, Y, $V>(false, x),
                        ("deduce_with", "borrowed") => op_deduce_borrowed::<T, U, C, CR, X, Y, $V>(true, x),
                        ("deduce", _) => op_deduce::<T, U, C, X, Y, $V>(style, false, x),
                        ("deduce_with", _) => op_deduce::<T, U, C, X, Y, $V>(style, true, x),
                        ("inverse", _) => op_inverse::<T, U, C, X, Y, $V>(style, x),
                        ("abduce", _) => op_abduce::<T, U, C, X, Y, $V>(style, false, x),
                        _ => op_abduce::<T, U, C, X, Y, $V>(style, true, x),
                    }; 2 2 A2 B2 NA2 NB2, 2 3 A2 B3 NA2 NB3, 3 2 A3 B2 NA3 NB2, 3 3 A3 B3 NA3 NB3,
                       4 2 A4 B2 NA4 NB2, 4 3 A4 B3 NA4 NB3, 5 2 A5 B2 NA5 NB2, 2 5 A2 B5 NA2 NB5)
                }
                "mbr2d" | "deduce2d" | "deduce_with2d" => {
                    t2_2d!($V, fam, d(0), d(1), d(2), T, U, C, X, Y, match c.op {
                        "mbr2d" => op_mbr::<T, U, C, X, Y, $V>(style, x),
                        "deduce2d" => op_deduce::<T, U, C, X, Y, $V>(style, false, x),
                        _ => op_deduce::<T, U, C, X, Y, $V>(style, true, x),
                    }; 2 3 2 A2 C3 B2, 3 2 3 A3 C2 B3, 2 2 3 A2 C2 B3, 2 2 2 A2 C2 B2)
                }
                "prod2" => prod2_arms!($V, fam, style, d(0), d(1), x;
                    2 2 A2 B2 NA2 NB2, 2 3 A2 B3 NA2 NB3, 2 4 A2 B4 NA2 NB4,
                    3 2 A3 B2 NA3 NB2, 3 3 A3 B3 NA3 NB3, 3 4 A3 B4 NA3 NB4,
                    4 2 A4 B2 NA4 NB2, 4 3 A4 B3 NA4 NB3, 4 4 A4 B4 NA4 NB4),
                "prod3" => prod3_arms!($V, fam, style, d(0), d(1), d(2), x;
                    2 2 2 A2 B2 C2, 2 2 3 A2 B2 C3, 2 3 2 A2 B3 C2, 2 3 3 A2 B3 C3,
                    3 2 2 A3 B2 C2, 3 2 3 A3 B2 C3, 3 3 2 A3 B3 C2, 3 3 3 A3 B3 C3),
                "merge" => merge_arms!($V, fam, style, d(0), d(1), d(2), x;
                    2 2 2 A2 C2 B2, 2 2 3 A2 C2 B3, 2 3 2 A2 C3 B2, 2 3 3 A2 C3 B3,
                    3 2 2 A3 C2 B2, 3 2 3 A3 C2 B3, 3 3 2 A3 C3 B2, 3 3 3 A3 C3 B3),
                _ => Out::Bad(format!("unknown op {}", c.op)),
            }
        }
    };
}

dispatch_impl!(dispatch_f64, f64);
dispatch_impl!(dispatch_f32, f32);
dispatch_impl!(dispatch_q, rat::Rat);

fn fmt_out<V: Vf>(o: Out<V>) -> String {
    match o {
        Out::Ok(v) => {
            let mut s = String::from("OK");
            for x in v {
                s.push(' ');
                s.push_str(&x.tt());
            }
            s
        }
        Out::None => "NONE".into(),
        Out::Err(m) => format!("ERR {}{}", m, rejected()),
        Out::Bad(m) => format!("BAD {}", m),
    }
}

pub fn rejected() -> String {
    match subjective_logic::errors::verif::take_last_rejected() {
        Some(v) => format!(" | {:x}", v.to_bits()),
        None => String::new(),
    }
}

fn run_case(c: &Case) -> String {
    let _ = subjective_logic::errors::verif::take_last_rejected();
    if c.fam == "bi" {
        return bi::run(c);
    }
    if c.op.starts_with("new_") {
        return c01::run(c);
    }
    if c.op.starts_with("arr_") {
        return arr::run(c);
    }
    if c.op == "merge_probe" {
        macro_rules! probe {
            ($V:ty, $( $f:ident $a:literal $b:literal $y:literal ),*) => {{
                let x: Vec<$V> = c.bits.iter().map(|&b| <$V as Vf>::fb(b)).collect();
                match (c.dims.first().copied(), c.dims.get(1).copied(), c.dims.get(2).copied()) {
                    $( (Some($a), Some($b), Some($y)) => fmt_out($f(&x)), )*
                    _ => "BAD merge_probe shape".to_string(),
                }
            }};
        }
        return match c.ty {
            "f64" => probe!(f64, merge_probe_f64_222 2 2 2, merge_probe_f64_223 2 2 3, merge_probe_f64_232 2 3 2,
                merge_probe_f64_233 2 3 3, merge_probe_f64_322 3 2 2, merge_probe_f64_323 3 2 3,
                merge_probe_f64_332 3 3 2, merge_probe_f64_333 3 3 3),
            "f32" => probe!(f32, merge_probe_f32_222 2 2 2, merge_probe_f32_223 2 2 3, merge_probe_f32_232 2 3 2,
                merge_probe_f32_233 2 3 3, merge_probe_f32_322 3 2 2, merge_probe_f32_323 3 2 3,
                merge_probe_f32_332 3 3 2, merge_probe_f32_333 3 3 3),
            _ => "BAD merge_probe type".to_string(),
        };
    }
    match c.ty {
        "f64" => fmt_out(dispatch_f64(c)),
        "f32" => fmt_out(dispatch_f32(c)),
        "q" => {
            rat::reset_arena();
            fmt_out(dispatch_q(c))
        }
        _ => format!("BAD type {}", c.ty),
    }
}

fn main() {
    let path = std::env::args().nth(1).expect("usage: sl-harness <case file>");
    std::panic::set_hook(Box::new(|_| {}));
    let f = std::io::BufReader::new(std::fs::File::open(&path).expect("cannot open case file"));
    let out = std::io::stdout();
    let mut out = std::io::BufWriter::new(out.lock());
    for line in f.lines() {
        let line = line.unwrap();
        if line.trim().is_empty() {
            continue;
        }
        let ans = match parse(&line) {
            None => "BAD unparsable case".to_string(),
            Some(c) => match catch_unwind(AssertUnwindSafe(|| run_case(&c))) {
                Ok(s) => s,
                Err(e) => {
                    let msg = if let Some(s) = e.downcast_ref::<String>() {
                        s.clone()
                    } else if let Some(s) = e.downcast_ref::<&str>() {
                        s.to_string()
                    } else {
                        "?".to_string()
                    };
                    let msg: String = msg.chars().map(|ch| if ch == '\n' { ' ' } else { ch }).collect();
                    format!("PANIC {}{}", msg, rejected())
                }
            },
        };
        writeln!(out, "{}", ans).unwrap();
    }
}
