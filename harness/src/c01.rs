//! Checked constructors of the multinomial family (C01).  The binomial ones are op "bnew" in bi.rs.
//!   new_spx  <ty> <arr|marr|marrd> <try_new|new|try_from> 1 n  : b(n) u
//!   new_op   <ty> <arr|marr|marrd> <try_new|new|try_from|into_opinion> 1 n : b(n) u a(n)
//!   new_flags <ty> - - 0 : u          -> is_vacuous / is_dogmatic of simplex, opinion, opinion view
//! Answer: OK <stored values read back> | ERR <message> | PANIC <message>
use subjective_logic::mul::labeled::{OpinionD1, SimplexD1};
use subjective_logic::mul::non_labeled::Simplex1d;
use subjective_logic::mul::{Opinion, OpinionRef, Simplex};
use subjective_logic::multi_array::labeled::MArrD1;
use subjective_logic::multi_array::non_labeled::MArr1;

use crate::fam::*;
use crate::{rejected, Case};

fn show<V: Vf>(vals: Vec<V>) -> String {
    let mut s = String::from("OK");
    for v in vals {
        s.push_str(&format!(" {:x}", v.tb()));
    }
    s
}
fn sx<T: Tab<V>, V: Vf>(s: &Simplex<T, V>) -> Vec<V> {
    let mut v = fl(&s.belief);
    v.push(s.uncertainty);
    v
}
fn op<T: Tab<V>, V: Vf>(w: &Opinion<T, V>) -> Vec<V> {
    let mut v = sx(&w.simplex);
    v.extend(fl(&w.base_rate));
    v
}
fn res<X, V: Vf>(r: Result<X, subjective_logic::errors::InvalidValueError>, f: impl Fn(&X) -> Vec<V>) -> String {
    match r {
        Ok(x) => show(f(&x)),
        Err(e) => format!("ERR {}{}", e.0, rejected()),
    }
}

macro_rules! sized {
    ($V:ty, $c:expr, $x:expr, $n:literal, $A:ident) => {{
        let c: &Case = $c;
        let x: &[$V] = $x;
        let n = $n;
        match (c.op, c.fam, c.style) {
            ("new_spx", "arr", "try_new") => res(Simplex::<[$V; $n], $V>::try_new(mk(&x[..n]), x[n]), sx),
            ("new_spx", "arr", "new") => show(sx(&Simplex::<[$V; $n], $V>::new(mk(&x[..n]), x[n]))),
            ("new_spx", "arr", "try_from") => {
                let b: [$V; $n] = mk(&x[..n]);
                res(Simplex1d::<$V, $n>::try_from((b, x[n])), sx)
            }
            ("new_spx", "marr", "try_new") => res(Simplex::<MArr1<$V, $n>, $V>::try_new(mk(&x[..n]), x[n]), sx),
            ("new_spx", "marr", "new") => show(sx(&Simplex::<MArr1<$V, $n>, $V>::new(mk(&x[..n]), x[n]))),
            ("new_spx", "marrd", "try_new") => res(Simplex::<MArrD1<$A, $V>, $V>::try_new(mk(&x[..n]), x[n]), sx),
            ("new_spx", "marrd", "new") => show(sx(&Simplex::<MArrD1<$A, $V>, $V>::new(mk(&x[..n]), x[n]))),
            ("new_spx", "marrd", "try_from") => res(SimplexD1::<$A, $V>::try_from((x[..n].to_vec(), x[n])), sx),
            ("new_op", "arr", "try_new") => {
                res(Opinion::<[$V; $n], $V>::try_new(mk(&x[..n]), x[n], mk(&x[n + 1..])), op)
            }
            ("new_op", "arr", "new") => show(op(&Opinion::<[$V; $n], $V>::new(mk(&x[..n]), x[n], mk(&x[n + 1..])))),
            ("new_op", "arr", "into_opinion") => {
                // the simplex is validated at its own construction, the upgrade validates the base rate
                match Simplex1d::<$V, $n>::try_new(mk(&x[..n]), x[n]) {
                    Ok(s) => res(s.into_opinion(mk(&x[n + 1..])), op),
                    Err(e) => format!("ERR {}{}", e.0, rejected()),
                }
            }
            ("new_op", "marr", "try_new") => {
                res(Opinion::<MArr1<$V, $n>, $V>::try_new(mk(&x[..n]), x[n], mk(&x[n + 1..])), op)
            }
            ("new_op", "marr", "new") => {
                show(op(&Opinion::<MArr1<$V, $n>, $V>::new(mk(&x[..n]), x[n], mk(&x[n + 1..]))))
            }
            ("new_op", "marrd", "try_new") => {
                res(Opinion::<MArrD1<$A, $V>, $V>::try_new(mk(&x[..n]), x[n], mk(&x[n + 1..])), op)
            }
            ("new_op", "marrd", "new") => {
                show(op(&Opinion::<MArrD1<$A, $V>, $V>::new(mk(&x[..n]), x[n], mk(&x[n + 1..]))))
            }
            ("new_op", "marrd", "try_from") => {
                res(OpinionD1::<$A, $V>::try_from((x[..n].to_vec(), x[n], x[n + 1..].to_vec())), op)
            }
            _ => format!("BAD no constructor {} {} {}", c.op, c.fam, c.style),
        }
    }};
}

macro_rules! c01_impl {
    ($name:ident, $V:ty) => {
        fn $name(c: &Case) -> String {
            let x: Vec<$V> = c.bits.iter().map(|&b| <$V as Vf>::fb(b)).collect();
            if c.op == "new_flags" {
                let u = x[0];
                let s = Simplex::<[$V; 2], $V>::new_unchecked([0.25, 0.25], u);
                let w = Opinion::<[$V; 2], $V>::from((Simplex::new_unchecked([0.25, 0.25], u), [0.5, 0.5]));
                let r: OpinionRef<[$V; 2], $V> = w.as_ref();
                let f = |b: bool| if b { 1 } else { 0 };
                return format!(
                    "OK {} {} {} {} {} {}",
                    f(s.is_vacuous()), f(s.is_dogmatic()), f(w.is_vacuous()), f(w.is_dogmatic()),
                    f(r.is_vacuous()), f(r.is_dogmatic())
                );
            }
            match c.dims[0] {
                1 => sized!($V, c, &x, 1, A1),
                2 => sized!($V, c, &x, 2, A2),
                3 => sized!($V, c, &x, 3, A3),
                4 => sized!($V, c, &x, 4, A4),
                5 => sized!($V, c, &x, 5, A5),
                7 => sized!($V, c, &x, 7, A7),
                n => format!("BAD size {}", n),
            }
        }
    };
}
c01_impl!(run_f64, f64);
c01_impl!(run_f32, f32);

pub fn run(c: &Case) -> String {
    match c.ty {
        "f64" => run_f64(c),
        "f32" => run_f32(c),
        t => format!("BAD type {t}"),
    }
}
