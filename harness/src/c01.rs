//! Checked constructors (C01): filled in below.
use crate::Case;
pub fn run(c: &Case) -> String {
    format!("BAD c01 op {} not implemented", c.op)
}
