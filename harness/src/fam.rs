//! Container families: how the harness builds and reads the crate's containers.
//! Cells are addressed by the harness's own row-major arithmetic (the specification),
//! never through the crate's iterators.
use std::fmt::Debug;
use std::iter::Sum;
use std::ops::{AddAssign, DivAssign};

use approx::UlpsEq;
use num_traits::Float;
use subjective_logic::domain::Domain;
use subjective_logic::iter::FromFn;
use subjective_logic::multi_array::labeled::{MArrD1, MArrD2, MArrD3};
use subjective_logic::multi_array::non_labeled::{MArr1, MArr2, MArr3};
use subjective_logic::{impl_domain, new_type_domain};

pub trait Vf:
    Float + UlpsEq<Epsilon = Self> + AddAssign + DivAssign + Sum + Default + Debug + 'static
{
    fn fb(bits: u64) -> Self;
    fn tb(self) -> u64;
    /// from / to the textual token of a case file
    fn ft(tok: &str) -> Option<Self> {
        u64::from_str_radix(tok, 16).ok().map(Self::fb)
    }
    fn tt(self) -> String {
        format!("{:x}", self.tb())
    }
    const NAME: &'static str;
}
impl Vf for sl_rat::Rat {
    fn fb(_bits: u64) -> Self {
        unimplemented!("Rat has no bit pattern")
    }
    fn tb(self) -> u64 {
        unimplemented!("Rat has no bit pattern")
    }
    fn ft(tok: &str) -> Option<Self> {
        sl_rat::Rat::from_tok(tok)
    }
    fn tt(self) -> String {
        self.to_tok()
    }
    const NAME: &'static str = "q";
}
impl Vf for f64 {
    fn fb(bits: u64) -> Self {
        f64::from_bits(bits)
    }
    fn tb(self) -> u64 {
        self.to_bits()
    }
    const NAME: &'static str = "f64";
}
impl Vf for f32 {
    fn fb(bits: u64) -> Self {
        f32::from_bits(bits as u32)
    }
    fn tb(self) -> u64 {
        self.to_bits() as u64
    }
    const NAME: &'static str = "f32";
}

/// A container with LEN cells of type E, built from and read by flat row-major offset.
pub trait Tab<E>: Sized {
    const LEN: usize;
    fn tab<G: FnMut(usize) -> E>(g: G) -> Self;
    fn at(&self, i: usize) -> &E;
}

pub fn mk<E: Copy, T: Tab<E>>(v: &[E]) -> T {
    assert!(v.len() == T::LEN, "mk: {} numbers for {} cells", v.len(), T::LEN);
    T::tab(|i| v[i])
}
pub fn fl<E: Copy, T: Tab<E>>(t: &T) -> Vec<E> {
    (0..T::LEN).map(|i| *t.at(i)).collect()
}

impl<E, const N: usize> Tab<E> for [E; N] {
    const LEN: usize = N;
    fn tab<G: FnMut(usize) -> E>(g: G) -> Self {
        std::array::from_fn(g)
    }
    fn at(&self, i: usize) -> &E {
        &self[i]
    }
}
impl<E, const N: usize> Tab<E> for MArr1<E, N> {
    const LEN: usize = N;
    fn tab<G: FnMut(usize) -> E>(mut g: G) -> Self {
        <Self as FromFn<[usize; 1], E>>::from_fn(|[i]| g(i))
    }
    fn at(&self, i: usize) -> &E {
        &self[[i]]
    }
}
impl<E, const N: usize, const M: usize> Tab<E> for MArr2<E, N, M> {
    const LEN: usize = N * M;
    fn tab<G: FnMut(usize) -> E>(mut g: G) -> Self {
        <Self as FromFn<[usize; 2], E>>::from_fn(|[i, j]| g(i * M + j))
    }
    fn at(&self, i: usize) -> &E {
        &self[[i / M, i % M]]
    }
}
impl<E, const N: usize, const M: usize, const L: usize> Tab<E> for MArr3<E, N, M, L> {
    const LEN: usize = N * M * L;
    fn tab<G: FnMut(usize) -> E>(mut g: G) -> Self {
        <Self as FromFn<[usize; 3], E>>::from_fn(|[i, j, k]| g((i * M + j) * L + k))
    }
    fn at(&self, i: usize) -> &E {
        &self[[i / (M * L), (i / L) % M, i % L]]
    }
}
impl<E, D0: Domain> Tab<E> for MArrD1<D0, E> {
    const LEN: usize = D0::LEN;
    fn tab<G: FnMut(usize) -> E>(mut g: G) -> Self {
        <Self as FromFn<D0::Idx, E>>::from_fn(|i| g(i.into()))
    }
    fn at(&self, i: usize) -> &E {
        &self[D0::Idx::from(i)]
    }
}
impl<E, D0: Domain, D1: Domain> Tab<E> for MArrD2<D0, D1, E> {
    const LEN: usize = D0::LEN * D1::LEN;
    fn tab<G: FnMut(usize) -> E>(mut g: G) -> Self {
        <Self as FromFn<(D0::Idx, D1::Idx), E>>::from_fn(|(i, j)| {
            g(i.into() * D1::LEN + j.into())
        })
    }
    fn at(&self, i: usize) -> &E {
        &self[(D0::Idx::from(i / D1::LEN), D1::Idx::from(i % D1::LEN))]
    }
}
impl<E, D0: Domain, D1: Domain, D2: Domain> Tab<E> for MArrD3<D0, D1, D2, E> {
    const LEN: usize = D0::LEN * D1::LEN * D2::LEN;
    fn tab<G: FnMut(usize) -> E>(mut g: G) -> Self {
        <Self as FromFn<(D0::Idx, D1::Idx, D2::Idx), E>>::from_fn(|(i, j, k)| {
            g((i.into() * D1::LEN + j.into()) * D2::LEN + k.into())
        })
    }
    fn at(&self, i: usize) -> &E {
        &self[(
            D0::Idx::from(i / (D1::LEN * D2::LEN)),
            D1::Idx::from((i / D2::LEN) % D1::LEN),
            D2::Idx::from(i % D2::LEN),
        )]
    }
}

// plain (usize-indexed) domains of every size used, three independent copies so that
// two axes of equal size are still different types
pub struct A0; pub struct A1; pub struct A2; pub struct A3; pub struct A4; pub struct A5;
pub struct B0; pub struct B1; pub struct B2; pub struct B3; pub struct B4; pub struct B5;
pub struct C0; pub struct C1; pub struct C2; pub struct C3; pub struct C4; pub struct C5;
impl_domain!(A0 = 0); impl_domain!(A1 = 1); impl_domain!(A2 = 2);
impl_domain!(A3 = 3); impl_domain!(A4 = 4); impl_domain!(A5 = 5);
impl_domain!(B0 = 0); impl_domain!(B1 = 1); impl_domain!(B2 = 2);
impl_domain!(B3 = 3); impl_domain!(B4 = 4); impl_domain!(B5 = 5);
impl_domain!(C0 = 0); impl_domain!(C1 = 1); impl_domain!(C2 = 2);
impl_domain!(C3 = 3); impl_domain!(C4 = 4); impl_domain!(C5 = 5);
// joint domains for flattened products used as 1-D domains
pub struct A6; pub struct A7; pub struct A8; pub struct A9;
impl_domain!(A6 = 6); impl_domain!(A7 = 7); impl_domain!(A8 = 8); impl_domain!(A9 = 9);
new_type_domain!(pub NA6 = 6); new_type_domain!(pub NA7 = 7);

// newtype-indexed domains
new_type_domain!(pub NA0 = 0); new_type_domain!(pub NA1 = 1); new_type_domain!(pub NA2 = 2);
new_type_domain!(pub NA3 = 3); new_type_domain!(pub NA4 = 4); new_type_domain!(pub NA5 = 5);
new_type_domain!(pub NB0 = 0); new_type_domain!(pub NB1 = 1); new_type_domain!(pub NB2 = 2);
new_type_domain!(pub NB3 = 3); new_type_domain!(pub NB4 = 4); new_type_domain!(pub NB5 = 5);
new_type_domain!(pub NC0 = 0); new_type_domain!(pub NC1 = 1); new_type_domain!(pub NC2 = 2);
new_type_domain!(pub NC3 = 3); new_type_domain!(pub NC4 = 4); new_type_domain!(pub NC5 = 5);
// sibling newtype domains (conversion round trip)
new_type_domain!(pub SA2 from NA2); new_type_domain!(pub SA3 from NA3); new_type_domain!(pub SA4 from NA4);
