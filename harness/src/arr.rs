//! Multi-array programs (C17/C18): filled in below.
use crate::Case;
pub fn run(c: &Case) -> String {
    format!("BAD arr op {} not implemented", c.op)
}
