//! Multi-array programs (C17/C18).
//!   case: arr_prog i64 <unl|lab|labn> - <rank> d0.. <n> code..      (integers as two's complement hex)
//! The program encoding and the observation log are those of coq/Model/ArrRun.v / Arr.v.
use std::any::Any;
use std::panic::{catch_unwind, AssertUnwindSafe};

use subjective_logic::domain::{Domain, DomainConv};
use subjective_logic::iter::{Container, FromFn};
use subjective_logic::multi_array::labeled::{MArrD1, MArrD2, MArrD3};
use subjective_logic::multi_array::non_labeled::{MArr1, MArr2, MArr3};
use subjective_logic::ops::{Indexes, Product2, Product3, Zeros};

use crate::Case;

const PANIC: i64 = -1;
const END: i64 = -2;
const ERR: i64 = -3;

/// cell type of the fallible element-wise conversion: negative values are refused
#[derive(Clone, Copy, Debug, PartialEq)]
pub struct Ev(pub i64);
impl TryFrom<i64> for Ev {
    type Error = i64;
    fn try_from(v: i64) -> Result<Self, i64> {
        if v < 0 {
            Err(v)
        } else {
            Ok(Ev(v))
        }
    }
}

pub fn lin(a: i64, b: i64, c: i64, d: i64, k: &[usize]) -> i64 {
    let g = |i: usize| k.get(i).copied().unwrap_or(0) as i64;
    a * g(0) + b * g(1) + c * g(2) + d
}
fn cell_update(c: i64, x: i64, i: usize) -> i64 {
    (x * 3 + c + i as i64).rem_euclid(1000003)
}

pub enum Tf {
    Ok(Box<dyn ArrDyn>),
    Err(i64),
}

pub trait ArrDyn {
    fn get(&self, k: &[usize]) -> i64;
    fn set(&mut self, k: &[usize], v: i64);
    fn iter_vals(&self) -> Vec<i64>;
    fn iter_mut_apply(&mut self, c: i64) -> usize;
    fn iter_with_log(&self) -> Vec<i64>;
    fn down_iter(&self, i: usize) -> Option<Vec<i64>>;
    fn down_set(&mut self, i: usize, k: &[usize], v: i64) -> Option<()>;
    fn clone_box(&self) -> Box<dyn ArrDyn>;
    fn eq_dyn(&self, other: &dyn ArrDyn) -> bool;
    fn conv_asref(&self) -> Option<Vec<i64>>;
    fn as_any(&self) -> &dyn Any;
}

pub struct Ctor {
    pub from_fn: fn(i64, i64, i64, i64) -> Box<dyn ArrDyn>,
    pub from_flat: fn(Vec<i64>) -> Box<dyn ArrDyn>,
    pub zeros: fn() -> Box<dyn ArrDyn>,
    pub try_from: fn(&[i64]) -> Option<Tf>,
    pub product: fn(&[i64], &[i64], &[i64]) -> Option<Box<dyn ArrDyn>>,
    pub indexes_log: fn() -> Vec<i64>,
    /// labelled rank 2 / 3: `from_multi_iter` on a nested input given by its nesting (see `nested_input`)
    pub from_nested: fn(&[i64]) -> Option<Box<dyn ArrDyn>>,
}

/// A nested input from its description: rank 2 = [number of rows, then the length of each row]; rank 3 = [number of
/// slabs, then for each slab the number of its rows followed by their lengths].  The cells are 1, 2, 3, ... in order.
pub fn nested_rows(spec: &[i64], p: &mut usize, next: &mut i64) -> Vec<Vec<i64>> {
    let n = spec[*p].max(0) as usize;
    *p += 1;
    let mut rows = Vec::new();
    for _ in 0..n {
        let len = spec[*p].max(0) as usize;
        *p += 1;
        let mut r = Vec::new();
        for _ in 0..len {
            r.push(*next);
            *next += 1;
        }
        rows.push(r);
    }
    rows
}

pub const RUNAWAY: i64 = -4;
/// no traversal of an array of this crate's test shapes is longer than this
pub const CAP: usize = 4096;

thread_local! {
    /// how `drain_indexes` consumes the enumeration: (kind, k); kind 0 = next() only
    pub static ADAPT: std::cell::Cell<(i64, usize)> = const { std::cell::Cell::new((0, 0)) };
}

fn drain_rest<I: Iterator, F: Fn(I::Item) -> Vec<usize>>(mut it: I, f: &F, log: &mut Vec<i64>) {
    let mut n = 0;
    while let Some(k) = it.next() {
        log.extend(f(k).into_iter().map(|x| x as i64));
        n += 1;
        if n > CAP {
            log.push(RUNAWAY);
            return;
        }
    }
    log.push(END);
    // two further calls after the end
    log.push(if it.next().is_none() { 1 } else { 0 });
    log.push(if it.next().is_none() { 1 } else { 0 });
}

/// The enumeration consumed through `next()` (kind 0) or through an iterator adaptor / consumer that an
/// `Iterator` impl may override (nth, skip, step_by, count, last, size_hint, fold), then drained by `next()`.
fn drain_indexes<I: Iterator, F: Fn(I::Item) -> Vec<usize>>(mut it: I, f: F) -> Vec<i64> {
    let mut log = Vec::new();
    let (kind, k) = ADAPT.with(|a| a.get());
    match kind {
        0 => drain_rest(it, &f, &mut log),
        1 => {
            match it.nth(k) {
                Some(x) => log.extend(f(x).into_iter().map(|x| x as i64)),
                None => log.push(END),
            }
            drain_rest(it, &f, &mut log)
        }
        2 => drain_rest(it.skip(k), &f, &mut log),
        3 => drain_rest(it.step_by(k.max(1)), &f, &mut log),
        // count / last / fold are called on the iterator itself (an adaptor in between would consume it through
        // try_fold / next and bypass an overridden method); an endless enumeration is caught as a hang
        4 => {
            for _ in 0..k {
                it.next();
            }
            log.push(it.count() as i64)
        }
        5 => {
            for _ in 0..k {
                it.next();
            }
            match it.last() {
                Some(x) => log.extend(f(x).into_iter().map(|x| x as i64)),
                None => log.push(END),
            }
        }
        6 => {
            let (lo, hi) = it.size_hint();
            log.push(lo.min(1 << 40) as i64);
            log.push(hi.map(|h| h.min(1 << 40) as i64).unwrap_or(-1));
            drain_rest(it, &f, &mut log)
        }
        7 => {
            // k calls of next(), then fold over the rest
            for _ in 0..k {
                it.next();
            }
            let v = it.fold(Vec::new(), |mut acc, x| {
                if acc.len() <= 4 * CAP {
                    acc.extend(f(x).into_iter().map(|x| x as i64));
                }
                acc
            });
            log.extend(v)
        }
        8 => {
            // k calls of next(), then reduce (= next + fold) keeping the lexicographically largest tuple,
            // and the number of tuples seen
            for _ in 0..k {
                it.next();
            }
            let mut n = 0i64;
            let r = it.map(|x| f(x)).reduce(|a, b| {
                n += 1;
                if b >= a { b } else { a }
            });
            match r {
                Some(x) => log.extend(x.into_iter().map(|x| x as i64)),
                None => log.push(END),
            }
            log.push(n)
        }
        _ => log.push(RUNAWAY),
    }
    log
}

/// The cells in iteration order, consumed through `next()` (kind 0 of ADAPT) or through an Iterator method the
/// array's iterator may override, then drained by `next()` (same kinds as `drain_indexes`).
fn drain_vals<'a, I: Iterator<Item = &'a i64>>(it: I) -> Vec<i64> {
    fn rest<'a, J: Iterator<Item = &'a i64>>(it: J, v: &mut Vec<i64>) {
        let mut n = 0;
        let mut it = it;
        while let Some(x) = it.next() {
            v.push(*x);
            n += 1;
            if n > CAP {
                v.push(RUNAWAY);
                return;
            }
        }
        if ADAPT.with(|a| a.get()).0 != 0 {
            v.push(END);
            v.push(if it.next().is_none() { 1 } else { 0 });
        }
    }
    let mut it = it;
    let mut v = Vec::new();
    let (kind, k) = ADAPT.with(|a| a.get());
    match kind {
        0 => rest(it, &mut v),
        1 => {
            match it.nth(k) {
                Some(x) => v.push(*x),
                None => v.push(END),
            }
            rest(it, &mut v)
        }
        2 => rest(it.skip(k), &mut v),
        3 => rest(it.step_by(k.max(1)), &mut v),
        4 => {
            for _ in 0..k {
                it.next();
            }
            v.push(it.count() as i64)
        }
        5 => {
            for _ in 0..k {
                it.next();
            }
            match it.last() {
                Some(x) => v.push(*x),
                None => v.push(END),
            }
        }
        6 => {
            let (lo, hi) = it.size_hint();
            v.push(lo.min(1 << 40) as i64);
            v.push(hi.map(|h| h.min(1 << 40) as i64).unwrap_or(-1));
            rest(it, &mut v)
        }
        7 => {
            for _ in 0..k {
                it.next();
            }
            v.extend(it.fold(Vec::new(), |mut acc, x| {
                if acc.len() <= 4 * CAP {
                    acc.push(*x);
                }
                acc
            }))
        }
        _ => v.push(RUNAWAY),
    }
    v
}

macro_rules! common_dyn {
    () => {
        fn clone_box(&self) -> Box<dyn ArrDyn> {
            Box::new(self.clone())
        }
        fn eq_dyn(&self, other: &dyn ArrDyn) -> bool {
            match other.as_any().downcast_ref::<Self>() {
                Some(o) => self == o,
                None => false,
            }
        }
        fn as_any(&self) -> &dyn Any {
            self
        }
        fn iter_vals(&self) -> Vec<i64> {
            drain_vals(self.into_iter())
        }
    };
}

// ------------------------------------------------------------------ unlabelled

impl<const K0: usize> ArrDyn for MArr1<i64, K0> {
    common_dyn!();
    fn get(&self, k: &[usize]) -> i64 {
        self[[k[0]]]
    }
    fn set(&mut self, k: &[usize], v: i64) {
        self[[k[0]]] = v;
    }
    fn iter_mut_apply(&mut self, c: i64) -> usize {
        // no IntoIterator for &mut MArr1: mutable traversal goes through indexes + IndexMut
        let mut n = 0;
        for k in <Self as Indexes<[usize; 1]>>::indexes().take(CAP) {
            let x = self[k];
            self[k] = cell_update(c, x, n);
            n += 1;
        }
        n
    }
    fn iter_with_log(&self) -> Vec<i64> {
        let mut log = Vec::new();
        for (k, v) in self.iter_with().take(CAP) {
            log.push(k[0] as i64);
            log.push(*v);
        }
        log
    }
    fn down_iter(&self, _i: usize) -> Option<Vec<i64>> {
        None
    }
    fn down_set(&mut self, _i: usize, _k: &[usize], _v: i64) -> Option<()> {
        None
    }
    fn conv_asref(&self) -> Option<Vec<i64>> {
        None
    }
}
impl<const K0: usize, const K1: usize> ArrDyn for MArr2<i64, K0, K1> {
    common_dyn!();
    fn get(&self, k: &[usize]) -> i64 {
        self[[k[0], k[1]]]
    }
    fn set(&mut self, k: &[usize], v: i64) {
        self[[k[0], k[1]]] = v;
    }
    fn iter_mut_apply(&mut self, c: i64) -> usize {
        let mut n = 0;
        for k in <Self as Indexes<[usize; 2]>>::indexes().take(CAP) {
            let x = self[k];
            self[k] = cell_update(c, x, n);
            n += 1;
        }
        n
    }
    fn iter_with_log(&self) -> Vec<i64> {
        let mut log = Vec::new();
        for (k, v) in self.iter_with().take(CAP) {
            log.extend(k.iter().map(|&x| x as i64));
            log.push(*v);
        }
        log
    }
    fn down_iter(&self, _i: usize) -> Option<Vec<i64>> {
        None
    }
    fn down_set(&mut self, _i: usize, _k: &[usize], _v: i64) -> Option<()> {
        None
    }
    fn conv_asref(&self) -> Option<Vec<i64>> {
        None
    }
}
impl<const K0: usize, const K1: usize, const K2: usize> ArrDyn for MArr3<i64, K0, K1, K2> {
    common_dyn!();
    fn get(&self, k: &[usize]) -> i64 {
        self[[k[0], k[1], k[2]]]
    }
    fn set(&mut self, k: &[usize], v: i64) {
        self[[k[0], k[1], k[2]]] = v;
    }
    fn iter_mut_apply(&mut self, c: i64) -> usize {
        let mut n = 0;
        for k in <Self as Indexes<[usize; 3]>>::indexes().take(CAP) {
            let x = self[k];
            self[k] = cell_update(c, x, n);
            n += 1;
        }
        n
    }
    fn iter_with_log(&self) -> Vec<i64> {
        let mut log = Vec::new();
        for (k, v) in self.iter_with().take(CAP) {
            log.extend(k.iter().map(|&x| x as i64));
            log.push(*v);
        }
        log
    }
    fn down_iter(&self, _i: usize) -> Option<Vec<i64>> {
        None
    }
    fn down_set(&mut self, _i: usize, _k: &[usize], _v: i64) -> Option<()> {
        None
    }
    fn conv_asref(&self) -> Option<Vec<i64>> {
        None
    }
}

pub fn ctor_u1<const K0: usize>() -> Ctor {
    Ctor {
        from_fn: |a, b, c, d| Box::new(<MArr1<i64, K0> as FromFn<[usize; 1], i64>>::from_fn(|k| lin(a, b, c, d, &k))),
        from_flat: |v| Box::new(MArr1::<i64, K0>::from_iter(v)),
        zeros: || Box::new(<MArr1<i64, K0> as Zeros>::zeros()),
        try_from: |v| {
            if v.len() != K0 {
                return None;
            }
            let a: [i64; K0] = std::array::from_fn(|i| v[i]);
            Some(match MArr1::<Ev, K0>::try_from(a) {
                Ok(m) => Tf::Ok(Box::new(<MArr1<i64, K0> as FromFn<[usize; 1], i64>>::from_fn(|k| m[k].0))),
                Err(e) => Tf::Err(e),
            })
        },
        product: |_, _, _| None,
        indexes_log: || drain_indexes(<MArr1<i64, K0> as Indexes<[usize; 1]>>::indexes(), |k| k.to_vec()),
        from_nested: |_| None,
    }
}
pub fn ctor_u2<const K0: usize, const K1: usize>() -> Ctor {
    Ctor {
        from_fn: |a, b, c, d| Box::new(<MArr2<i64, K0, K1> as FromFn<[usize; 2], i64>>::from_fn(|k| lin(a, b, c, d, &k))),
        from_flat: |v| Box::new(MArr2::<i64, K0, K1>::from_iter(v)),
        zeros: || Box::new(<MArr2<i64, K0, K1> as Zeros>::zeros()),
        try_from: |v| {
            if v.len() != K0 * K1 {
                return None;
            }
            let a: [[i64; K1]; K0] = std::array::from_fn(|i| std::array::from_fn(|j| v[i * K1 + j]));
            Some(match MArr2::<Ev, K0, K1>::try_from(a) {
                Ok(m) => Tf::Ok(Box::new(<MArr2<i64, K0, K1> as FromFn<[usize; 2], i64>>::from_fn(|k| m[k].0))),
                Err(e) => Tf::Err(e),
            })
        },
        product: |v0, v1, _| {
            let a0: [i64; K0] = std::array::from_fn(|i| v0[i]);
            let a1: [i64; K1] = std::array::from_fn(|i| v1[i]);
            Some(Box::new(MArr2::<i64, K0, K1>::product2(&a0, &a1)))
        },
        indexes_log: || drain_indexes(<MArr2<i64, K0, K1> as Indexes<[usize; 2]>>::indexes(), |k| k.to_vec()),
        from_nested: |_| None,
    }
}
pub fn ctor_u3<const K0: usize, const K1: usize, const K2: usize>() -> Ctor {
    Ctor {
        from_fn: |a, b, c, d| {
            Box::new(<MArr3<i64, K0, K1, K2> as FromFn<[usize; 3], i64>>::from_fn(|k| lin(a, b, c, d, &k)))
        },
        from_flat: |v| Box::new(MArr3::<i64, K0, K1, K2>::from_iter(v)),
        zeros: || Box::new(<MArr3<i64, K0, K1, K2> as Zeros>::zeros()),
        try_from: |v| {
            if v.len() != K0 * K1 * K2 {
                return None;
            }
            let a: [[[i64; K2]; K1]; K0] = std::array::from_fn(|i| {
                std::array::from_fn(|j| std::array::from_fn(|l| v[(i * K1 + j) * K2 + l]))
            });
            Some(match MArr3::<Ev, K0, K1, K2>::try_from(a) {
                Ok(m) => Tf::Ok(Box::new(<MArr3<i64, K0, K1, K2> as FromFn<[usize; 3], i64>>::from_fn(|k| m[k].0))),
                Err(e) => Tf::Err(e),
            })
        },
        product: |v0, v1, v2| {
            let a0: [i64; K0] = std::array::from_fn(|i| v0[i]);
            let a1: [i64; K1] = std::array::from_fn(|i| v1[i]);
            let a2: [i64; K2] = std::array::from_fn(|i| v2[i]);
            Some(Box::new(MArr3::<i64, K0, K1, K2>::product3(&a0, &a1, &a2)))
        },
        indexes_log: || drain_indexes(<MArr3<i64, K0, K1, K2> as Indexes<[usize; 3]>>::indexes(), |k| k.to_vec()),
        from_nested: |_| None,
    }
}

// -------------------------------------------------------------------- labelled

/// a sibling domain of the same size (for DomainConv)
pub trait HasSibling: Domain + Sized {
    type Sib: Domain + From<Self>;
    /// key -> integer -> key of the sibling domain -> back (identity when keys are plain usize)
    fn roundtrip(i: usize) -> usize {
        i
    }
}

fn ix<D: Domain>(i: usize) -> D::Idx {
    D::Idx::from(i)
}
fn xi<D: Domain>(i: D::Idx) -> usize {
    i.into()
}

impl<D0: HasSibling + 'static> ArrDyn for MArrD1<D0, i64> {
    common_dyn!();
    fn get(&self, k: &[usize]) -> i64 {
        self[ix::<D0>(k[0])]
    }
    fn set(&mut self, k: &[usize], v: i64) {
        self[ix::<D0>(k[0])] = v;
    }
    fn iter_mut_apply(&mut self, c: i64) -> usize {
        let mut n = 0;
        for x in self.iter_mut().take(CAP) {
            *x = cell_update(c, *x, n);
            n += 1;
        }
        n
    }
    fn iter_with_log(&self) -> Vec<i64> {
        let mut log = Vec::new();
        for (k, v) in self.iter_with().take(CAP) {
            log.push(xi::<D0>(k) as i64);
            log.push(*v);
        }
        log
    }
    fn down_iter(&self, _i: usize) -> Option<Vec<i64>> {
        None
    }
    fn down_set(&mut self, _i: usize, _k: &[usize], _v: i64) -> Option<()> {
        None
    }
    fn conv_asref(&self) -> Option<Vec<i64>> {
        // conv to the sibling domain, then as_ref of the original
        let s: MArrD1<D0::Sib, i64> = self.clone().conv();
        let mut log: Vec<i64> = s.iter().copied().collect();
        log.push(END);
        let r: MArrD1<D0, &i64> = self.as_ref();
        // cells of the reference view, addressed through keys that made the round trip
        for i in 0..D0::LEN {
            log.push(*r[ix::<D0>(D0::roundtrip(i))]);
        }
        log.push(END);
        Some(log)
    }
}
impl<D0: Domain + 'static, D1: Domain + 'static> ArrDyn for MArrD2<D0, D1, i64> {
    common_dyn!();
    fn get(&self, k: &[usize]) -> i64 {
        self[(ix::<D0>(k[0]), ix::<D1>(k[1]))]
    }
    fn set(&mut self, k: &[usize], v: i64) {
        self[(ix::<D0>(k[0]), ix::<D1>(k[1]))] = v;
    }
    fn iter_mut_apply(&mut self, c: i64) -> usize {
        let mut n = 0;
        for x in self.iter_mut().take(CAP) {
            *x = cell_update(c, *x, n);
            n += 1;
        }
        n
    }
    fn iter_with_log(&self) -> Vec<i64> {
        let mut log = Vec::new();
        for (k, v) in self.iter_with().take(CAP) {
            log.push(xi::<D0>(k.0) as i64);
            log.push(xi::<D1>(k.1) as i64);
            log.push(*v);
        }
        log
    }
    fn down_iter(&self, i: usize) -> Option<Vec<i64>> {
        Some(self.down(ix::<D0>(i)).iter().copied().collect())
    }
    fn down_set(&mut self, i: usize, k: &[usize], v: i64) -> Option<()> {
        self.down_mut(ix::<D0>(i))[ix::<D1>(k[0])] = v;
        Some(())
    }
    fn conv_asref(&self) -> Option<Vec<i64>> {
        None
    }
}
impl<D0: Domain + 'static, D1: Domain + 'static, D2: Domain + 'static> ArrDyn for MArrD3<D0, D1, D2, i64> {
    common_dyn!();
    fn get(&self, k: &[usize]) -> i64 {
        self[(ix::<D0>(k[0]), ix::<D1>(k[1]), ix::<D2>(k[2]))]
    }
    fn set(&mut self, k: &[usize], v: i64) {
        self[(ix::<D0>(k[0]), ix::<D1>(k[1]), ix::<D2>(k[2]))] = v;
    }
    fn iter_mut_apply(&mut self, c: i64) -> usize {
        let mut n = 0;
        for x in self.iter_mut().take(CAP) {
            *x = cell_update(c, *x, n);
            n += 1;
        }
        n
    }
    fn iter_with_log(&self) -> Vec<i64> {
        let mut log = Vec::new();
        for (k, v) in self.iter_with().take(CAP) {
            log.push(xi::<D0>(k.0) as i64);
            log.push(xi::<D1>(k.1) as i64);
            log.push(xi::<D2>(k.2) as i64);
            log.push(*v);
        }
        log
    }
    fn down_iter(&self, i: usize) -> Option<Vec<i64>> {
        Some(self.down(ix::<D0>(i)).iter().copied().collect())
    }
    fn down_set(&mut self, i: usize, k: &[usize], v: i64) -> Option<()> {
        self.down_mut(ix::<D0>(i))[(ix::<D1>(k[0]), ix::<D2>(k[1]))] = v;
        Some(())
    }
    fn conv_asref(&self) -> Option<Vec<i64>> {
        None
    }
}

fn chunk(v: &[i64], n: usize) -> Vec<Vec<i64>> {
    if n == 0 {
        Vec::new()
    } else {
        v.chunks(n).map(|c| c.to_vec()).collect()
    }
}

pub fn ctor_l1<D0: HasSibling + 'static>() -> Ctor {
    Ctor {
        from_fn: |a, b, c, d| {
            Box::new(<MArrD1<D0, i64> as FromFn<D0::Idx, i64>>::from_fn(|k| lin(a, b, c, d, &[xi::<D0>(k)])))
        },
        from_flat: |v| Box::new(MArrD1::<D0, i64>::from_iter(v)),
        zeros: || {
            let z = <MArrD1<D0, i64> as Zeros>::zeros();
            assert!(z == MArrD1::<D0, i64>::default(), "zeros() differs from default()");
            Box::new(z)
        },
        try_from: |v| {
            Some(match MArrD1::<D0, Ev>::try_from(v.to_vec()) {
                Ok(m) => Tf::Ok(Box::new(<MArrD1<D0, i64> as FromFn<D0::Idx, i64>>::from_fn(|k| m[k].0))),
                Err(e) => Tf::Err(e),
            })
        },
        product: |_, _, _| None,
        indexes_log: || drain_indexes(<MArrD1<D0, i64> as Indexes<D0::Idx>>::indexes(), |k| vec![xi::<D0>(k)]),
        from_nested: |_| None,
    }
}
pub fn ctor_l2<D0: Domain + 'static, D1: Domain + 'static>() -> Ctor {
    Ctor {
        from_fn: |a, b, c, d| {
            Box::new(<MArrD2<D0, D1, i64> as FromFn<(D0::Idx, D1::Idx), i64>>::from_fn(|k| {
                lin(a, b, c, d, &[xi::<D0>(k.0), xi::<D1>(k.1)])
            }))
        },
        from_flat: |v| Box::new(MArrD2::<D0, D1, i64>::from_iter(v)),
        zeros: || {
            let z = <MArrD2<D0, D1, i64> as Zeros>::zeros();
            assert!(z == MArrD2::<D0, D1, i64>::default(), "zeros() differs from default()");
            Box::new(z)
        },
        try_from: |v| {
            let nested = chunk(v, D1::LEN);
            Some(match MArrD2::<D0, D1, Ev>::try_from(nested) {
                Ok(m) => Tf::Ok(Box::new(<MArrD2<D0, D1, i64> as FromFn<(D0::Idx, D1::Idx), i64>>::from_fn(
                    |k| m[k].0,
                ))),
                Err(e) => Tf::Err(e),
            })
        },
        product: |v0, v1, _| {
            let a0 = MArrD1::<D0, i64>::from_iter(v0.to_vec());
            let a1 = MArrD1::<D1, i64>::from_iter(v1.to_vec());
            Some(Box::new(MArrD2::<D0, D1, i64>::product2(&a0, &a1)))
        },
        indexes_log: || {
            drain_indexes(<MArrD2<D0, D1, i64> as Indexes<(D0::Idx, D1::Idx)>>::indexes(), |k| {
                vec![xi::<D0>(k.0), xi::<D1>(k.1)]
            })
        },
        from_nested: |spec| {
            let (mut p, mut next) = (0, 1);
            let rows = nested_rows(spec, &mut p, &mut next);
            Some(Box::new(MArrD2::<D0, D1, i64>::from_multi_iter(rows)))
        },
    }
}
pub fn ctor_l3<D0: Domain + 'static, D1: Domain + 'static, D2: Domain + 'static>() -> Ctor {
    Ctor {
        from_fn: |a, b, c, d| {
            Box::new(<MArrD3<D0, D1, D2, i64> as FromFn<(D0::Idx, D1::Idx, D2::Idx), i64>>::from_fn(|k| {
                lin(a, b, c, d, &[xi::<D0>(k.0), xi::<D1>(k.1), xi::<D2>(k.2)])
            }))
        },
        from_flat: |v| Box::new(MArrD3::<D0, D1, D2, i64>::from_iter(v)),
        zeros: || {
            let z = <MArrD3<D0, D1, D2, i64> as Zeros>::zeros();
            assert!(z == MArrD3::<D0, D1, D2, i64>::default(), "zeros() differs from default()");
            Box::new(z)
        },
        try_from: |v| {
            let rows = chunk(v, D2::LEN);
            let nested: Vec<Vec<Vec<i64>>> = if D1::LEN == 0 || D2::LEN == 0 {
                Vec::new()
            } else {
                rows.chunks(D1::LEN).map(|c| c.to_vec()).collect()
            };
            Some(match MArrD3::<D0, D1, D2, Ev>::try_from(nested) {
                Ok(m) => Tf::Ok(Box::new(
                    <MArrD3<D0, D1, D2, i64> as FromFn<(D0::Idx, D1::Idx, D2::Idx), i64>>::from_fn(|k| m[k].0),
                )),
                Err(e) => Tf::Err(e),
            })
        },
        product: |v0, v1, v2| {
            let a0 = MArrD1::<D0, i64>::from_iter(v0.to_vec());
            let a1 = MArrD1::<D1, i64>::from_iter(v1.to_vec());
            let a2 = MArrD1::<D2, i64>::from_iter(v2.to_vec());
            Some(Box::new(MArrD3::<D0, D1, D2, i64>::product3(&a0, &a1, &a2)))
        },
        indexes_log: || {
            drain_indexes(
                <MArrD3<D0, D1, D2, i64> as Indexes<(D0::Idx, D1::Idx, D2::Idx)>>::indexes(),
                |k| vec![xi::<D0>(k.0), xi::<D1>(k.1), xi::<D2>(k.2)],
            )
        },
        from_nested: |spec| {
            let (mut p, mut next) = (1, 1);
            let mut slabs = Vec::new();
            for _ in 0..spec[0].max(0) {
                slabs.push(nested_rows(spec, &mut p, &mut next));
            }
            Some(Box::new(MArrD3::<D0, D1, D2, i64>::from_multi_iter(slabs)))
        },
    }
}

// ----------------------------------------------------------------- interpreter

fn guarded<T>(f: impl FnOnce() -> T) -> Option<T> {
    catch_unwind(AssertUnwindSafe(f)).ok()
}

pub fn interp(ct: &Ctor, rank: usize, code: &[i64]) -> Result<Vec<i64>, String> {
    let mut log: Vec<i64> = Vec::new();
    let mut a: Box<dyn ArrDyn> = match guarded(|| (ct.zeros)()) {
        Some(a) => a,
        None => return Err("zeros() panicked".into()),
    };
    let mut p = 0usize;
    let n = code.len();
    macro_rules! need {
        ($k:expr) => {
            if p + $k > n {
                return Err(format!("truncated program at {}", p));
            }
        };
    }
    let us = |s: &[i64]| -> Vec<usize> { s.iter().map(|&x| x.max(0) as usize).collect() };
    while p < n {
        let c = code[p];
        p += 1;
        match c {
            0 => {
                need!(rank);
                let k = us(&code[p..p + rank]);
                p += rank;
                log.push(guarded(|| a.get(&k)).unwrap_or(PANIC));
            }
            1 => {
                need!(rank + 1);
                let k = us(&code[p..p + rank]);
                let v = code[p + rank];
                p += rank + 1;
                log.push(if guarded(|| a.set(&k, v)).is_some() { 0 } else { PANIC });
            }
            2 => {
                match guarded(|| a.iter_vals()) {
                    Some(v) => {
                        log.extend(v);
                        log.push(END)
                    }
                    None => log.push(PANIC),
                }
            }
            3 => {
                need!(1);
                let cc = code[p];
                p += 1;
                match guarded(|| a.iter_mut_apply(cc)) {
                    Some(cnt) => log.push(cnt as i64),
                    None => log.push(PANIC),
                }
            }
            4 => match guarded(|| a.iter_with_log()) {
                Some(v) => {
                    log.extend(v);
                    log.push(END)
                }
                None => log.push(PANIC),
            },
            5 => match guarded(|| (ct.indexes_log)()) {
                Some(v) => log.extend(v),
                None => log.push(PANIC),
            },
            6 => {
                need!(1);
                let i = code[p].max(0) as usize;
                p += 1;
                match guarded(|| a.down_iter(i)) {
                    Some(Some(v)) => {
                        log.extend(v);
                        log.push(END)
                    }
                    Some(None) => return Err("down on an array without sub-arrays".into()),
                    None => log.push(PANIC),
                }
            }
            7 => {
                need!(rank + 1);
                let i = code[p].max(0) as usize;
                let k = us(&code[p + 1..p + rank]);
                let v = code[p + rank];
                p += rank + 1;
                match guarded(|| a.down_set(i, &k, v)) {
                    Some(Some(())) => log.push(0),
                    Some(None) => return Err("down_mut on an array without sub-arrays".into()),
                    None => log.push(PANIC),
                }
            }
            8 => {
                let cl = a.clone_box();
                log.push(if cl.eq_dyn(a.as_ref()) { 1 } else { 0 });
                log.extend(cl.iter_vals());
                log.push(END);
            }
            9 => {
                need!(rank);
                let k = us(&code[p..p + rank]);
                p += rank;
                let mut cl = a.clone_box();
                let r = guarded(|| {
                    let v = cl.get(&k);
                    cl.set(&k, v + 1);
                });
                log.push(match r {
                    Some(()) => {
                        if cl.eq_dyn(a.as_ref()) {
                            1
                        } else {
                            0
                        }
                    }
                    None => PANIC,
                });
            }
            10 => {
                need!(4);
                let (x, y, z, d) = (code[p], code[p + 1], code[p + 2], code[p + 3]);
                p += 4;
                match guarded(|| (ct.from_fn)(x, y, z, d)) {
                    Some(na) => {
                        a = na;
                        log.push(0)
                    }
                    None => log.push(PANIC),
                }
            }
            11 | 13 => {
                need!(1);
                let len = code[p].max(0) as usize;
                p += 1;
                need!(len);
                let vs = code[p..p + len].to_vec();
                p += len;
                if c == 11 {
                    match guarded(|| (ct.from_flat)(vs)) {
                        Some(na) => {
                            a = na;
                            log.push(0)
                        }
                        None => log.push(PANIC),
                    }
                } else {
                    match guarded(|| (ct.try_from)(&vs)) {
                        Some(Some(Tf::Ok(na))) => {
                            a = na;
                            log.push(0)
                        }
                        Some(Some(Tf::Err(e))) => {
                            log.push(ERR);
                            log.push(e)
                        }
                        Some(None) => return Err("try_from input of the wrong size for an unlabelled array".into()),
                        None => log.push(PANIC),
                    }
                }
            }
            12 => match guarded(|| (ct.zeros)()) {
                Some(na) => {
                    a = na;
                    log.push(0)
                }
                None => log.push(PANIC),
            },
            14 => match guarded(|| a.conv_asref()) {
                Some(Some(v)) => log.extend(v),
                Some(None) => return Err("conv/as_ref on an array without them".into()),
                None => log.push(PANIC),
            },
            15 => {
                let mut vs: Vec<Vec<i64>> = Vec::new();
                for _ in 0..3 {
                    need!(1);
                    let len = code[p].max(0) as usize;
                    p += 1;
                    need!(len);
                    vs.push(code[p..p + len].to_vec());
                    p += len;
                }
                match guarded(|| (ct.product)(&vs[0], &vs[1], &vs[2])) {
                    Some(Some(na)) => {
                        a = na;
                        log.push(0)
                    }
                    Some(None) => return Err("product on a rank-1 array".into()),
                    None => log.push(PANIC),
                }
            }
            _ => return Err(format!("bad opcode {}", c)),
        }
    }
    Ok(log)
}

pub fn run(c: &Case) -> String {
    let code: Vec<i64> = c.bits.iter().map(|&b| b as i64).collect();
    let ct = match crate::arr_gen::ctor_for(c.fam, &c.dims) {
        Some(ct) => ct,
        None => return format!("BAD no array instantiation for family {} dims {:?}", c.fam, c.dims),
    };
    let res = if c.op == "arr_iter_adapt" {
        // numbers: a b c d (cells = a k0 + b k1 + c k2 + d), kind, k
        if code.len() != 6 {
            return "BAD arr_iter_adapt takes six numbers".into();
        }
        let arr = match guarded(|| (ct.from_fn)(code[0], code[1], code[2], code[3])) {
            Some(a) => a,
            None => return "OK ffffffffffffffff".into(),
        };
        ADAPT.with(|a| a.set((code[4], code[5].max(0) as usize)));
        let r = guarded(|| arr.iter_vals());
        ADAPT.with(|a| a.set((0, 0)));
        Ok(r.unwrap_or_else(|| vec![PANIC]))
    } else if c.op == "arr_nested" {
        // numbers: the nesting of the input (see nested_rows); labelled rank 2 / 3 only
        match guarded(|| (ct.from_nested)(&code).map(|a| a.iter_vals())) {
            Some(Some(v)) => Ok(v),
            Some(None) => return "BAD arr_nested on a family / rank without from_multi_iter".into(),
            None => Ok(vec![PANIC]),
        }
    } else if c.op == "arr_adapt" {
        // numbers: kind, k (see drain_indexes)
        if code.len() != 2 {
            return "BAD arr_adapt takes two numbers".into();
        }
        ADAPT.with(|a| a.set((code[0], code[1].max(0) as usize)));
        let r = guarded(|| (ct.indexes_log)());
        ADAPT.with(|a| a.set((0, 0)));
        Ok(r.unwrap_or_else(|| vec![PANIC]))
    } else {
        interp(&ct, c.dims.len(), &code)
    };
    match res {
        Ok(log) => {
            let mut s = String::from("OK");
            for x in log {
                s.push(' ');
                s.push_str(&format!("{:x}", x as u64));
            }
            s
        }
        Err(m) => format!("BAD {}", m),
    }
}
