//! Multinomial operators, generic over the container family; every function takes
//! the flat numbers of a case and returns the flat numbers of the result.
use std::borrow::Borrow;
use std::ops::IndexMut;

use subjective_logic::iter::{Container, ContainerMap, FromFn};
use subjective_logic::mul::{mbr, InverseCondition, MergeJointConditions2, Opinion, OpinionRef, Simplex};
use subjective_logic::ops::{
    Abduction, Deduction, Discount, Fuse, FuseAssign, FuseOp, MaxUncertainty, Product2, Product3,
    Projection, Zeros,
};

use crate::fam::{fl, mk, Tab, Vf};

pub enum Out<V> {
    Ok(Vec<V>),
    None,
    Err(String),
    Bad(String),
}

fn flat_simplex<T: Tab<V>, V: Vf>(s: &Simplex<T, V>) -> Vec<V> {
    let mut v = fl(&s.belief);
    v.push(s.uncertainty);
    v
}
fn flat_opinion<T: Tab<V>, V: Vf>(w: &Opinion<T, V>) -> Vec<V> {
    let mut v = flat_simplex(&w.simplex);
    v.extend(fl(&w.base_rate));
    v
}

struct Rd<'a, V> {
    x: &'a [V],
    p: usize,
}
impl<'a, V: Vf> Rd<'a, V> {
    fn new(x: &'a [V]) -> Self {
        Rd { x, p: 0 }
    }
    fn vec<T: Tab<V>>(&mut self) -> T {
        let t = mk(&self.x[self.p..self.p + T::LEN]);
        self.p += T::LEN;
        t
    }
    fn one(&mut self) -> V {
        let v = self.x[self.p];
        self.p += 1;
        v
    }
    fn simplex<T: Tab<V>>(&mut self) -> Simplex<T, V> {
        let b: T = self.vec();
        let u = self.one();
        Simplex::new_unchecked(b, u)
    }
    fn opinion<T: Tab<V>>(&mut self) -> Opinion<T, V> {
        let s = self.simplex();
        let a: T = self.vec();
        Opinion::from((s, a))
    }
    fn conds<C: Tab<Simplex<U, V>>, U: Tab<V>>(&mut self) -> C {
        let mut v: Vec<Option<Simplex<U, V>>> = (0..C::LEN).map(|_| Some(self.simplex())).collect();
        C::tab(|i| v[i].take().unwrap())
    }
}

pub fn fuse_op(k: usize) -> FuseOp {
    match k {
        0 => FuseOp::ACm,
        1 => FuseOp::ECm,
        2 => FuseOp::Avg,
        _ => FuseOp::Wgh,
    }
}

/// `==` of two opinions / simplexes (derived PartialEq; labelled arrays delegate to their cells):
/// overall results, then the scalar `==` of every cell pair (b.., u, a..)
pub fn eqv<T, V>(x: &[V]) -> Out<V>
where
    T: Tab<V> + PartialEq,
    V: Vf,
{
    let mut r = Rd::new(x);
    let w1: Opinion<T, V> = r.opinion();
    let w2: Opinion<T, V> = r.opinion();
    let f = |b: bool| if b { V::one() } else { V::zero() };
    let mut v = vec![
        f(w1 == w2), f(w2 == w1), f(w1 == w1),
        f(w1.simplex == w2.simplex), f(w2.simplex == w1.simplex),
        f(w1.base_rate == w2.base_rate),
    ];
    let (a, b) = (fl(&w1.simplex.belief), fl(&w2.simplex.belief));
    v.extend(a.iter().zip(&b).map(|(p, q)| f(p == q)));
    v.push(f(w1.simplex.uncertainty == w2.simplex.uncertainty));
    let (a, b) = (fl(&w1.base_rate), fl(&w2.base_rate));
    v.extend(a.iter().zip(&b).map(|(p, q)| f(p == q)));
    Out::Ok(v)
}

// ------------------------------------------------------------ unary operators

pub fn proj<T, Idx, V>(style: &str, x: &[V]) -> Out<V>
where
    T: Tab<V> + Container<Idx, Output = V> + FromFn<Idx, V> + IndexMut<Idx>,
    Idx: Copy,
    V: Vf,
{
    let mut r = Rd::new(x);
    let w: Opinion<T, V> = r.opinion();
    let p: T = match style {
        "own" => Projection::<Idx, T>::projection(&w),
        "ref" => Projection::<Idx, T>::projection(&w.as_ref()),
        "spx" => w.simplex.projection::<Idx>(&w.base_rate),
        _ => return Out::Bad(format!("proj: style {style}")),
    };
    Out::Ok(fl(&p))
}

pub fn maxu<T, Idx, V>(_style: &str, x: &[V]) -> Out<V>
where
    T: Tab<V> + Container<Idx, Output = V> + FromFn<Idx, V> + IndexMut<Idx>,
    Idx: Copy,
    V: Vf,
{
    let mut r = Rd::new(x);
    let w: Opinion<T, V> = r.opinion();
    Out::Ok(vec![MaxUncertainty::<Idx, V, T>::max_uncertainty(&w.simplex, &w.base_rate)])
}

pub fn umax<T, Idx, V>(_style: &str, x: &[V]) -> Out<V>
where
    T: Tab<V> + Container<Idx, Output = V> + FromFn<Idx, V> + IndexMut<Idx>,
    Idx: Copy,
    V: Vf,
{
    let mut r = Rd::new(x);
    let w: Opinion<T, V> = r.opinion();
    let s = MaxUncertainty::<Idx, V, T>::uncertainty_maximized(&w.simplex, &w.base_rate);
    Out::Ok(flat_simplex(&s))
}

/// disc: b u t (style spx) ; chain of k discounts; style "own"/"ref" carry a base rate
/// made of the belief vector itself (it must come back unchanged and is not printed).
pub fn disc<T, V>(style: &str, k: usize, x: &[V]) -> Out<V>
where
    T: Tab<V> + FromIterator<V> + Zeros + Clone + PartialEq,
    for<'a> &'a T: IntoIterator<Item = &'a V>,
    V: Vf,
{
    let mut r = Rd::new(x);
    let mut s: Simplex<T, V> = r.simplex();
    let a: T = s.belief.clone();
    for _ in 0..k {
        let t = r.one();
        s = match style {
            "spx" => s.discount(t),
            "own" => {
                let w = Opinion::from((s, a.clone())).discount(t);
                if w.base_rate != a {
                    return Out::Bad("discount changed the base rate".into());
                }
                w.simplex
            }
            "ref" => {
                let w = OpinionRef::from((&s, &a)).discount(t);
                if w.base_rate != a {
                    return Out::Bad("discount changed the base rate".into());
                }
                w.simplex
            }
            _ => return Out::Bad(format!("disc: style {style}")),
        };
    }
    Out::Ok(flat_simplex(&s))
}

// ---------------------------------------------------------------------- fusion

pub fn fuse<T, Idx, V>(style: &str, opk: usize, same: bool, x: &[V]) -> Out<V>
where
    T: Tab<V> + Container<Idx, Output = V> + Clone + Zeros + FromFn<Idx, V> + IndexMut<Idx>,
    Idx: Copy,
    V: Vf,
{
    let op = fuse_op(opk);
    let mut r = Rd::new(x);
    let l: Opinion<T, V> = r.opinion();
    let rr: Opinion<T, V> = r.opinion();
    let w: Opinion<T, V> = match (style, same) {
        ("own", false) => Fuse::<_, _, Idx>::fuse(&op, &l, &rr),
        ("ref", false) => Fuse::<_, _, Idx>::fuse(&op, l.as_ref(), rr.as_ref()),
        ("ref", true) => Fuse::<_, _, Idx>::fuse(
            &op,
            l.as_ref(),
            OpinionRef::from((&rr.simplex, &l.base_rate)),
        ),
        // one and the same object on both sides (second operand of the case ignored)
        ("self", true) => Fuse::<_, _, Idx>::fuse(&op, &l, &l),
        ("self_ref", true) => Fuse::<_, _, Idx>::fuse(&op, l.as_ref(), l.as_ref()),
        ("assign", false) => {
            let mut acc = l.clone();
            FuseAssign::<_, &Opinion<T, V>, Idx>::fuse_assign(&op, &mut acc, &rr);
            acc
        }
        ("assign_ref", false) => {
            let mut acc = l.clone();
            FuseAssign::<_, OpinionRef<T, V>, Idx>::fuse_assign(&op, &mut acc, rr.as_ref());
            acc
        }
        _ => return Out::Bad(format!("fuse: style {style} same {same}")),
    };
    Out::Ok(flat_opinion(&w))
}

/// opinion (x) simplex
pub fn fuse_s<T, Idx, V>(style: &str, opk: usize, x: &[V]) -> Out<V>
where
    T: Tab<V> + Container<Idx, Output = V> + Clone + Zeros + FromFn<Idx, V> + IndexMut<Idx>,
    Idx: Copy,
    V: Vf,
{
    let op = fuse_op(opk);
    let mut r = Rd::new(x);
    let l: Opinion<T, V> = r.opinion();
    let s: Simplex<T, V> = r.simplex();
    let w: Opinion<T, V> = match style {
        "own" => Fuse::<_, _, Idx>::fuse(&op, &l, &s),
        "ref" => Fuse::<_, _, Idx>::fuse(&op, l.as_ref(), &s),
        "assign" => {
            let mut acc = l.clone();
            FuseAssign::<_, &Simplex<T, V>, Idx>::fuse_assign(&op, &mut acc, &s);
            acc
        }
        _ => return Out::Bad(format!("fuse_s: style {style}")),
    };
    Out::Ok(flat_opinion(&w))
}

/// simplex (x) simplex (ECm panics by design)
pub fn fuse_ss<T, Idx, V>(style: &str, opk: usize, x: &[V]) -> Out<V>
where
    T: Tab<V> + Container<Idx, Output = V> + Clone + Zeros + FromFn<Idx, V> + IndexMut<Idx>,
    Idx: Copy,
    V: Vf,
{
    let op = fuse_op(opk);
    let mut r = Rd::new(x);
    let l: Simplex<T, V> = r.simplex();
    let s: Simplex<T, V> = r.simplex();
    let w: Simplex<T, V> = match style {
        "self" => Fuse::<_, _, Idx>::fuse(&op, &l, &l),
        "own" => Fuse::<_, _, Idx>::fuse(&op, &l, &s),
        "assign" => {
            let mut acc = l.clone();
            FuseAssign::<_, &Simplex<T, V>, Idx>::fuse_assign(&op, &mut acc, &s);
            acc
        }
        _ => return Out::Bad(format!("fuse_ss: style {style}")),
    };
    Out::Ok(flat_simplex(&w))
}

/// left fold of k opinions
pub fn fold<T, Idx, V>(style: &str, opk: usize, k: usize, x: &[V]) -> Out<V>
where
    T: Tab<V> + Container<Idx, Output = V> + Clone + Zeros + FromFn<Idx, V> + IndexMut<Idx>,
    Idx: Copy,
    V: Vf,
{
    let op = fuse_op(opk);
    let mut r = Rd::new(x);
    let mut acc: Opinion<T, V> = r.opinion();
    for _ in 1..k {
        let w: Opinion<T, V> = r.opinion();
        match style {
            "own" => acc = Fuse::<_, _, Idx>::fuse(&op, &acc, &w),
            "ref" => acc = Fuse::<_, _, Idx>::fuse(&op, acc.as_ref(), w.as_ref()),
            "assign" => FuseAssign::<_, &Opinion<T, V>, Idx>::fuse_assign(&op, &mut acc, &w),
            _ => return Out::Bad(format!("fold: style {style}")),
        }
    }
    Out::Ok(flat_opinion(&acc))
}

/// fusion over an arbitrary parenthesisation: tokens in postfix order, i < k pushes operand i,
/// 99 fuses the two topmost entries (left = the deeper one)
pub fn ftree<T, Idx, V>(style: &str, opk: usize, k: usize, toks: &[usize], x: &[V]) -> Out<V>
where
    T: Tab<V> + Container<Idx, Output = V> + Clone + Zeros + FromFn<Idx, V> + IndexMut<Idx>,
    Idx: Copy,
    V: Vf,
{
    let op = fuse_op(opk);
    let mut r = Rd::new(x);
    let ws: Vec<Opinion<T, V>> = (0..k).map(|_| r.opinion()).collect();
    let mut st: Vec<Opinion<T, V>> = Vec::new();
    for &t in toks {
        if t == 99 {
            let (b, a) = (st.pop(), st.pop());
            match (a, b) {
                (Some(mut a), Some(b)) => {
                    match style {
                        "own" => a = Fuse::<_, _, Idx>::fuse(&op, &a, &b),
                        "ref" => a = Fuse::<_, _, Idx>::fuse(&op, a.as_ref(), b.as_ref()),
                        "assign" => FuseAssign::<_, &Opinion<T, V>, Idx>::fuse_assign(&op, &mut a, &b),
                        _ => return Out::Bad(format!("ftree: style {style}")),
                    }
                    st.push(a);
                }
                _ => return Out::Bad("ftree: stack underflow".into()),
            }
        } else if t < k {
            st.push(ws[t].clone());
        } else {
            return Out::Bad(format!("ftree: bad token {t}"));
        }
    }
    match st.pop() {
        Some(w) if st.is_empty() => Out::Ok(flat_opinion(&w)),
        _ => Out::Bad("ftree: malformed expression".into()),
    }
}

// ------------------------------------------- marginal base rate and deduction

pub fn op_mbr<T, U, C, X, Y, V>(_style: &str, x: &[V]) -> Out<V>
where
    T: Tab<V> + Container<X, Output = V>,
    U: Tab<V> + Container<Y, Output = V> + FromFn<Y, V> + IndexMut<Y>,
    C: Tab<Simplex<U, V>> + Container<X, Output = Simplex<U, V>>,
    X: Copy,
    Y: Copy,
    V: Vf,
{
    let mut r = Rd::new(x);
    let ax: T = r.vec();
    let conds: C = r.conds();
    match mbr::<X, Y, T, C, U, V>(&ax, &conds) {
        Some(ay) => Out::Ok(fl(&ay)),
        None => Out::None,
    }
}

pub fn op_deduce<T, U, C, X, Y, V>(style: &str, with: bool, x: &[V]) -> Out<V>
where
    T: Tab<V> + Container<X, Output = V> + FromFn<X, V> + IndexMut<X>,
    U: Tab<V> + Container<Y, Output = V> + FromFn<Y, V> + IndexMut<Y>,
    C: Tab<Simplex<U, V>> + Container<X, Output = Simplex<U, V>> + ContainerMap<X>,
    X: Copy,
    Y: Copy,
    V: Vf,
{
    let mut r = Rd::new(x);
    let w: Opinion<T, V> = r.opinion();
    let conds: C = r.conds();
    if with {
        let fb: U = r.vec();
        let mut used = false;
        let mut fbo = Some(fb);
        let f = || {
            used = true;
            fbo.take().unwrap()
        };
        let res: Opinion<U, V> = match style {
            "own" => Deduction::<X, Y, &C, U>::deduce_with(&w, &conds, f),
            "ref" => Deduction::<X, Y, &C, U>::deduce_with(w.as_ref(), &conds, f),
            _ => return Out::Bad(format!("deduce_with: style {style}")),
        };
        let mut v = vec![if used { V::one() } else { V::zero() }];
        v.extend(flat_opinion(&res));
        Out::Ok(v)
    } else {
        let res: Option<Opinion<U, V>> = match style {
            "own" => Deduction::<X, Y, &C, U>::deduce(&w, &conds),
            "ref" => Deduction::<X, Y, &C, U>::deduce(w.as_ref(), &conds),
            _ => return Out::Bad(format!("deduce: style {style}")),
        };
        match res {
            Some(o) => Out::Ok(flat_opinion(&o)),
            None => Out::None,
        }
    }
}

/// deduction through a table of borrowed conditionals (`&Simplex` cells)
pub fn op_deduce_borrowed<'a, T, U, C, CR, X, Y, V>(with: bool, x: &[V]) -> Out<V>
where
    T: Tab<V> + Container<X, Output = V> + FromFn<X, V> + IndexMut<X>,
    U: Tab<V> + Container<Y, Output = V> + FromFn<Y, V> + IndexMut<Y> + 'static,
    C: Tab<Simplex<U, V>> + 'a,
    CR: Tab<&'a Simplex<U, V>> + Container<X, Output = &'a Simplex<U, V>> + ContainerMap<X>,
    X: Copy,
    Y: Copy,
    V: Vf,
{
    let mut r = Rd::new(x);
    let w: Opinion<T, V> = r.opinion();
    let conds: C = r.conds();
    // leak: the table must outlive 'a; the harness is a short-lived process
    let conds: &'a C = Box::leak(Box::new(conds));
    let cr: CR = CR::tab(|i| conds.at(i));
    if with {
        let fb: U = r.vec();
        let mut used = false;
        let mut fbo = Some(fb);
        let res: Opinion<U, V> = Deduction::<X, Y, &CR, U>::deduce_with(w.as_ref(), &cr, || {
            used = true;
            fbo.take().unwrap()
        });
        let mut v = vec![if used { V::one() } else { V::zero() }];
        v.extend(flat_opinion(&res));
        Out::Ok(v)
    } else {
        match Deduction::<X, Y, &CR, U>::deduce(w.as_ref(), &cr) {
            Some(o) => Out::Ok(flat_opinion(&o)),
            None => Out::None,
        }
    }
}

// --------------------------------------------------- inversion and abduction

pub fn op_inverse<T, U, C, X, Y, V>(_style: &str, x: &[V]) -> Out<V>
where
    T: Tab<V> + Container<X, Output = V>,
    U: Tab<V> + Container<Y, Output = V>,
    C: Tab<Simplex<U, V>> + InverseCondition<X, Y, T, U, V>,
    C: std::ops::Index<X, Output = Simplex<U, V>>,
    C::InvCond: Tab<Simplex<T, V>>,
    X: Copy,
    Y: Copy,
    V: Vf,
{
    let mut r = Rd::new(x);
    let conds: C = r.conds();
    let ax: T = r.vec();
    let ay: U = r.vec();
    let inv = conds.inverse(&ax, &ay);
    let mut v = Vec::new();
    for i in 0..<C::InvCond as Tab<Simplex<T, V>>>::LEN {
        v.extend(flat_simplex(inv.at(i)));
    }
    Out::Ok(v)
}

pub fn op_abduce<'a, T, U, C, X, Y, V>(style: &str, with: bool, x: &[V]) -> Out<V>
where
    T: Tab<V> + Container<X, Output = V> + FromFn<X, V> + IndexMut<X> + 'a,
    U: Tab<V> + Container<Y, Output = V> + FromFn<Y, V> + IndexMut<Y> + 'a,
    C: Tab<Simplex<U, V>> + InverseCondition<X, Y, T, U, V> + Container<X, Output = Simplex<U, V>> + 'a,
    C::InvCond: Container<Y, Output = Simplex<T, V>> + ContainerMap<Y> + 'a,
    X: Copy,
    Y: Copy,
    V: Vf,
{
    let mut r = Rd::new(x);
    let wy: Simplex<U, V> = r.simplex();
    let conds: C = r.conds();
    let ax: T = r.vec();
    let wy: &'a Simplex<U, V> = Box::leak(Box::new(wy));
    let conds: &'a C = Box::leak(Box::new(conds));
    if with {
        let ay: U = r.vec();
        let ay: &'a U = Box::leak(Box::new(ay));
        let res: Opinion<T, V> = match style {
            "spx" => Abduction::<&'a C, X, Y, T, U>::abduce_with(wy, conds, ax, ay),
            // the opinion forms carry their own base rate on Y, which abduce_with must ignore in favour of `ay`
            "ref" => {
                let dummy: &'a U = Box::leak(Box::new(U::tab(|i| *wy.belief.at(i))));
                Abduction::<&'a C, X, Y, T, U>::abduce_with(OpinionRef::from((wy, dummy)), conds, ax, ay)
            }
            "own" => {
                let w: &'a Opinion<U, V> = Box::leak(Box::new(Opinion::from((
                    Simplex::new_unchecked(U::tab(|i| *wy.belief.at(i)), wy.uncertainty),
                    U::tab(|i| *wy.belief.at(i)),
                ))));
                Abduction::<&'a C, X, Y, T, U>::abduce_with(w, conds, ax, ay)
            }
            _ => return Out::Bad(format!("abduce_with: style {style}")),
        };
        Out::Ok(flat_opinion(&res))
    } else {
        // the opinion forms carry a base rate on Y that abduction must ignore
        let dummy: &'a U = Box::leak(Box::new(U::tab(|i| *wy.belief.at(i))));
        let res: Option<Opinion<T, V>> = match style {
            "spx" => Abduction::<&'a C, X, Y, T, U>::abduce(wy, conds, ax),
            "ref" => Abduction::<&'a C, X, Y, T, U>::abduce(OpinionRef::from((wy, dummy)), conds, ax),
            "own" => {
                let w: &'a Opinion<U, V> = Box::leak(Box::new(Opinion::from((
                    Simplex::new_unchecked(U::tab(|i| *wy.belief.at(i)), wy.uncertainty),
                    U::tab(|i| *wy.belief.at(i)),
                ))));
                Abduction::<&'a C, X, Y, T, U>::abduce(w, conds, ax)
            }
            _ => return Out::Bad(format!("abduce: style {style}")),
        };
        match res {
            Some(o) => Out::Ok(flat_opinion(&o)),
            None => Out::None,
        }
    }
}

// -------------------------------------------------------------------- products

pub fn op_prod2<'a, T0, T1, P, V>(style: &str, x: &[V]) -> Out<V>
where
    T0: Tab<V> + 'a,
    T1: Tab<V> + 'a,
    P: Tab<V>,
    Opinion<P, V>: Product2<OpinionRef<'a, T0, V>, OpinionRef<'a, T1, V>>,
    V: Vf,
{
    let mut r = Rd::new(x);
    let w0: &'a Opinion<T0, V> = Box::leak(Box::new(r.opinion()));
    let w1: &'a Opinion<T1, V> = Box::leak(Box::new(r.opinion()));
    let w: Opinion<P, V> = match style {
        "ref" => Product2::product2(w0.as_ref(), w1.as_ref()),
        "own" => Product2::product2(w0, w1),
        _ => return Out::Bad(format!("prod2: style {style}")),
    };
    Out::Ok(flat_opinion(&w))
}

pub fn op_prod3<'a, T0, T1, T2, P, V>(style: &str, x: &[V]) -> Out<V>
where
    T0: Tab<V> + 'a,
    T1: Tab<V> + 'a,
    T2: Tab<V> + 'a,
    P: Tab<V>,
    Opinion<P, V>: Product3<OpinionRef<'a, T0, V>, OpinionRef<'a, T1, V>, OpinionRef<'a, T2, V>>,
    V: Vf,
{
    let mut r = Rd::new(x);
    let w0: &'a Opinion<T0, V> = Box::leak(Box::new(r.opinion()));
    let w1: &'a Opinion<T1, V> = Box::leak(Box::new(r.opinion()));
    let w2: &'a Opinion<T2, V> = Box::leak(Box::new(r.opinion()));
    let w: Opinion<P, V> = match style {
        "ref" => Product3::product3(w0.as_ref(), w1.as_ref(), w2.as_ref()),
        "own" => Product3::product3(w0, w1, w2),
        _ => return Out::Bad(format!("prod3: style {style}")),
    };
    Out::Ok(flat_opinion(&w))
}

// --------------------------------------------------------------------- merging

#[allow(clippy::type_complexity)]
pub fn op_merge<V, X1, X2, X12, Y, C1, C2, T1, T2, TY, U, C12>(_style: &str, x: &[V]) -> Out<V>
where
    C12: MergeJointConditions2<V, X1, X2, X12, Y, C1, C2, T1, T2, TY, U>,
    C1: Tab<Simplex<TY, V>>,
    C2: Tab<Simplex<TY, V>>,
    T1: Tab<V>,
    T2: Tab<V>,
    TY: Tab<V>,
    <C12 as MergeJointConditions2<V, X1, X2, X12, Y, C1, C2, T1, T2, TY, U>>::Output:
        Tab<Simplex<TY, V>>,
    V: Vf,
{
    let mut r = Rd::new(x);
    let c1: C1 = r.conds();
    let c2: C2 = r.conds();
    let a1: T1 = r.vec();
    let a2: T2 = r.vec();
    let ay: TY = r.vec();
    let m = C12::merge_cond2(&c1, &c2, &a1, &a2, &ay);
    let mut v = Vec::new();
    let n = <<C12 as MergeJointConditions2<V, X1, X2, X12, Y, C1, C2, T1, T2, TY, U>>::Output as Tab<
        Simplex<TY, V>,
    >>::LEN;
    for i in 0..n {
        v.extend(flat_simplex(m.at(i)));
    }
    Out::Ok(v)
}

/// merging from tables of borrowed conditionals
#[allow(clippy::type_complexity)]
pub fn op_merge_borrowed<'a, V, X1, X2, X12, Y, C1, C2, R1, R2, T1, T2, TY, U, C12>(x: &[V]) -> Out<V>
where
    C12: MergeJointConditions2<V, X1, X2, X12, Y, R1, R2, T1, T2, TY, U>,
    C1: Tab<Simplex<TY, V>> + 'a,
    C2: Tab<Simplex<TY, V>> + 'a,
    R1: Tab<&'a Simplex<TY, V>>,
    R2: Tab<&'a Simplex<TY, V>>,
    T1: Tab<V>,
    T2: Tab<V>,
    TY: Tab<V> + 'a,
    <C12 as MergeJointConditions2<V, X1, X2, X12, Y, R1, R2, T1, T2, TY, U>>::Output:
        Tab<Simplex<TY, V>>,
    V: Vf,
{
    let mut r = Rd::new(x);
    let c1: &'a C1 = Box::leak(Box::new(r.conds()));
    let c2: &'a C2 = Box::leak(Box::new(r.conds()));
    let r1: R1 = R1::tab(|i| c1.at(i));
    let r2: R2 = R2::tab(|i| c2.at(i));
    let a1: T1 = r.vec();
    let a2: T2 = r.vec();
    let ay: TY = r.vec();
    let m = C12::merge_cond2(&r1, &r2, &a1, &a2, &ay);
    let mut v = Vec::new();
    let n = <<C12 as MergeJointConditions2<V, X1, X2, X12, Y, R1, R2, T1, T2, TY, U>>::Output as Tab<
        Simplex<TY, V>,
    >>::LEN;
    for i in 0..n {
        v.extend(flat_simplex(m.at(i)));
    }
    Out::Ok(v)
}

#[allow(dead_code)]
fn _unused<T: Borrow<u8>>(_: T) {}

// ------------------------------------------------------------ merge probe
/// The stages of `merge_cond2` replayed through the public API on plain arrays: for every joint value (x1,x2)
/// the largest |P(x1x2 | y)| over y that the final inversion's "impossible under every y" test sees.  Used only
/// to classify a failure of the impossible-cell predicate (known finding KF2): numbers as for `merge`.
macro_rules! merge_probe_impl {
    ($name:ident, $V:ty, $n1:literal, $n2:literal, $ny:literal) => {
        pub fn $name(x: &[$V]) -> Out<$V> {
            use subjective_logic::multi_array::non_labeled::MArr2;
            let mut r = Rd::new(x);
            let c1: [Simplex<[$V; $ny], $V>; $n1] = r.conds();
            let c2: [Simplex<[$V; $ny], $V>; $n2] = r.conds();
            let a1: [$V; $n1] = r.vec();
            let a2: [$V; $n2] = r.vec();
            let ay: [$V; $ny] = r.vec();
            let m1: Option<[$V; $ny]> = mbr::<usize, usize, _, _, [$V; $ny], $V>(&a1, &c1);
            let m2: Option<[$V; $ny]> = mbr::<usize, usize, _, _, [$V; $ny], $V>(&a2, &c2);
            let x1_y = InverseCondition::<usize, usize, [$V; $n1], [$V; $ny], $V>::inverse(&c1, &a1, m1.as_ref().unwrap_or(&ay));
            let x2_y = InverseCondition::<usize, usize, [$V; $n2], [$V; $ny], $V>::inverse(&c2, &a2, m2.as_ref().unwrap_or(&ay));
            let x12_y: [Simplex<MArr2<$V, $n1, $n2>, $V>; $ny] = std::array::from_fn(|y| {
                let w: Opinion<MArr2<$V, $n1, $n2>, $V> = Product2::product2(
                    OpinionRef::from((&x1_y[y], &a1)),
                    OpinionRef::from((&x2_y[y], &a2)),
                );
                w.simplex
            });
            let ax12: MArr2<$V, $n1, $n2> = mbr::<usize, [usize; 2], _, _, MArr2<$V, $n1, $n2>, $V>(&ay, &x12_y)
                .unwrap_or_else(|| <MArr2<$V, $n1, $n2> as Product2<&[$V; $n1], &[$V; $n2]>>::product2(&a1, &a2));
            let mut out = vec![<$V as num_traits::Zero>::zero(); $n1 * $n2];
            for y in 0..$ny {
                let p: MArr2<$V, $n1, $n2> = x12_y[y].projection::<[usize; 2]>(&ax12);
                for i in 0..$n1 {
                    for j in 0..$n2 {
                        let v = num_traits::Float::abs(p[[i, j]]);
                        if v > out[i * $n2 + j] || v.is_nan() {
                            out[i * $n2 + j] = v;
                        }
                    }
                }
            }
            Out::Ok(out)
        }
    };
}
merge_probe_impl!(merge_probe_f64_222, f64, 2, 2, 2);
merge_probe_impl!(merge_probe_f64_223, f64, 2, 2, 3);
merge_probe_impl!(merge_probe_f64_232, f64, 2, 3, 2);
merge_probe_impl!(merge_probe_f64_233, f64, 2, 3, 3);
merge_probe_impl!(merge_probe_f64_322, f64, 3, 2, 2);
merge_probe_impl!(merge_probe_f64_323, f64, 3, 2, 3);
merge_probe_impl!(merge_probe_f64_332, f64, 3, 3, 2);
merge_probe_impl!(merge_probe_f64_333, f64, 3, 3, 3);
merge_probe_impl!(merge_probe_f32_222, f32, 2, 2, 2);
merge_probe_impl!(merge_probe_f32_223, f32, 2, 2, 3);
merge_probe_impl!(merge_probe_f32_232, f32, 2, 3, 2);
merge_probe_impl!(merge_probe_f32_233, f32, 2, 3, 3);
merge_probe_impl!(merge_probe_f32_322, f32, 3, 2, 2);
merge_probe_impl!(merge_probe_f32_323, f32, 3, 2, 3);
merge_probe_impl!(merge_probe_f32_332, f32, 3, 3, 2);
merge_probe_impl!(merge_probe_f32_333, f32, 3, 3, 3);
